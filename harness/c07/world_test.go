package c07

import (
	"context"
	"encoding/binary"
	"encoding/hex"
	"errors"
	"fmt"
	"io"
	"os"
	"strings"
	"sync"
	"sync/atomic"
	"time"

	"github.com/libp2p/go-libp2p/core/host"
	"github.com/libp2p/go-libp2p/core/network"
	"github.com/libp2p/go-libp2p/core/peer"
	"github.com/libp2p/go-libp2p/core/peerstore"
	"github.com/libp2p/go-libp2p/core/protocol"
	bhost "github.com/libp2p/go-libp2p/p2p/host/basic"
	blankhost "github.com/libp2p/go-libp2p/p2p/host/blank"
	"github.com/libp2p/go-libp2p/p2p/host/eventbus"
	"github.com/libp2p/go-libp2p/p2p/host/peerstore/pstoremem"
	rcmgr "github.com/libp2p/go-libp2p/p2p/host/resource-manager"
	"github.com/libp2p/go-libp2p/p2p/net/swarm"
	"github.com/libp2p/go-libp2p/x/rate"

	"verif/harness/rig/memtpt"
	"verif/harness/rig/sectest"
)

// ---------------------------------------------------------------------------------------------
// wire format of the application exchange. The opener writes a 16-byte nonce, the handler answers
// (its handler id, the Protocol() its stream reports, the nonce).
//
// The nonce starts with 0x00 on purpose: after a refused optimistic proposal the listener's
// multistream muxer goes on reading the application bytes as the next proposal; 0x00 is a zero-length
// (invalid) multistream message, so the listener's negotiation ends at once instead of waiting for more
// bytes. (Assumption recorded in the evidence: application payloads are not themselves well-formed
// multistream-select proposals.)

const nonceLen = 16

func mkNonce(caseIdx, round, k int) (n [nonceLen]byte) {
	n[0] = 0
	n[1] = 0xC7
	binary.BigEndian.PutUint32(n[2:], uint32(caseIdx))
	binary.BigEndian.PutUint16(n[6:], uint16(round))
	binary.BigEndian.PutUint16(n[8:], uint16(k))
	copy(n[10:], "nonce!")
	return
}

func encodeReply(hid int, proto string, nonce [nonceLen]byte) []byte {
	b := make([]byte, 0, 2+4+1+len(proto)+nonceLen)
	b = binary.BigEndian.AppendUint16(b, uint16(4+1+len(proto)+nonceLen))
	b = binary.BigEndian.AppendUint32(b, uint32(hid))
	b = append(b, byte(len(proto)))
	b = append(b, proto...)
	b = append(b, nonce[:]...)
	return b
}

type reply struct {
	HID   int
	Proto string
	Nonce [nonceLen]byte
}

// readReply returns the reply, the number of application bytes that were read, and the error.
func readReply(r io.Reader) (rep reply, n int, err error) {
	var l [2]byte
	k, err := io.ReadFull(r, l[:])
	n += k
	if err != nil {
		return rep, n, err
	}
	body := make([]byte, binary.BigEndian.Uint16(l[:]))
	k, err = io.ReadFull(r, body)
	n += k
	if err != nil {
		return rep, n, err
	}
	if len(body) < 5 || len(body) != 5+int(body[4])+nonceLen {
		return rep, n, fmt.Errorf("malformed reply % x", body)
	}
	rep.HID = int(binary.BigEndian.Uint32(body))
	rep.Proto = string(body[5 : 5+int(body[4])])
	copy(rep.Nonce[:], body[5+int(body[4]):])
	return rep, n, nil
}

// ---------------------------------------------------------------------------------------------
// handler log: which handler closure was invoked, what its stream reported, which nonce it read.

type hEvent struct {
	Seq            int    `json:"seq"`
	HID            int    `json:"handler_id"`
	ProtoAtEntry   string `json:"protocol_at_entry"`
	ProtoAfterRead string `json:"protocol_after_read"`
	Nonce          string `json:"nonce,omitempty"`
	ReadErr        string `json:"read_err,omitempty"`
	Remote         string `json:"remote_peer"`
	// the opener had closed its write side before sending anything: the handler read a clean EOF
	// instead of a nonce and answered with a token naming this very invocation (eofToken)
	EOFBeforeNonce bool `json:"eof_before_nonce,omitempty"`
}

// eofToken is what a handler answers with when the opener closed its write side without sending a nonce:
// it names the invocation (unique per case), so that the open which reads it is paired with exactly it.
func eofToken(seq int) (n [nonceLen]byte) {
	n[0] = 0xE0
	n[1] = 0xF0
	binary.BigEndian.PutUint32(n[2:], uint32(seq))
	copy(n[10:], "eof-tk")
	return
}

type hlog struct {
	mu     sync.Mutex
	events []hEvent
	hold   chan struct{} // handlers of half-closed streams keep their stream open until the round's audit is over
	slow   atomic.Bool   // handlers wait 30 ms before greeting (rounds with polling openers)
}

func (l *hlog) holdCh() chan struct{} {
	l.mu.Lock()
	defer l.mu.Unlock()
	if l.hold == nil {
		l.hold = make(chan struct{})
	}
	return l.hold
}

// releaseHold lets the handlers of half-closed streams finish (end of a round's open-streams audit).
func (l *hlog) releaseHold() {
	l.mu.Lock()
	defer l.mu.Unlock()
	if l.hold != nil {
		close(l.hold)
		l.hold = nil
	}
}

func (l *hlog) eof(i int) [nonceLen]byte {
	l.mu.Lock()
	defer l.mu.Unlock()
	e := &l.events[i]
	tok := eofToken(e.Seq)
	e.EOFBeforeNonce = true
	e.Nonce = hex.EncodeToString(tok[:])
	return tok
}

func (l *hlog) enter(hid int, proto string, remote peer.ID) int {
	l.mu.Lock()
	defer l.mu.Unlock()
	l.events = append(l.events, hEvent{Seq: len(l.events), HID: hid, ProtoAtEntry: proto, Remote: remote.String()})
	return len(l.events) - 1
}

func (l *hlog) read(i int, nonce []byte, err error, proto string) {
	l.mu.Lock()
	defer l.mu.Unlock()
	e := &l.events[i]
	e.ProtoAfterRead = proto
	if err != nil {
		e.ReadErr = err.Error()
	} else {
		e.Nonce = hex.EncodeToString(nonce)
	}
}

func (l *hlog) since(i int) []hEvent {
	l.mu.Lock()
	defer l.mu.Unlock()
	return append([]hEvent(nil), l.events[i:]...)
}

func (l *hlog) len() int { l.mu.Lock(); defer l.mu.Unlock(); return len(l.events) }

// streamDeadline bounds every application read/write (virtual time inside bubbles).
const streamDeadline = 2 * time.Minute

// handler builds the closure for one registration event.
func (l *hlog) handler(hid int) network.StreamHandler {
	return func(s network.Stream) {
		i := l.enter(hid, string(s.Protocol()), s.Conn().RemotePeer())
		s.SetDeadline(time.Now().Add(streamDeadline))
		if l.slow.Load() {
			time.Sleep(30 * time.Millisecond)
		}
		// the handler speaks first (greeting without nonce) so that openers may read before they write
		if _, err := s.Write(encodeReply(hid, string(s.Protocol()), [nonceLen]byte{})); err != nil {
			l.read(i, nil, err, string(s.Protocol()))
			s.Reset()
			return
		}
		var nonce [nonceLen]byte
		_, err := io.ReadFull(s, nonce[:])
		if err == io.EOF {
			// the opener half-closed before sending anything (its first use was CloseWrite)
			hold := l.holdCh()
			tok := l.eof(i)
			if _, err := s.Write(encodeReply(hid, string(s.Protocol()), tok)); err != nil {
				s.Reset()
				return
			}
			s.SetDeadline(time.Time{})
			select {
			case <-hold:
			case <-time.After(2 * streamDeadline):
			}
			s.Close()
			return
		}
		l.read(i, nonce[:], err, string(s.Protocol()))
		if err != nil {
			s.Reset()
			return
		}
		if _, err := s.Write(encodeReply(hid, string(s.Protocol()), nonce)); err != nil {
			s.Reset()
			return
		}
		// keep the stream open until the opener is done with it: the scopes are audited meanwhile
		s.SetDeadline(time.Time{})
		io.Copy(io.Discard, s)
		s.Close()
	}
}

// install applies one registration to a real host.
func (l *hlog) install(h host.Host, r reg) {
	switch r.Kind {
	case kindExact:
		h.SetStreamHandler(protocol.ID(r.Name), l.handler(r.HID))
	default:
		kind, name := r.Kind, r.Name
		h.SetStreamHandlerMatch(protocol.ID(name), func(id protocol.ID) bool { return accepts(kind, name, string(id)) }, l.handler(r.HID))
	}
}

// ---------------------------------------------------------------------------------------------
// one open, observed at the API boundary

type openResult struct {
	K             int      `json:"k"`
	Req           []string `json:"requested"`
	ReadFirst     bool     `json:"read_before_write,omitempty"`
	CWFirst       bool     `json:"close_write_before_anything,omitempty"`
	PollTimeouts  int      `json:"first_reads_that_timed_out_before_the_greeting,omitempty"`
	GreetHID      int      `json:"greeting_handler_id"`
	GreetProto    string   `json:"greeting_protocol"`
	Nonce         string   `json:"nonce"`
	Stage         string   `json:"failed_at,omitempty"` // "" (exchange completed) | newstream | write | read
	Err           string   `json:"err,omitempty"`
	CleanEOF      bool     `json:"clean_eof,omitempty"`
	AppBytesRead  int      `json:"app_bytes_read"`
	StreamType    string   `json:"stream_type,omitempty"`
	ProtoAtReturn string   `json:"protocol_at_return"`
	ProtoAtEnd    string   `json:"protocol_at_end"`
	ReplyHID      int      `json:"reply_handler_id"`
	ReplyProto    string   `json:"reply_protocol"`
	ReplyNonce    string   `json:"reply_nonce"`

	st network.Stream
}

func (o *openResult) ok() bool { return o.Stage == "" }

// optimistic tells (by observation only, used for path counters) whether NewStream took the lazy path.
func (o *openResult) optimistic() bool { return o.StreamType == "*basichost.streamWrapper" }

// readReplyPolled: the first Read is retried with 5 ms read deadlines until the first byte arrives (a
// timeout before any byte is an ordinary event for an application that polls), then the rest is read
// with the long deadline. timeouts = number of reads that ended with a deadline error and no data.
func readReplyPolled(st network.Stream) (rep reply, n int, timeouts int, err error) {
	var l [2]byte
	got := 0
	for try := 0; got == 0 && try < 200; try++ {
		st.SetReadDeadline(time.Now().Add(5 * time.Millisecond))
		k, rerr := st.Read(l[:])
		got += k
		if rerr != nil && k == 0 {
			if errors.Is(rerr, os.ErrDeadlineExceeded) {
				timeouts++
				continue
			}
			var ne interface{ Timeout() bool }
			if errors.As(rerr, &ne) && ne.Timeout() {
				timeouts++
				continue
			}
			return rep, got, timeouts, rerr
		}
	}
	st.SetReadDeadline(time.Now().Add(streamDeadline))
	if got == 0 {
		return rep, 0, timeouts, errors.New("no byte after 200 polling reads")
	}
	if got < 2 {
		k, rerr := io.ReadFull(st, l[got:])
		got += k
		if rerr != nil {
			return rep, got, timeouts, rerr
		}
	}
	body := make([]byte, binary.BigEndian.Uint16(l[:]))
	k, rerr := io.ReadFull(st, body)
	got += k
	if rerr != nil {
		return rep, got, timeouts, rerr
	}
	if len(body) < 5 || len(body) != 5+int(body[4])+nonceLen {
		return rep, got, timeouts, fmt.Errorf("malformed reply % x", body)
	}
	rep.HID = int(binary.BigEndian.Uint32(body))
	rep.Proto = string(body[5 : 5+int(body[4])])
	copy(rep.Nonce[:], body[5+int(body[4]):])
	return rep, got, timeouts, nil
}

func doOpen(ctx context.Context, opener host.Host, target peer.ID, k int, req []string, readFirst, cwFirst, poll bool, nonce [nonceLen]byte) *openResult {
	res := &openResult{K: k, Req: req, ReadFirst: readFirst && !cwFirst, CWFirst: cwFirst, Nonce: hex.EncodeToString(nonce[:])}
	st, err := opener.NewStream(ctx, target, protocol.ConvertFromStrings(req)...)
	if err != nil {
		res.Stage, res.Err = "newstream", err.Error()
		return res
	}
	res.StreamType = fmt.Sprintf("%T", st)
	res.ProtoAtReturn = string(st.Protocol())
	st.SetDeadline(time.Now().Add(streamDeadline))
	fail := func(stage string, err error) *openResult {
		res.Stage, res.Err = stage, err.Error()
		res.ProtoAtEnd = string(st.Protocol())
		res.CleanEOF = errors.Is(err, io.EOF) && res.AppBytesRead == 0
		st.Reset()
		return res
	}
	// first use: either a write (flushes the lazy handshake together with the data) or a read (the lazy
	// conn sends the handshake on its own and waits for the answer)
	write := func() error { _, err := st.Write(nonce[:]); return err }
	greet := func() error {
		var rep reply
		var n int
		var err error
		if poll && readFirst && !cwFirst {
			rep, n, res.PollTimeouts, err = readReplyPolled(st)
		} else {
			rep, n, err = readReply(st)
		}
		res.AppBytesRead += n
		res.GreetHID, res.GreetProto = rep.HID, rep.Proto
		if err == nil && rep.Nonce != ([nonceLen]byte{}) {
			err = fmt.Errorf("greeting carries a nonce: % x", rep.Nonce)
		}
		return err
	}
	if cwFirst {
		// first use: the opener has nothing to send and half-closes (a "the listener speaks" protocol). The
		// handler answers its greeting and, instead of an echo of the nonce, a token naming its invocation.
		if err := st.CloseWrite(); err != nil {
			return fail("closewrite", err)
		}
		if err := greet(); err != nil {
			return fail("read", err)
		}
		rep, n, err := readReply(st)
		res.AppBytesRead += n
		if err != nil {
			return fail("read-reply", err)
		}
		res.ProtoAtEnd = string(st.Protocol())
		res.ReplyHID, res.ReplyProto, res.ReplyNonce = rep.HID, rep.Proto, hex.EncodeToString(rep.Nonce[:])
		if rep.Nonce[0] != 0xE0 || rep.Nonce[1] != 0xF0 {
			return fail("read-reply", fmt.Errorf("half-closed stream was answered with a nonce echo % x", rep.Nonce))
		}
		res.Nonce = res.ReplyNonce // pairing key: the invocation token
		st.SetDeadline(time.Time{})
		res.st = st
		return res
	}
	if readFirst {
		if err := greet(); err != nil {
			return fail("read", err)
		}
		if err := write(); err != nil {
			return fail("write-after-read", err)
		}
	} else {
		if err := write(); err != nil {
			return fail("write", err)
		}
		if err := greet(); err != nil {
			return fail("read", err)
		}
	}
	rep, n, err := readReply(st)
	res.AppBytesRead += n
	if err != nil {
		return fail("read-reply", err)
	}
	res.ProtoAtEnd = string(st.Protocol())
	res.ReplyHID, res.ReplyProto, res.ReplyNonce = rep.HID, rep.Proto, hex.EncodeToString(rep.Nonce[:])
	st.SetDeadline(time.Time{})
	res.st = st
	return res
}

// ---------------------------------------------------------------------------------------------
// resource-scope observation through the public View API

type scopeView struct {
	Proto  map[string][2]int `json:"protocol_scopes_in_out,omitempty"` // only non-zero ones
	System [2]int            `json:"system_streams_in_out"`
}

func viewScopes(rm network.ResourceManager, ids []string) scopeView {
	v := scopeView{Proto: map[string][2]int{}}
	for _, id := range ids {
		rm.ViewProtocol(protocol.ID(id), func(s network.ProtocolScope) error {
			st := s.Stat()
			if st.NumStreamsInbound != 0 || st.NumStreamsOutbound != 0 {
				v.Proto[id] = [2]int{st.NumStreamsInbound, st.NumStreamsOutbound}
			}
			return nil
		})
	}
	rm.ViewSystem(func(s network.ResourceScope) error {
		st := s.Stat()
		v.System = [2]int{st.NumStreamsInbound, st.NumStreamsOutbound}
		return nil
	})
	return v
}

// ---------------------------------------------------------------------------------------------
// nodes: real swarm + real rcmgr + BasicHost or BlankHost over memtpt (copied from c04's newSwNode)

func newRcmgr() network.ResourceManager {
	rm, err := rcmgr.NewResourceManager(rcmgr.NewFixedLimiter(rcmgr.DefaultLimits.AutoScale()),
		rcmgr.WithConnRateLimiters(&rate.Limiter{}))
	if err != nil {
		panic(err)
	}
	return rm
}

type node struct {
	key   *sectest.Key
	rm    network.ResourceManager
	ps    peerstore.Peerstore
	sw    *swarm.Swarm
	h     host.Host
	basic *bhost.BasicHost
	tpt   *memtpt.Transport
}

func newNode(f *memtpt.Fabric, k *sectest.Key, sec, ip, kind string) *node {
	return newNodeRM(f, k, sec, ip, kind, nil)
}

func newNodeRM(f *memtpt.Fabric, k *sectest.Key, sec, ip, kind string, rm network.ResourceManager) *node {
	n := &node{key: k}
	if rm != nil {
		n.rm = rm
	} else if strings.HasSuffix(kind, "/no-rcmgr") {
		kind = strings.TrimSuffix(kind, "/no-rcmgr")
		n.rm = &network.NullResourceManager{}
	} else {
		n.rm = newRcmgr()
	}
	ps, err := pstoremem.NewPeerstore()
	if err != nil {
		panic(err)
	}
	ps.AddPrivKey(k.ID, k.Priv)
	ps.AddPubKey(k.ID, k.Pub)
	n.ps = ps
	bus := eventbus.NewBus()
	sw, err := swarm.NewSwarm(k.ID, ps, bus, swarm.WithResourceManager(n.rm), swarm.WithDialTimeout(30*time.Second))
	if err != nil {
		panic(err)
	}
	n.sw = sw
	n.tpt, err = memtpt.New(f, memtpt.Config{Key: k, Security: sec, Rcmgr: n.rm, LocalIP: ip})
	if err != nil {
		panic(err)
	}
	if err := sw.AddTransport(n.tpt); err != nil {
		panic(err)
	}
	if kind == "blank" {
		bh := blankhost.NewBlankHost(sw, blankhost.WithEventBus(bus))
		if bh == nil {
			panic("blank host construction failed")
		}
		n.h = bh
	} else {
		h, err := bhost.NewHost(sw, &bhost.HostOpts{EventBus: bus, NegotiationTimeout: 10 * time.Second})
		if err != nil {
			panic(err)
		}
		h.Start()
		n.h, n.basic = h, h
	}
	return n
}

func (n *node) close() {
	n.h.Close()
}

func (n *node) closeRest() {
	for _, ml := range n.tpt.RawListeners() {
		ml.Close()
	}
	n.ps.Close()
	n.rm.Close()
}
