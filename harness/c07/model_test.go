package c07

import (
	"sort"
	"strconv"
	"strings"
)

// ---------------------------------------------------------------------------------------------
// Reference model of the listener's handler table and of multistream selection, written from the
// STATEMENT and from the documented contract of protocol.Router (core/protocol/switch.go):
//
//   * AddHandler(name):          "invoked for an exact literal match of the given protocol ID string"
//   * AddHandlerWithFunc(name,m): "invoked when the provided match function returns true ... the
//                                  protocol ID argument is not used for matching"
//   * RemoveHandler(name):        "removes the registered handler (if any) for the given protocol ID"
//   * a second registration under the same name replaces the first (Set-StreamHandler semantics).
//
// Which of several handlers that all accept the same proposed id is invoked is NOT documented; the
// model is therefore a relation: every currently registered handler that accepts the id is acceptable.
// Which of several requested ids that the listener supports is negotiated is not fixed by the statement
// either ("one of the requested protocols"): every requested id the listener supports is acceptable.

// reqUniverse: ids the opener may ask for. The first six are also the names exact handlers are
// registered under (overlapping prefixes on purpose); the rest exist to hit/miss the match functions.
var exactNames = []string{"/a/1.0.0", "/a/1.1.0", "/a", "/ab/1.0.0", "/b/1.0.0", "/a/1.0.0/x"}
var reqUniverse = append(append([]string{}, exactNames...),
	"/a/1.0.5", "/a/1.2.0", "/a/1.3.0", "/a/2.0.0", "/b", "/b/2.0.0", "/b/1.0.0/y", "/a/1", "/c/1.0.0")

// match-function registrations: a semver-like matcher registered under its base version and a matcher
// for a whole family registered under the family's root.
var semverNames = []string{"/a/1.1.0", "/a/1.2.0"} // "/a/1.1.0" collides with an exact name on purpose
var familyNames = []string{"/b", "/ab"}

const (
	kindExact  = "exact"
	kindSemver = "semver"
	kindFamily = "family"
)

// parseSemver splits "/name/M.m.p".
func parseSemver(id string) (base string, maj, min int, ok bool) {
	i := strings.LastIndexByte(id, '/')
	if i <= 0 {
		return
	}
	parts := strings.Split(id[i+1:], ".")
	if len(parts) != 3 {
		return
	}
	var v [3]int
	for k, p := range parts {
		n, err := strconv.Atoi(p)
		if err != nil || n < 0 {
			return
		}
		v[k] = n
	}
	return id[:i], v[0], v[1], true
}

// accepts is the harness's own evaluation of a registration against a proposed id. The closures handed
// to SetStreamHandlerMatch call exactly this function, so the model and the code see the same predicate.
func accepts(kind, name, id string) bool {
	switch kind {
	case kindExact:
		return id == name
	case kindSemver: // same name, same major, minor not newer than the registered one
		b1, M1, m1, ok1 := parseSemver(name)
		b2, M2, m2, ok2 := parseSemver(id)
		return ok1 && ok2 && b1 == b2 && M1 == M2 && m2 <= m1
	case kindFamily: // the root itself and everything below it
		return id == name || strings.HasPrefix(id, name+"/")
	}
	return false
}

type reg struct {
	Name string `json:"name"`
	Kind string `json:"kind"`
	HID  int    `json:"handler_id"` // unique per registration event: a re-registration is a NEW handler
}

// table is the model of one host's handler table.
type table struct {
	regs    map[string]reg // by name
	removed map[int]reg    // handler ids that were registered once and are not any more
	nextHID int
	ever    map[string]bool // ids (of reqUniverse) that were supported at some earlier point
}

func newTable() *table {
	return &table{regs: map[string]reg{}, removed: map[int]reg{}, ever: map[string]bool{}}
}

func (t *table) set(kind, name string) reg {
	if old, ok := t.regs[name]; ok {
		t.removed[old.HID] = old
	}
	t.nextHID++
	r := reg{Name: name, Kind: kind, HID: t.nextHID}
	t.regs[name] = r
	t.note()
	return r
}

func (t *table) remove(name string) {
	if old, ok := t.regs[name]; ok {
		t.removed[old.HID] = old
		delete(t.regs, name)
	}
}

func (t *table) note() {
	for _, id := range reqUniverse {
		if t.supports(id) {
			t.ever[id] = true
		}
	}
}

// acceptable returns the ids of all registered handlers that accept id ("the handler registered for
// (or matching) that protocol").
func (t *table) acceptable(id string) []int {
	var out []int
	for _, r := range t.regs {
		if accepts(r.Kind, r.Name, id) {
			out = append(out, r.HID)
		}
	}
	sort.Ints(out)
	return out
}

func (t *table) supports(id string) bool { return len(t.acceptable(id)) > 0 }

func (t *table) names() []string {
	var out []string
	for n := range t.regs {
		out = append(out, n)
	}
	sort.Strings(out)
	return out
}

func (t *table) list() []reg {
	var out []reg
	for _, n := range t.names() {
		out = append(out, t.regs[n])
	}
	return out
}

// supported returns the requested ids the listener supports, in request order ("protocols in common").
func (t *table) supported(req []string) []string {
	var out []string
	for _, id := range req {
		if t.supports(id) {
			out = append(out, id)
		}
	}
	return out
}

func contains(l []string, s string) bool {
	for _, x := range l {
		if x == s {
			return true
		}
	}
	return false
}

func containsInt(l []int, s int) bool {
	for _, x := range l {
		if x == s {
			return true
		}
	}
	return false
}
