// C07 — Stream protocol negotiation: both ends agree and the right handler runs.
//
// Monitor: two REAL hosts (BasicHost; BlankHost and a libp2p.New loopback-TCP pair in thorough) with real
// swarms, real Noise/TLS + yamux (rig/memtpt inside synctest bubbles) and a real resource manager on both
// sides. The listener's handler table is driven through a generated history of SetStreamHandler /
// SetStreamHandlerMatch / RemoveStreamHandler calls over a universe of protocol ids with overlapping
// prefixes; after every change the opener's knowledge about the listener's protocols is put into one of
// the states {as identify left it, none, accurate, stale after removal, superset, partial} and 1..16
// streams are opened concurrently on the one connection, each for an ordered request list of 1..4 ids.
// Every handler closure has its own id and answers (id, Protocol() of its stream, nonce); the opener
// writes a unique nonce and reads the answer.
//
// Oracle: an independent model of the handler table and of multistream selection (model_test.go) decides
// per open, as a RELATION, which outcomes the statement allows (judgeRound below, clause by clause), and
// the protocol scopes of both resource managers are compared exactly at quiescence while the streams
// are open and after they were closed.
package c07

import (
	"context"
	"fmt"
	"math/rand/v2"
	"os"
	"sort"
	"strings"
	"sync"
	"testing"
	"testing/synctest"
	"time"

	"github.com/libp2p/go-libp2p/core/peer"
	"github.com/libp2p/go-libp2p/core/peerstore"
	"github.com/libp2p/go-libp2p/core/protocol"
	ma "github.com/multiformats/go-multiaddr"

	"verif/harness/rig/memtpt"
	"verif/harness/rig/run"
	"verif/harness/rig/sectest"
)

type opSpec struct {
	Op   string `json:"op"` // set | remove
	Kind string `json:"kind,omitempty"`
	Name string `json:"name"`
}

type openSpec struct {
	Req       []string `json:"requested"`         // ordered request list
	ReadFirst bool     `json:"read_before_write"` // the opener's first use is a Read (the handler greets first)
	// the opener's first use is CloseWrite (it has nothing to send; the handler speaks): the lazy
	// handshake must be flushed by it
	CWFirst bool `json:"close_write_before_anything,omitempty"`
}

type roundSpec struct {
	Ops    []opSpec `json:"handler_changes"`
	Know   string   `json:"knowledge_mode"` // identify | none | accurate | stale | superset | partial
	NoWait bool     `json:"open_while_identify_push_in_flight,omitempty"`
	// SlowGreet: in this round every handler waits 30 ms (virtual) before it greets, and the openers whose
	// first use is a Read poll with 5 ms read deadlines (timeouts before the first byte are ordinary use)
	SlowGreet bool       `json:"handlers_greet_after_30ms_openers_poll_with_5ms_deadlines,omitempty"`
	Inject    *[]string  `json:"knowledge_injected"` // nil: left as identify / earlier opens made it
	Opens     []openSpec `json:"opens"`              // opened concurrently
}

type caseSpec struct {
	ID       string `json:"id"`
	Idx      int    `json:"idx"`
	Sec      string `json:"security"`
	Reverse  bool   `json:"opener_is_the_side_that_accepted_the_connection"`
	Opener   string `json:"opener_host"`   // basic | blank
	Listener string `json:"listener_host"` // basic | blank
	// exact handlers the OPENER registers for itself before the first round: nobody opens a stream towards
	// the opener, so they must never run, and they must not influence what the opener proposes
	OpenerHandlers []string `json:"opener_own_handlers"`
	// both hosts run without a resource manager (network.NullResourceManager, the swarm's default): there
	// Stream.SetProtocol never refuses a second call; the scope clauses cannot be observed and are skipped
	NoRcmgr bool        `json:"hosts_without_resource_manager,omitempty"`
	Rounds  []roundSpec `json:"rounds"`
}

type roundResult struct {
	Table      []reg         `json:"listener_handler_table"`
	Removed    []reg         `json:"handlers_removed_so_far"`
	Ever       []string      `json:"ids_supported_earlier"`
	Know       []string      `json:"opener_knowledge_before_opens"`
	Opens      []*openResult `json:"opens"`
	Handlers   []hEvent      `json:"handler_invocations"`
	OpenView   [2]scopeView  `json:"scopes_while_open_opener_listener"`
	ClosedView [2]scopeView  `json:"scopes_after_close_opener_listener"`

	tab *table
}

type caseResult struct {
	OpenerSide []hEvent       `json:"invocations_of_the_openers_own_handlers"`
	ConnectErr string         `json:"connect_err,omitempty"`
	Rounds     []*roundResult `json:"rounds"`
	Bubble     run.BubbleResult
}

type state struct {
	r    *run.R
	t    *testing.T
	pool sectest.Pool
}

var auditIDs = append(append([]string{}, reqUniverse...), "/ab")

// ---------------------------------------------------------------------------------------------
// generator: a function of (seed, tier, case index) only

func pickDistinct(rng *rand.Rand, n int, must string) []string {
	perm := rng.Perm(len(reqUniverse))
	var out []string
	for _, i := range perm {
		if len(out) == n {
			break
		}
		if reqUniverse[i] != must {
			out = append(out, reqUniverse[i])
		}
	}
	if must != "" {
		out[rng.IntN(len(out))] = must
	}
	return out
}

func permutations(ids []string) [][]string {
	if len(ids) <= 1 {
		return [][]string{append([]string{}, ids...)}
	}
	var out [][]string
	for i := range ids {
		rest := append(append([]string{}, ids[:i]...), ids[i+1:]...)
		for _, p := range permutations(rest) {
			out = append(out, append([]string{ids[i]}, p...))
		}
	}
	return out
}

func genCase(rng *rand.Rand, idx int, thorough, allowBlank bool) *caseSpec {
	c := &caseSpec{ID: fmt.Sprintf("mem/%04d", idx), Idx: idx, Sec: []string{"noise", "tls"}[idx%2], Opener: "basic", Listener: "basic"}
	c.Reverse = rng.IntN(4) == 0
	if allowBlank {
		switch idx % 8 { // BlankHost on one side in a quarter of the cases
		case 5:
			c.Opener = "blank"
		case 6:
			c.Listener = "blank"
		}
	}
	if rng.IntN(2) == 0 {
		c.OpenerHandlers = pickDistinct(rng, 1+rng.IntN(3), "")
	}
	c.NoRcmgr = allowBlank && idx%16 >= 11
	tab := newTable()
	nr := 3 + rng.IntN(4)
	for ri := 0; ri < nr; ri++ {
		var rd roundSpec
		nops := 1 + rng.IntN(3)
		if ri == 0 {
			nops = 1 + rng.IntN(4)
		}
		for i := 0; i < nops; i++ {
			names := tab.names()
			if ri > 0 && rng.IntN(100) < 45 {
				name := exactNames[rng.IntN(len(exactNames))] // possibly not registered: a no-op removal
				if len(names) > 0 && rng.IntN(10) < 8 {
					name = names[rng.IntN(len(names))]
				}
				rd.Ops = append(rd.Ops, opSpec{Op: "remove", Name: name})
				tab.remove(name)
				continue
			}
			op := opSpec{Op: "set"}
			switch x := rng.IntN(10); {
			case x < 6:
				op.Kind, op.Name = kindExact, exactNames[rng.IntN(len(exactNames))]
			case x < 8:
				op.Kind, op.Name = kindSemver, semverNames[rng.IntN(len(semverNames))]
			default:
				op.Kind, op.Name = kindFamily, familyNames[rng.IntN(len(familyNames))]
			}
			rd.Ops = append(rd.Ops, op)
			tab.set(op.Kind, op.Name)
		}
		var sup, stale []string // supported now / supported earlier in this history but not now
		for _, id := range reqUniverse {
			switch {
			case tab.supports(id):
				sup = append(sup, id)
			case tab.ever[id]:
				stale = append(stale, id)
			}
		}
		modes := []string{"identify", "identify", "none", "none", "accurate", "stale", "stale", "superset", "partial"}
		rd.Know = modes[rng.IntN(len(modes))]
		rd.SlowGreet = rng.IntN(5) == 0
		if rd.Know == "stale" && len(stale) == 0 {
			rd.Know = "superset"
		}
		if c.Opener == "blank" {
			rd.Know = "none" // a BlankHost never consults the peerstore: nothing optimistic to justify a failure
		}
		// organic staleness: open right after the change, while identify's push is still on its way
		rd.NoWait = rd.Know == "identify" && ri > 0 && rng.IntN(2) == 0
		must := ""
		inject := func(l []string) { l = append([]string{}, l...); sort.Strings(l); rd.Inject = &l }
		switch rd.Know {
		case "none":
			inject(nil)
		case "accurate":
			inject(sup)
		case "stale":
			inject(append(append([]string{}, sup...), stale...))
			must = stale[rng.IntN(len(stale))]
		case "superset":
			extra := pickDistinct(rng, 1+rng.IntN(3), "")
			var l []string
			for _, e := range extra {
				if !contains(sup, e) {
					l = append(l, e)
					must = e
				}
			}
			inject(append(l, sup...))
		case "partial":
			var l []string
			for _, id := range reqUniverse {
				if rng.IntN(10) < 4 {
					l = append(l, id)
				}
			}
			inject(l)
		}
		if thorough && rng.IntN(4) == 0 {
			// all orders of one request set
			for _, p := range permutations(pickDistinct(rng, 2+rng.IntN(3), must)) {
				rd.Opens = append(rd.Opens, openSpec{Req: p, ReadFirst: rng.IntN(3) == 0, CWFirst: rng.IntN(6) == 0})
			}
		} else {
			n := []int{1, 1, 1, 2, 2, 3, 4, 6, 8, 12, 16}[rng.IntN(11)]
			for k := 0; k < n; k++ {
				m := ""
				if must != "" && rng.IntN(10) < 6 {
					m = must
				} else if len(sup) > 0 && rng.IntN(10) < 3 {
					m = sup[rng.IntN(len(sup))] // keep the share of opens with a protocol in common up
				}
				rd.Opens = append(rd.Opens, openSpec{Req: pickDistinct(rng, 1+rng.IntN(4), m), ReadFirst: rng.IntN(3) == 0, CWFirst: rng.IntN(6) == 0})
			}
		}
		c.Rounds = append(c.Rounds, rd)
	}
	return c
}

// ---------------------------------------------------------------------------------------------
// execution of one case inside a bubble

func sortedStrings(ids []protocol.ID) []string {
	out := protocol.ConvertToStrings(ids)
	sort.Strings(out)
	return out
}

func snapshotRound(tab *table) *roundResult {
	rr := &roundResult{Table: tab.list(), tab: newTable()}
	for k, v := range tab.regs {
		rr.tab.regs[k] = v
	}
	for k, v := range tab.removed {
		rr.tab.removed[k] = v
		rr.Removed = append(rr.Removed, v)
	}
	sort.Slice(rr.Removed, func(i, j int) bool { return rr.Removed[i].HID < rr.Removed[j].HID })
	for k := range tab.ever {
		rr.tab.ever[k] = true
		rr.Ever = append(rr.Ever, k)
	}
	sort.Strings(rr.Ever)
	return rr
}

// env is what differs between a synctest bubble (exact quiescence) and real sockets (polling).
type env struct {
	// the handler change is complete; with wait also identify's push of it has been delivered
	afterChange func(tab *table, wait bool)
	afterOpens  func()
	afterClose  func()
	exact       bool
}

func bubbleEnv() env {
	return env{afterChange: func(_ *table, wait bool) {
		if wait {
			synctest.Wait()
		}
	}, afterOpens: synctest.Wait, afterClose: synctest.Wait, exact: true}
}

// playRounds drives the handler history and the opens.
func playRounds(c *caseSpec, opener, lis *node, e env, res *caseResult) {
	tab := newTable()
	log, own := &hlog{}, &hlog{}
	for i, name := range c.OpenerHandlers {
		own.install(opener.h, reg{Name: name, Kind: kindExact, HID: 1000 + i})
	}
	defer func() { res.OpenerSide = own.since(0) }()
	for ri, rd := range c.Rounds {
		for _, op := range rd.Ops {
			if op.Op == "remove" {
				tab.remove(op.Name)
				lis.h.RemoveStreamHandler(protocol.ID(op.Name))
			} else {
				log.install(lis.h, tab.set(op.Kind, op.Name))
			}
		}
		// statement: "a handler removed BEFORE negotiation is never invoked" - the change is complete (and
		// identify's push of the new protocol list has been delivered) before any stream is opened
		e.afterChange(tab, !rd.NoWait)
		log.slow.Store(rd.SlowGreet && e.exact)
		if rd.Inject != nil {
			opener.ps.SetProtocols(lis.key.ID, protocol.ConvertFromStrings(*rd.Inject)...)
		}
		rr := snapshotRound(tab)
		know, _ := opener.ps.GetProtocols(lis.key.ID)
		rr.Know = sortedStrings(know)
		h0 := log.len()
		rr.Opens = make([]*openResult, len(rd.Opens))
		var wg sync.WaitGroup
		for k, op := range rd.Opens {
			wg.Add(1)
			go func() {
				defer wg.Done()
				ctx, cancel := context.WithTimeout(context.Background(), time.Minute)
				defer cancel()
				rr.Opens[k] = doOpen(ctx, opener.h, lis.key.ID, k, op.Req, op.ReadFirst, op.CWFirst, rd.SlowGreet && e.exact, mkNonce(c.Idx, ri, k))
			}()
		}
		wg.Wait()
		e.afterOpens()
		if !e.exact || rd.NoWait {
			// without quiescence identify pushes may have changed the knowledge meanwhile (one push per
			// change, so also to an intermediate table of this round; over real sockets the receiver may
			// even apply two pushes in the wrong order, so any earlier table of the case can come back):
			// the oracle then accepts what any of these states allows
			after, _ := opener.ps.GetProtocols(lis.key.ID)
			also := sortedStrings(after)
			for qi := range c.Rounds[:ri+1] {
				if e.exact && qi != ri {
					continue
				}
				for _, op := range c.Rounds[qi].Ops {
					also = append(also, op.Name)
				}
			}
			for _, id := range also {
				if !contains(rr.Know, id) {
					rr.Know = append(rr.Know, id)
				}
			}
		}
		rr.OpenView = [2]scopeView{viewScopes(opener.rm, auditIDs), viewScopes(lis.rm, auditIDs)}
		log.releaseHold()
		for _, o := range rr.Opens {
			if o.st != nil {
				o.st.Close()
				o.st = nil
			}
		}
		e.afterClose()
		rr.ClosedView = [2]scopeView{viewScopes(opener.rm, auditIDs), viewScopes(lis.rm, auditIDs)}
		rr.Handlers = log.since(h0)
		res.Rounds = append(res.Rounds, rr)
	}
}

func (s *state) runCase(c *caseSpec) (res caseResult) {
	ka, kb := s.pool["ed25519"][0], s.pool["ecdsa"][1]
	res.Bubble = run.Bubble(s.t, func(t *testing.T) {
		f := memtpt.NewFabric()
		kindA, kindB := c.Opener, c.Listener
		if c.Reverse {
			kindA, kindB = kindB, kindA
		}
		if c.NoRcmgr {
			kindA, kindB = kindA+"/no-rcmgr", kindB+"/no-rcmgr"
		}
		na := newNode(f, ka, c.Sec, "10.0.0.1", kindA)
		nb := newNode(f, kb, c.Sec, "10.0.0.2", kindB)
		laddr := ma.StringCast("/ip4/10.0.0.2/tcp/4001")
		if err := nb.sw.Listen(laddr); err != nil {
			panic(err)
		}
		na.ps.AddAddrs(kb.ID, []ma.Multiaddr{laddr}, peerstore.PermanentAddrTTL)
		ctx, cancel := context.WithTimeout(context.Background(), time.Minute)
		err := na.h.Connect(ctx, peer.AddrInfo{ID: kb.ID})
		cancel()
		if err != nil {
			res.ConnectErr = err.Error()
		} else {
			synctest.Wait() // identify finished in both directions
			opener, lis := na, nb
			if c.Reverse {
				opener, lis = nb, na
			}
			playRounds(c, opener, lis, bubbleEnv(), &res)
		}
		na.close()
		nb.close()
		synctest.Wait()
		for _, rc := range f.Conns() {
			rc.Close()
		}
		na.closeRest()
		nb.closeRest()
	})
	return
}

// ---------------------------------------------------------------------------------------------
// the oracle

type judge struct {
	s      *state
	c      *caseSpec
	ri     int
	rr     *roundResult
	detail map[string]any
	bad    bool
}

func (j *judge) viol(sig, msg string) {
	j.bad = true
	j.s.r.Violation(sig, j.c.ID, fmt.Sprintf("round %d: %s", j.ri, msg), j.detail)
}

func overlaps(a, b string) bool {
	return a != b && (strings.HasPrefix(a, b) || strings.HasPrefix(b, a))
}

// judgeRound decides one round (one handler table, one knowledge state, n concurrent opens).
// exact=false (real sockets, no exact quiescence) turns the exact scope comparison into lower bounds.
func (s *state) judgeRound(c *caseSpec, ri int, rr *roundResult, exact bool) bool {
	r := s.r
	rd := &c.Rounds[ri]
	j := &judge{s: s, c: c, ri: ri, rr: rr, detail: map[string]any{"case": c, "round": ri, "result": rr}}
	tab := rr.tab
	byNonce := map[string][]hEvent{}
	for _, e := range rr.Handlers {
		byNonce[e.Nonce] = append(byNonce[e.Nonce], e)
	}
	wantScope := map[string]int{}
	nOK := 0
	for _, o := range rr.Opens {
		sup := tab.supported(o.Req) // "protocols in common"
		// requested ids the opener believed supported although they are not: only these can justify an
		// optimistic choice that then fails ("chosen optimistically from earlier knowledge")
		var misbelief []string
		for _, id := range o.Req {
			if contains(rr.Know, id) && !tab.supports(id) {
				misbelief = append(misbelief, id)
			}
		}
		path := "eager"
		if o.optimistic() {
			path = "optimistic"
		}
		evs := byNonce[o.Nonce]
		r.Count("opens", 1)
		r.Count("knowledge_mode_"+rd.Know, 1)
		if rd.NoWait {
			r.Count("knowledge_identify_push_in_flight", 1)
		}
		r.Count("opens_"+c.Opener+"_to_"+c.Listener, 1)
		for _, id := range o.Req {
			if tab.ever[id] && !tab.supports(id) {
				r.Count("requests_naming_a_removed_handler", 1)
				break
			}
		}
		if !o.ok() {
			// statement: "If the two sides have no protocol in common the open fails - at the latest on first
			// use when the protocol was chosen optimistically from earlier knowledge - and no application
			// handler runs"
			if len(evs) > 0 {
				j.viol("failed-open:handler-ran/"+o.Stage, fmt.Sprintf("open %d for %v failed at %s (%s) but handler %d ran for it on a stream reporting %q",
					o.K, o.Req, o.Stage, o.Err, evs[0].HID, evs[0].ProtoAtEntry))
			}
			if o.AppBytesRead > 0 {
				j.viol("failed-open:application-bytes-read", fmt.Sprintf("open %d for %v failed at %s but %d application bytes had been read", o.K, o.Req, o.Stage, o.AppBytesRead))
			}
			if o.Stage == "write-after-read" || o.Stage == "read-reply" {
				// the first use had succeeded: from then on the stream connects two agreed endpoints
				j.viol("exchange-broke-after-first-use/"+path+"/"+o.Stage, fmt.Sprintf("open %d for %v: first use succeeded, then %s failed: %s", o.K, o.Req, o.Stage, o.Err))
			}
			if o.CleanEOF {
				// a clean end-of-stream is what a handler that closes without answering looks like; it does
				// not tell the opener that the open failed
				j.viol("failed-open:clean-eof-instead-of-error/"+path, fmt.Sprintf("open %d for %v: the first read ended with a clean EOF, no error, and no handler ran", o.K, o.Req))
			}
			switch {
			case len(sup) == 0 && o.Stage == "newstream":
				r.Count("fail_no_common_at_newstream", 1)
			case len(sup) == 0:
				r.Count("fail_no_common_at_first_use", 1)
				if rd.NoWait {
					r.Count("fail_first_use_while_identify_push_in_flight", 1)
				}
				if o.ReadFirst {
					r.Count("fail_no_common_at_first_use_being_a_read", 1)
				}
				if len(misbelief) == 0 {
					// deferred failure without any knowledge that could have justified an optimistic choice
					j.viol("no-common-protocol:failure-deferred-without-knowledge/"+o.Stage, fmt.Sprintf("open %d for %v: NewStream succeeded (protocol %q) although the opener knew none of the requested ids; failure only at %s",
						o.K, o.Req, o.ProtoAtReturn, o.Stage))
				}
			case len(misbelief) > 0 && rd.NoWait:
				r.Count("fail_first_use_while_identify_push_in_flight", 1)
			case len(misbelief) > 0:
				// a common protocol existed but the opener optimistically chose one it wrongly believed supported
				r.Count("fail_stale_choice_at_first_use", 1)
				if o.Stage == "newstream" {
					r.Count("fail_stale_choice_at_newstream", 1)
				}
			default:
				// both ends agree: a common protocol exists and nothing the opener knew was wrong
				j.viol("open-failed-despite-common-protocol/"+path+"/"+o.Stage, fmt.Sprintf("open %d for %v failed at %s (%s) although the listener supports %v and the opener's knowledge %v named no unsupported id",
					o.K, o.Req, o.Stage, o.Err, sup, rr.Know))
			}
			if o.ProtoAtReturn != "" && !contains(o.Req, o.ProtoAtReturn) {
				j.viol("opener-protocol-not-requested/"+path, fmt.Sprintf("open %d for %v: stream reported %q", o.K, o.Req, o.ProtoAtReturn))
			}
			continue
		}
		nOK++
		P := o.ProtoAtReturn
		wantScope[P]++
		// (1) "the stream it gets is bound to one of the requested protocols"
		if !contains(o.Req, P) {
			j.viol("opener-protocol-not-requested/"+path, fmt.Sprintf("open %d for %v: stream reports %q", o.K, o.Req, P))
		}
		if o.ProtoAtEnd != P {
			j.viol("opener-protocol-changed/"+path, fmt.Sprintf("open %d: Protocol() was %q when NewStream returned and %q after the exchange", o.K, P, o.ProtoAtEnd))
		}
		// (3) no protocol in common -> must not succeed
		if len(sup) == 0 {
			j.viol("no-common-protocol:open-succeeded/"+path, fmt.Sprintf("open %d for %v succeeded with %q (handler %d answered) although the listener supports none of the requested ids; table %v",
				o.K, o.Req, P, o.ReplyHID, rr.Table))
		}
		// (2) "the remote runs exactly the handler registered for (or matching) that protocol on a stream
		// reporting the same protocol ID, and the bytes then exchanged flow between precisely those two endpoints"
		if o.CWFirst {
			r.Count("ok_"+path+"_first_use_is_a_closewrite", 1)
		}
		if o.PollTimeouts > 0 {
			r.Count("ok_"+path+"_first_reads_timed_out_before_the_greeting", 1)
		}
		if o.ReplyNonce != o.Nonce {
			j.viol("nonce-crosstalk", fmt.Sprintf("open %d wrote nonce %s and read back %s", o.K, o.Nonce, o.ReplyNonce))
		}
		if len(evs) != 1 {
			j.viol("handler-invocations-for-one-stream", fmt.Sprintf("open %d (%q): %d handler invocations read its nonce, want exactly 1", o.K, P, len(evs)))
		}
		for _, e := range evs {
			if e.HID != o.ReplyHID {
				j.viol("nonce-crosstalk", fmt.Sprintf("open %d: nonce was read by handler %d but the answer came from handler %d", o.K, e.HID, o.ReplyHID))
			}
			if e.ProtoAtEntry != P {
				sig := "handler-stream-protocol-differs"
				if e.ProtoAtEntry == "" {
					sig = "handler-stream-protocol-unset-at-entry"
				}
				j.viol(sig+"/"+path, fmt.Sprintf("open %d: opener's stream reports %q, the handler's stream reported %q at entry", o.K, P, e.ProtoAtEntry))
			}
		}
		if o.GreetHID != o.ReplyHID || o.GreetProto != o.ReplyProto {
			j.viol("nonce-crosstalk", fmt.Sprintf("open %d: greeting came from handler %d (%q) but the answer to the nonce from handler %d (%q)", o.K, o.GreetHID, o.GreetProto, o.ReplyHID, o.ReplyProto))
		}
		if o.ReplyProto != P {
			j.viol("handler-stream-protocol-differs/"+path, fmt.Sprintf("open %d: opener's stream reports %q, the handler's stream reports %q", o.K, P, o.ReplyProto))
		}
		acc := tab.acceptable(P)
		if !containsInt(acc, o.ReplyHID) {
			if old, ok := tab.removed[o.ReplyHID]; ok {
				// (4) "a handler removed before negotiation is never invoked"
				j.viol("removed-handler-invoked/"+old.Kind, fmt.Sprintf("open %d (%q) was served by handler %d (%s %s) which had been removed/replaced before the open", o.K, P, old.HID, old.Kind, old.Name))
			} else if len(sup) > 0 { // with nothing in common the success itself was reported above
				j.viol("wrong-handler-invoked/"+path, fmt.Sprintf("open %d (%q) was served by handler %d; handlers accepting %q: %v; table %v", o.K, P, o.ReplyHID, P, acc, rr.Table))
			}
		}
		// path classes
		kind := kindExact
		for _, g := range rr.Table {
			if g.HID == o.ReplyHID {
				kind = g.Kind
			}
		}
		if kind != kindExact {
			kind = "matchfn"
		}
		r.Count("ok_"+path+"_"+kind, 1)
		if o.ReadFirst {
			r.Count("ok_"+path+"_first_use_is_a_read", 1)
		}
		if len(acc) > 1 {
			r.Count("ok_several_handlers_acceptable", 1)
		}
		if len(sup) > 0 && P != sup[0] {
			r.Count("ok_not_first_supported_of_request", 1)
		}
		if P != o.Req[0] {
			r.Count("ok_not_first_requested", 1)
		}
		if len(misbelief) > 0 {
			r.Count("ok_despite_wrong_knowledge", 1)
		}
		if !contains(tab.names(), P) {
			r.Count("ok_id_not_a_registered_name", 1)
		}
	}
	// prefix decoys: requested ids refused although a registered exact name overlaps them as a prefix
	for _, o := range rr.Opens {
		for _, id := range o.Req {
			if tab.supports(id) {
				continue
			}
			for _, g := range rr.Table {
				if g.Kind == kindExact && overlaps(g.Name, id) && (!o.ok() || o.ProtoAtReturn != id) {
					r.Count("prefix_decoy_not_taken", 1)
				}
			}
		}
	}
	// (3)/(4) every handler invocation belongs to exactly one completed open
	for _, e := range rr.Handlers {
		if e.Nonce == "" {
			j.viol("handler-ran-without-an-open", fmt.Sprintf("handler %d was invoked on a stream reporting %q and could not even read a nonce (%s): no completed open corresponds to it", e.HID, e.ProtoAtEntry, e.ReadErr))
		}
		if _, ok := tab.removed[e.HID]; ok {
			j.viol("removed-handler-invoked/any", fmt.Sprintf("handler %d, removed before this round, was invoked (stream reporting %q)", e.HID, e.ProtoAtEntry))
		}
	}
	if len(rr.Handlers) != nOK && !j.bad {
		j.viol("handler-invocations!=completed-opens", fmt.Sprintf("%d handler invocations for %d completed opens", len(rr.Handlers), nOK))
	}
	// (5) "the stream is charged to the negotiated protocol's resource scope on both sides"
	for side, name := range []string{"opener", "listener"} {
		if c.NoRcmgr {
			r.Count("rounds_on_hosts_without_resource_manager", 1)
			break
		}
		dir := 1 - side // opener: outbound (index 1); listener: inbound (index 0)
		v := rr.OpenView[side]
		for _, id := range auditIDs {
			got, want := v.Proto[id][dir], wantScope[id]
			if got < want || (exact && got != want) {
				sig := "scope-while-open/" + name + "/not-charged"
				if got > want {
					sig = "scope-while-open/" + name + "/overcharged"
				}
				j.viol(sig, fmt.Sprintf("%s: protocol scope %q shows %d streams while %d streams negotiated to it are open (all non-zero scopes: %v)", name, id, got, want, v.Proto))
			}
			if exact && v.Proto[id][1-dir] != 0 {
				j.viol("scope-while-open/"+name+"/wrong-direction", fmt.Sprintf("%s: protocol scope %q shows %d streams in the wrong direction", name, id, v.Proto[id][1-dir]))
			}
		}
		if exact && (v.System[dir] != nOK || v.System[1-dir] != 0) {
			// a failed open must not leave a stream behind on either side ("the open fails")
			j.viol("scope-while-open/"+name+"/system-streams", fmt.Sprintf("%s: system scope shows streams in/out %v at quiescence with %d completed and %d failed opens", name, v.System, nOK, len(rr.Opens)-nOK))
		}
		if exact {
			cv := rr.ClosedView[side]
			if len(cv.Proto) != 0 || cv.System != [2]int{} {
				j.viol("scope-after-close/"+name, fmt.Sprintf("%s: streams still charged after every stream was closed: protocol scopes %v system %v", name, cv.Proto, cv.System))
			}
		}
	}
	if nOK > 0 {
		r.Count("scope_audits_with_open_streams", 1)
	}
	if len(rr.Opens) >= 8 {
		r.Count("rounds_with_8_or_more_concurrent_opens", 1)
	}
	// distinct non-trivial triples; every judged open is one evaluation (a case is a container of opens)
	r.Eval(len(rr.Opens))
	for _, o := range rr.Opens {
		sup := tab.supported(o.Req)
		plain := !o.optimistic() && o.ok() && len(tab.removed) == 0 && len(tab.acceptable(o.ProtoAtReturn)) == 1 && o.ProtoAtReturn == o.Req[0]
		if !plain {
			var kn []string
			for _, id := range o.Req {
				if contains(rr.Know, id) {
					kn = append(kn, id)
				}
			}
			r.Nontrivial(fmt.Sprintf("%v|%v|%v|%v", rr.Table, o.Req, kn, sup))
		}
	}
	return !j.bad
}

// judgeOpenerSide: "the bytes then exchanged flow between precisely those two endpoints" - a handler that
// the opener registered for itself is not an endpoint of any stream of the case.
func (s *state) judgeOpenerSide(c *caseSpec, res *caseResult) {
	if len(c.OpenerHandlers) > 0 {
		s.r.Count("cases_opener_has_own_handlers", 1)
	}
	if len(res.OpenerSide) > 0 {
		e := res.OpenerSide[0]
		s.r.Violation("opener-own-handler-invoked", c.ID, fmt.Sprintf("handler %d which the opener registered for itself ran on a stream reporting %q", e.HID, e.ProtoAtEntry),
			map[string]any{"case": c, "result": res})
	}
}

// ---------------------------------------------------------------------------------------------

func TestC07(t *testing.T) {
	r := run.New(t, "C07", "exploration")
	defer r.Finish()
	s := &state{r: r, t: t, pool: sectest.NewPool(2)}
	r.Rule("distinct (listener handler table, ordered request list, requested ids the opener believed supported, ids in common) tuples whose open was more than a first-choice exact match on a never-changed table: optimistic path, match-function handler, several acceptable handlers, no common protocol, removed/replaced handlers in the history, or a choice other than the first requested id")
	r.Assume("go-multistream (SelectOneOf, lazy NewMSSelect, MultistreamMuxer) is a trusted dependency; only its composition by the hosts is decided",
		"application payloads are not themselves well-formed multistream-select proposals (the nonce starts with 0x00): after a refused optimistic proposal the listener parses the following application bytes as the next proposal",
		"the oracle's match functions are the same pure predicates that are handed to SetStreamHandlerMatch",
		"limited (relayed) connections are decided by C12, not here")

	n := r.Pick(4000, 120000)
	if os.Getenv("VERIF_RACE") == "1" {
		n = r.Pick(600, 4000)
	}
	cases := make([]*caseSpec, n)
	for i := range cases {
		cases[i] = genCase(r.Rand(1, uint64(i)), i, !r.Quick(), true)
	}
	var smu sync.Mutex
	sampled := map[string]bool{}
	run.Parallel(len(cases), 0, func(i int) {
		c := cases[i]
		if !r.Want(c.ID) || r.TooMany() {
			return
		}
		res := s.runCase(c)
		r.Count("cases", 1)
		if r.BubbleFailed(res.Bubble, "bubble", c.ID, "goroutines of the two hosts never finished", map[string]any{"case": c, "result": res}) {
			return
		}
		if res.ConnectErr != "" {
			r.Inconclusive(c.ID, "connect failed: "+res.ConnectErr)
			return
		}
		r.Count("hosts_"+c.Opener+"_to_"+c.Listener, 1)
		s.judgeOpenerSide(c, &res)
		if c.Reverse {
			r.Count("cases_opener_accepted_the_connection", 1)
		}
		for ri, rr := range res.Rounds {
			ok := s.judgeRound(c, ri, rr, true)
			r.Count("rounds", 1)
			if ok {
				smu.Lock()
				mode := c.Rounds[ri].Know
				if !sampled[mode] && len(rr.Opens) <= 3 && r.SampleN() < 5 && (mode == "stale" || mode == "identify" || mode == "superset") {
					sampled[mode] = true
					r.Sample(map[string]any{"case": c.ID, "round": ri, "spec": c.Rounds[ri], "result": rr})
				}
				smu.Unlock()
			}
		}
	})
	if !r.Replaying() {
		s.assumptionProbe()
	}
	s.quotaPart()
	if !r.Quick() && os.Getenv("VERIF_RACE") != "1" {
		s.tcpCases()
	}
	// path classes this check exists for; minima are ~1/10 of what a run of that size measures
	for k, min := range map[string]int{
		"ok_eager_exact": 500, "ok_eager_matchfn": 500, "ok_optimistic_exact": 500, "ok_optimistic_matchfn": 500,
		"ok_eager_first_use_is_a_read": 300, "ok_optimistic_first_use_is_a_read": 300,
		"fail_no_common_at_newstream": 1000, "fail_no_common_at_first_use": 1000, "fail_no_common_at_first_use_being_a_read": 300,
		"fail_stale_choice_at_first_use": 300, "fail_first_use_while_identify_push_in_flight": 50,
		"requests_naming_a_removed_handler": 1000, "prefix_decoy_not_taken": 1000, "ok_several_handlers_acceptable": 300,
		"ok_not_first_requested": 1000, "rounds_with_8_or_more_concurrent_opens": 300, "scope_audits_with_open_streams": 1000,
		"knowledge_mode_identify": 1000, "knowledge_mode_none": 1000, "knowledge_mode_accurate": 1000, "knowledge_mode_stale": 1000,
		"knowledge_mode_superset": 1000, "knowledge_mode_partial": 1000,
		"opens_basic_to_basic": 5000, "opens_basic_to_blank": 500, "opens_blank_to_basic": 500,
		"rounds_on_hosts_without_resource_manager": 300,
	} {
		min = max(1, min*n/4000) // race pass: fewer cases; thorough: more
		r.Require(k, min)
	}
}

// assumptionProbe measures (it judges nothing) what happens OUTSIDE the payload assumption stated in
// TestC07: stale knowledge makes the opener propose /a/1.0.0 optimistically, and its first application
// write happens to be a well-formed multistream-select proposal for /b/1.0.0, which the listener serves.
// multistream-select keeps reading proposals after it answered "na", so it takes the payload for one.
func (s *state) assumptionProbe() {
	ka, kb := s.pool["ed25519"][0], s.pool["ecdsa"][1]
	out := map[string]any{"listener_handlers": []string{"/b/1.0.0"}, "opener_knowledge": []string{"/a/1.0.0"}, "requested": []string{"/a/1.0.0"},
		"first_write": "\\x09/b/1.0.0\\n + data"}
	b := run.Bubble(s.t, func(t *testing.T) {
		f := memtpt.NewFabric()
		na, nb := newNode(f, ka, "noise", "10.0.0.1", "basic"), newNode(f, kb, "noise", "10.0.0.2", "basic")
		laddr := ma.StringCast("/ip4/10.0.0.2/tcp/4001")
		if err := nb.sw.Listen(laddr); err != nil {
			panic(err)
		}
		na.ps.AddAddrs(kb.ID, []ma.Multiaddr{laddr}, peerstore.PermanentAddrTTL)
		ctx, cancel := context.WithTimeout(context.Background(), time.Minute)
		defer cancel()
		if err := na.h.Connect(ctx, peer.AddrInfo{ID: kb.ID}); err == nil {
			log := &hlog{}
			log.install(nb.h, reg{Name: "/b/1.0.0", Kind: kindExact, HID: 1})
			synctest.Wait()
			na.ps.SetProtocols(kb.ID, "/a/1.0.0")
			if st, err := na.h.NewStream(ctx, kb.ID, "/a/1.0.0"); err == nil {
				st.SetDeadline(time.Now().Add(streamDeadline))
				_, werr := st.Write(append([]byte("\x09/b/1.0.0\n"), make([]byte, nonceLen)...))
				synctest.Wait()
				_, _, rerr := readReply(st)
				out["opener_stream_protocol"], out["opener_write_err"], out["opener_first_read_err"] = string(st.Protocol()), fmt.Sprint(werr), fmt.Sprint(rerr)
				st.Reset()
			}
			synctest.Wait()
			out["listener_handler_invocations"] = log.since(0)
		}
		na.close()
		nb.close()
		synctest.Wait()
		for _, rc := range f.Conns() {
			rc.Close()
		}
		na.closeRest()
		nb.closeRest()
	})
	out["bubble_ok"] = b.OK()
	s.r.Extra("outside_assumption_probe_payload_is_a_wellformed_multistream_proposal", out)
}
