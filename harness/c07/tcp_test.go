package c07

import (
	"context"
	"fmt"
	"time"

	"github.com/libp2p/go-libp2p"
	"github.com/libp2p/go-libp2p/core/peer"
	bhost "github.com/libp2p/go-libp2p/p2p/host/basic"
	"github.com/libp2p/go-libp2p/p2p/transport/tcp"

	"verif/harness/rig/run"
	"verif/harness/rig/sectest"
)

// Real sockets (thorough tier): two hosts built by libp2p.New on loopback TCP with a real resource
// manager each. There is no exact quiescence here, so (a) the harness polls (bounded, best effort) until
// identify's push has arrived before it fixes the opener's knowledge, and the oracle accepts what any
// knowledge state a late push could produce allows, (b) scope counts taken while the streams are open are
// LOWER bounds (a stream whose handler has answered is certainly charged on both sides), (c) the release
// after close is awaited by polling; a poll that does not converge is inconclusive, never a violation.

const tcpPoll = 20 * time.Second

func pollUntil(d time.Duration, cond func() bool) bool {
	deadline := time.Now().Add(d)
	for !cond() {
		if time.Now().After(deadline) {
			return false
		}
		time.Sleep(2 * time.Millisecond)
	}
	return true
}

func newTCPNode(k *sectest.Key) (*node, error) {
	n := &node{key: k, rm: newRcmgr()}
	h, err := libp2p.New(libp2p.Identity(k.Priv), libp2p.ListenAddrStrings("/ip4/127.0.0.1/tcp/0"),
		libp2p.Transport(tcp.NewTCPTransport), libp2p.ResourceManager(n.rm), libp2p.DisableRelay(), libp2p.DisableMetrics())
	if err != nil {
		n.rm.Close()
		return nil, err
	}
	n.h, n.ps = h, h.Peerstore()
	n.basic, _ = h.(*bhost.BasicHost)
	return n, nil
}

func (s *state) runTCPCase(c *caseSpec) (res caseResult, inconclusive string) {
	ka, kb := s.pool["ed25519"][0], s.pool["ecdsa"][1]
	na, err := newTCPNode(ka)
	if err != nil {
		return res, "libp2p.New: " + err.Error()
	}
	defer na.h.Close()
	nb, err := newTCPNode(kb)
	if err != nil {
		return res, "libp2p.New: " + err.Error()
	}
	defer nb.h.Close()
	ctx, cancel := context.WithTimeout(context.Background(), time.Minute)
	defer cancel()
	if err := na.h.Connect(ctx, peer.AddrInfo{ID: kb.ID, Addrs: nb.h.Addrs()}); err != nil {
		return res, "connect: " + err.Error()
	}
	opener, lis := na, nb
	if c.Reverse {
		opener, lis = nb, na
	}
	// identify in both directions
	if !pollUntil(tcpPoll, func() bool {
		p1, _ := na.ps.GetProtocols(kb.ID)
		p2, _ := nb.ps.GetProtocols(ka.ID)
		return len(p1) > 0 && len(p2) > 0
	}) {
		return res, "identify did not complete"
	}
	lastNames := fmt.Sprint(sortedStrings(lis.h.Mux().Protocols()))
	e := env{
		afterChange: func(tab *table, wait bool) {
			// identify pushes only when the set of registered names changed; wait until that push has
			// arrived: the opener's view then equals the listener's registered names. (A push that is
			// still in flight for another reason is covered by playRounds reading the knowledge twice.)
			want := sortedStrings(lis.h.Mux().Protocols())
			if fmt.Sprint(want) == lastNames {
				return
			}
			lastNames = fmt.Sprint(want)
			if !wait {
				return
			}
			// Not required for soundness (see playRounds): the receiver may apply two pushes out of order
			// and then stays behind; the wait only makes the intended knowledge state the usual one.
			if pollUntil(2*time.Second, func() bool {
				got, _ := opener.ps.GetProtocols(lis.key.ID)
				return fmt.Sprint(sortedStrings(got)) == fmt.Sprint(want)
			}) {
				s.r.Count("tcp_identify_push_observed", 1)
			} else {
				s.r.Count("tcp_identify_push_not_observed_in_2s", 1)
			}
		},
		afterOpens: func() {},
		afterClose: func() {
			if !pollUntil(tcpPoll, func() bool {
				for _, n := range []*node{opener, lis} {
					if v := viewScopes(n.rm, auditIDs); len(v.Proto) != 0 {
						return false
					}
				}
				return true
			}) {
				if inconclusive == "" {
					inconclusive = "protocol scopes did not return to zero within the poll window"
				}
			} else {
				s.r.Count("tcp_release_observed", 1)
			}
		},
	}
	playRounds(c, opener, lis, e, &res)
	return res, inconclusive
}

func (s *state) tcpCases() {
	n := 1000
	cases := make([]*caseSpec, n)
	for i := range cases {
		c := genCase(s.r.Rand(2, uint64(i)), 100000+i, true, false)
		c.ID = fmt.Sprintf("tcp/%03d", i)
		c.Sec = "libp2p.New defaults"
		cases[i] = c
	}
	run.Parallel(len(cases), 4, func(i int) {
		c := cases[i]
		if !s.r.Want(c.ID) || s.r.TooMany() {
			return
		}
		var res caseResult
		var why string
		if !run.Watchdog(5*time.Minute, func() { res, why = s.runTCPCase(c) }) {
			s.r.Inconclusive(c.ID, "real-time watchdog")
			return
		}
		s.r.Eval(1)
		if why != "" {
			s.r.Inconclusive(c.ID, why)
			return
		}
		s.r.Count("tcp_cases", 1)
		s.judgeOpenerSide(c, &res)
		for ri, rr := range res.Rounds {
			s.judgeRound(c, ri, rr, false)
			s.r.Count("tcp_rounds", 1)
			s.r.Count("tcp_opens", len(rr.Opens))
		}
	})
	s.r.Require("tcp_cases", 800)
	s.r.Require("tcp_release_observed", 3000)
}
