package c07

import (
	"context"
	"fmt"
	"testing"
	"testing/synctest"
	"time"

	"github.com/libp2p/go-libp2p/core/network"
	"github.com/libp2p/go-libp2p/core/peer"
	"github.com/libp2p/go-libp2p/core/peerstore"
	"github.com/libp2p/go-libp2p/core/protocol"
	rcmgr "github.com/libp2p/go-libp2p/p2p/host/resource-manager"
	"github.com/libp2p/go-libp2p/x/rate"
	ma "github.com/multiformats/go-multiaddr"

	"verif/harness/rig/memtpt"
	"verif/harness/rig/run"
)

// Quota family: "the stream is charged to the negotiated protocol's resource scope on both sides" when
// binding a stream to its protocol PARTLY fails. One side's resource manager admits only N streams of
// protocol /q/1.0.0 - protocol-wide or per peer - so the opens beyond N are refused half-way through the
// attachment (the protocol-wide scope had accepted, the per-peer one refuses, or the other way round).
// Ground truth: the streams the opener still holds, each proven by a nonce echo to be served by the
// handler of the protocol it reports. At quiescence each side's protocol scope must show exactly those,
// for the limited protocol and for the unlimited one opened in between, and nothing after they are closed.

type quotaCase struct {
	ID       string `json:"id"`
	Level    string `json:"limit_level"` // protocol | protocol-peer
	Side     string `json:"limited_side"`
	N        int    `json:"streams_admitted"`
	Know     bool   `json:"opener_knows_listener_protocols"`
	Listener string `json:"listener_host"`
	Opener   string `json:"opener_host"`
	Sec      string `json:"security"`
}

type quotaResult struct {
	ConnectErr string        `json:"connect_err,omitempty"`
	Opens      []*openResult `json:"opens"`
	Held       map[string]int
	OpenView   [2]scopeView `json:"scopes_while_open_opener_listener"`
	ClosedView [2]scopeView `json:"scopes_after_close_opener_listener"`
	ClosedMem  [2]int64     `json:"limited_protocol_scope_memory_after_close"`
	Handlers   []hEvent     `json:"handler_invocations"`
	Bubble     run.BubbleResult
}

const quotaP, quotaQ = "/q/1.0.0", "/r/1.0.0"

func quotaRM(c *quotaCase) network.ResourceManager {
	v := rcmgr.LimitVal(c.N)
	if c.N == 0 {
		v = rcmgr.BlockAllLimit
	}
	lim := rcmgr.ResourceLimits{Streams: v, StreamsInbound: v, StreamsOutbound: v}
	var part rcmgr.PartialLimitConfig
	if c.Level == "protocol" {
		part.Protocol = map[protocol.ID]rcmgr.ResourceLimits{quotaP: lim}
	} else {
		part.ProtocolPeer = map[protocol.ID]rcmgr.ResourceLimits{quotaP: lim}
	}
	rm, err := rcmgr.NewResourceManager(rcmgr.NewFixedLimiter(part.Build(rcmgr.DefaultLimits.AutoScale())), rcmgr.WithConnRateLimiters(&rate.Limiter{}))
	if err != nil {
		panic(err)
	}
	return rm
}

func (s *state) runQuotaCase(c *quotaCase) (res quotaResult) {
	ka, kb := s.pool["ed25519"][0], s.pool["ecdsa"][1]
	res.Held = map[string]int{}
	res.Bubble = run.Bubble(s.t, func(t *testing.T) {
		f := memtpt.NewFabric()
		var rmA, rmB network.ResourceManager
		if c.Side == "opener" {
			rmA = quotaRM(c)
		} else {
			rmB = quotaRM(c)
		}
		na := newNodeRM(f, ka, c.Sec, "10.0.0.1", c.Opener, rmA)
		nb := newNodeRM(f, kb, c.Sec, "10.0.0.2", c.Listener, rmB)
		laddr := ma.StringCast("/ip4/10.0.0.2/tcp/4001")
		if err := nb.sw.Listen(laddr); err != nil {
			panic(err)
		}
		log := &hlog{}
		log.install(nb.h, reg{Name: quotaP, Kind: kindExact, HID: 1})
		log.install(nb.h, reg{Name: quotaQ, Kind: kindExact, HID: 2})
		na.ps.AddAddrs(kb.ID, []ma.Multiaddr{laddr}, peerstore.PermanentAddrTTL)
		ctx, cancel := context.WithTimeout(context.Background(), time.Minute)
		err := na.h.Connect(ctx, peer.AddrInfo{ID: kb.ID})
		cancel()
		if err != nil {
			res.ConnectErr = err.Error()
		} else {
			synctest.Wait()
			if !c.Know {
				na.ps.RemoveProtocols(kb.ID, quotaP, quotaQ)
			}
			var reqs []string
			for i := 0; i < c.N+2; i++ {
				reqs = append(reqs, quotaP)
				if i == 0 || i == c.N {
					reqs = append(reqs, quotaQ)
				}
			}
			for k, id := range reqs {
				ctx, cancel := context.WithTimeout(context.Background(), 20*time.Second)
				o := doOpen(ctx, na.h, kb.ID, k, []string{id}, k%3 == 1, false, false, mkNonce(900000+c.N, 0, k))
				cancel()
				res.Opens = append(res.Opens, o)
				synctest.Wait()
			}
			res.OpenView = [2]scopeView{viewScopes(na.rm, auditIDsQuota), viewScopes(nb.rm, auditIDsQuota)}
			log.releaseHold()
			for _, o := range res.Opens {
				if o.st != nil {
					o.st.Close()
					o.st = nil
				}
			}
			synctest.Wait()
			res.ClosedView = [2]scopeView{viewScopes(na.rm, auditIDsQuota), viewScopes(nb.rm, auditIDsQuota)}
			for i, rm := range []network.ResourceManager{na.rm, nb.rm} {
				rm.ViewProtocol(quotaP, func(ps network.ProtocolScope) error { res.ClosedMem[i] = ps.Stat().Memory; return nil })
			}
			res.Handlers = log.since(0)
		}
		na.close()
		nb.close()
		synctest.Wait()
		for _, rc := range f.Conns() {
			rc.Close()
		}
		na.closeRest()
		nb.closeRest()
	})
	return
}

var auditIDsQuota = []string{quotaP, quotaQ}

func (s *state) quotaPart() {
	r := s.r
	var cases []*quotaCase
	for _, level := range []string{"protocol-peer", "protocol"} {
		for _, side := range []string{"listener", "opener"} {
			for n := 0; n <= 3; n++ {
				for _, know := range []bool{false, true} {
					for li, hosts := range [][2]string{{"basic", "basic"}, {"basic", "blank"}, {"blank", "basic"}} {
						c := &quotaCase{Level: level, Side: side, N: n, Know: know, Opener: hosts[0], Listener: hosts[1], Sec: []string{"noise", "tls"}[(n+li)%2]}
						c.ID = fmt.Sprintf("quota/%s/%s-limited/N=%d/know=%v/%s-to-%s", level, side, n, know, hosts[0], hosts[1])
						cases = append(cases, c)
					}
				}
			}
		}
	}
	run.Parallel(len(cases), 0, func(i int) {
		c := cases[i]
		if !r.Want(c.ID) || r.TooMany() {
			return
		}
		res := s.runQuotaCase(c)
		r.Eval(len(res.Opens))
		detail := map[string]any{"case": c, "result": res}
		if r.BubbleFailed(res.Bubble, "quota", c.ID, "the hosts never wound down", detail) {
			return
		}
		if res.ConnectErr != "" {
			r.Inconclusive(c.ID, "connect: "+res.ConnectErr)
			return
		}
		viol := func(sig, msg string) { r.Violation("quota:"+sig, c.ID, msg, detail) }
		held := map[string]int{}
		refused := 0
		for _, o := range res.Opens {
			if !o.ok() {
				refused++
				continue
			}
			P := o.ProtoAtReturn
			held[P]++
			if P != o.Req[0] || o.ReplyProto != P || o.ReplyNonce != o.Nonce || o.ReplyHID != map[string]int{quotaP: 1, quotaQ: 2}[P] {
				viol("wrong-handler-or-protocol", fmt.Sprintf("open %d for %v: stream reports %q, answered by handler %d on a stream reporting %q", o.K, o.Req, P, o.ReplyHID, o.ReplyProto))
			}
		}
		res.Held = held
		nOK := held[quotaP] + held[quotaQ]
		nonced := 0
		for _, e := range res.Handlers {
			if e.Nonce != "" {
				nonced++
			}
		}
		if nonced != nOK {
			viol("handler-invocations!=completed-opens", fmt.Sprintf("%d handler invocations read a nonce for %d completed opens", nonced, nOK))
		}
		if held[quotaP] > c.N {
			r.Count("quota_more_streams_admitted_than_the_limit(not judged here)", 1)
		}
		if refused > 0 {
			r.Count("quota_cases_with_refused_opens", 1)
			r.Count("quota_refused_opens/"+c.Level+"/"+c.Side, refused)
			r.Nontrivial(c.ID)
		}
		if held[quotaP] > 0 && refused > 0 {
			r.Count("quota_cases_with_streams_held_beside_refused_ones", 1)
		}
		for side, name := range []string{"opener", "listener"} {
			dir := 1 - side
			v := res.OpenView[side]
			for _, id := range auditIDsQuota {
				if got, want := v.Proto[id][dir], held[id]; got != want {
					sig := "scope-while-open/" + name + "/not-charged"
					if got > want {
						sig = "scope-while-open/" + name + "/overcharged"
					}
					viol(sig, fmt.Sprintf("%s: protocol scope %q shows %d streams while %d streams negotiated to it are open and %d opens were refused (%s limit %d on the %s)", name, id, got, want, refused, c.Level, c.N, c.Side))
				}
				if v.Proto[id][1-dir] != 0 {
					viol("scope-while-open/"+name+"/wrong-direction", fmt.Sprintf("%s: protocol scope %q shows %d streams in the wrong direction", name, id, v.Proto[id][1-dir]))
				}
			}
			cv := res.ClosedView[side]
			if len(cv.Proto) != 0 || cv.System != [2]int{} || res.ClosedMem[side] != 0 {
				viol("scope-after-close/"+name, fmt.Sprintf("%s: still charged after every stream was closed: protocol scopes %v system %v memory of %s %d", name, cv.Proto, cv.System, quotaP, res.ClosedMem[side]))
			}
		}
		r.Count("quota_cases_judged", 1)
	})
	r.Require("quota_cases_judged", 48)
	r.Require("quota_cases_with_refused_opens", 32)
	r.Require("quota_cases_with_streams_held_beside_refused_ones", 16)
}
