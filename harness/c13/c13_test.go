// C13 — Identify attributes what it learns only to the authenticated peer, within bounds.
//
// Victim: a real BasicHost (real swarm, real identify service, real pstoremem peerstore) over memtpt
// inside a synctest bubble. Remote: a hostile raw peer P with its own valid identity (real upgrader,
// Noise/TLS, yamux) that answers /ipfs/id/1.0.0 and opens /ipfs/id/push/1.0.0 with generated
// protobufs: every field absent / oversized / split or duplicated over up to 12 chunks, listen
// addresses with foreign /p2p suffixes, keys and signed records of other peers, records with
// mismatching peer id / domain / payload type, on one of 1-3 connections, racing with the disconnect
// of that or of the last connection (virtual delays at two hook points widen the windows).
//
// Oracle (oracle_test.go), from the statement: whole-peerstore snapshot diff restricted by "only the
// authenticated peer's entries may change", origin of every address stored under P, key hashes, caps,
// TTL behaviour observed through virtual time, bounded release of every IdentifyWait channel.
package c13

import (
	"fmt"
	"log/slog"
	"math/rand/v2"
	"os"
	"runtime"
	"sync"
	"testing"
	"time"

	"github.com/libp2p/go-libp2p/core/network"
	"github.com/libp2p/go-libp2p/core/peer"
	"github.com/libp2p/go-libp2p/core/peerstore"
	"github.com/libp2p/go-libp2p/core/record"
	"github.com/libp2p/go-libp2p/gologshim"
	"github.com/libp2p/go-libp2p/x/verifhook"
	ma "github.com/multiformats/go-multiaddr"

	"verif/harness/rig/run"
	"verif/harness/rig/sectest"
)

const (
	hookConsume = "identify.consumeMessage.beforeLock"
	hookDisc    = "identify.disconnected.beforeLock"
)

func init() { gologshim.SetDefaultHandler(slog.DiscardHandler) }

// worlds: victim peer id -> *world. verifhook handlers are process-global; every case has a fresh
// victim identity, so the handler finds its case through the connection's local peer.
var worlds sync.Map

var hooksSeen struct {
	sync.Once
	present bool
}

// verifhookPresent: the call sites only widen windows; when a tree lacks them the check falls back
// to schedules that do not need them.
func verifhookPresent() bool { return verifhook.Hits(hookConsume) > 0 }

type closeSpec struct {
	Conn int    `json:"conn"`
	By   string `json:"by"` // victim | remote
}

type pushSpec struct {
	On  int      `json:"on_conn"`
	Msg *msgSpec `json:"message"`
}

type connSpec struct {
	Dir  string   `json:"dir"` // in: P dials the victim; out: the victim dials P
	Resp *msgSpec `json:"identify_response"`
}

type raceSpec struct {
	Trigger     string        `json:"close_trigger"` // controller | consume-hook | protocols-event
	ConsumeWait time.Duration `json:"delay_before_consume_lock"`
	DiscWait    time.Duration `json:"delay_before_disconnect_lock"`
	Gap         time.Duration `json:"close_starts_after"`
}

type kase struct {
	ID           string            `json:"id"`
	Flavour      string            `json:"flavour"`
	Sec          string            `json:"security"`
	Keys         map[string]string `json:"key_types"`
	PClass       string            `json:"remote_ip_class"`
	VClass       string            `json:"victim_ip_class"`
	BigProtoBook bool              `json:"peerstore_protocol_cap_lifted"`
	// the victim's address book has room for ONE unconnected address (pstoremem.WithMaxAddresses(1)) and the
	// seeded peers fill it: every downgrade of P's addresses at the last disconnect is refused by the book
	FullAddrBook bool `json:"peerstore_unconnected_address_room_exhausted,omitempty"`
	PKnown       bool              `json:"P_known_beforehand"`
	ConcConnect  bool              `json:"connect_concurrently"`
	ConcPush     bool              `json:"push_concurrently"`
	Keeper       bool              `json:"conn0_stays_up_for_lifetime_check"`
	Keyless      bool              `json:"application_removes_P_before_pushes"`
	Conns        []connSpec        `json:"conns"`
	PushesA      []pushSpec        `json:"pushes"`
	CloseFirst   []closeSpec       `json:"close_first"`
	PushB        *pushSpec         `json:"push_racing_with_close_first"`
	FinalBy      string            `json:"last_conns_closed_by"`
	FinalPush    *pushSpec         `json:"push_racing_with_last_disconnect"`
	Race         raceSpec          `json:"race"`
	// the identify service is closed (the first step of BasicHost.Close) BEFORE the last connections to P
	// close: the peerstore outlives the service, and the addresses must still fall back to a finite lifetime
	IdsClosedFirst bool `json:"identify_service_closed_before_last_disconnect,omitempty"`

	cast *cast
	cl   *claimLog
	g    *gen
	// what the victim knows beforehand
	seedX, seedP       []seededAddr
	xEnv, pEnv         *record.Envelope
	xRecAddr, pRecAddr ma.Multiaddr
}

type state struct {
	t    *testing.T
	r    *run.R
	pool sectest.Pool
}

var flavours = []string{"attrib", "cap-protos", "cap-listen", "cap-record", "keeper", "race-final", "fail", "keyless", "race-final", "mix", "attrib", "keeper"}

func pick[T any](rng *rand.Rand, xs ...T) T { return xs[rng.IntN(len(xs))] }

func (s *state) genCase(i int, raceOnly bool) *kase {
	rng := s.r.Rand(13, uint64(i))
	fl := flavours[i%len(flavours)]
	if raceOnly {
		fl = pick(rng, "keeper", "race-final", "race-final", "mix")
	}
	// configuration crossing: flavour x security x remote address class x P's key type are enumerated
	// by the case index (every combination is reached every 12*2*3*4 = 288 cases), the rest is random
	j := i / len(flavours)
	k := &kase{ID: fmt.Sprintf("case/%d", i), Flavour: fl, Sec: []string{"noise", "tls"}[j%2], FinalBy: pick(rng, "victim", "remote")}
	k.FullAddrBook = i%7 == 3
	k.PClass = []string{"pub", "priv", "loop"}[j/2%3]
	types := []string{"ed25519", "ed25519", "ecdsa", "secp256k1", "rsa"}
	kt := func(typ string) *sectest.Key {
		ks := s.pool[typ]
		return ks[rng.IntN(len(ks))]
	}
	// the victim's identity is fresh for every case (the hook handlers find their case through it)
	c := &cast{Self: sectest.GenKey("ed25519")}
	c.P = kt(sectest.KeyTypes[j/6%4])
	used := map[peer.ID]bool{c.P.ID: true}
	for _, dst := range []**sectest.Key{&c.X, &c.Y, &c.Z} {
		for {
			if kk := kt(pick(rng, types...)); !used[kk.ID] {
				used[kk.ID] = true
				*dst = kk
				break
			}
		}
	}
	k.cast = c
	k.Keys = map[string]string{"P": c.P.Type, "X": c.X.Type, "Y": c.Y.Type, "Z": c.Z.Type}
	k.VClass = k.PClass
	k.PKnown = rng.IntN(3) == 0
	k.cl = newClaimLog()
	g := &gen{rng: rng, cast: c, cl: k.cl, pclass: k.PClass}
	k.g = g
	// what the victim knows beforehand (put into its peerstore by world.seed)
	ttls := []time.Duration{peerstore.PermanentAddrTTL, peerstore.ConnectedAddrTTL, peerstore.RecentlyConnectedAddrTTL, peerstore.TempAddrTTL, peerstore.AddressTTL}
	var err error
	for _, ttl := range ttls {
		k.seedX = append(k.seedX, seededAddr{a: g.addrOf("pub"), ttl: ttl})
		k.seedP = append(k.seedP, seededAddr{a: g.addrOf("pub"), ttl: ttl})
	}
	k.xRecAddr, k.pRecAddr = g.addrOf("pub"), g.addrOf("pub")
	if k.xEnv, err = record.Seal(&peer.PeerRecord{PeerID: c.X.ID, Addrs: []ma.Multiaddr{k.xRecAddr}, Seq: 77}, c.X.Priv); err != nil {
		panic(err)
	}
	if k.pEnv, err = record.Seal(&peer.PeerRecord{PeerID: c.P.ID, Addrs: []ma.Multiaddr{k.pRecAddr}, Seq: 1 << 40}, c.P.Priv); err != nil {
		panic(err)
	}
	g.xRec, _ = k.xEnv.Marshal()
	for _, sa := range k.seedX {
		g.xAddrs = append(g.xAddrs, sa.a)
	}
	g.xAddrs = append(g.xAddrs, k.xRecAddr)

	ends := func(normal bool) string {
		if normal && rng.IntN(100) < 85 {
			return "eof"
		}
		return pick(rng, "eof", "reset", "stall", "connclose", "eof+connclose", "eof+victimclose")
	}
	shape := func() string { return pick(rng, "small", "small", "small", "medium", "medium", "empty") }
	msg := func(push bool, sh string) *msgSpec { return g.message(push, sh) }

	nConns := 1 + rng.IntN(3)
	switch fl {
	case "keeper":
		nConns = 2 + rng.IntN(2)
	case "cap-protos", "cap-listen", "cap-record":
		nConns = 1 + rng.IntN(2)
	}
	for j := 0; j < nConns; j++ {
		dir := "in"
		if j == 0 && rng.IntN(3) == 0 {
			dir = "out"
		}
		m := msg(false, shape())
		m.End = ends(true)
		k.Conns = append(k.Conns, connSpec{Dir: dir, Resp: m})
	}
	k.ConcConnect = rng.IntN(4) == 0
	k.ConcPush = rng.IntN(3) == 0
	for j, n := 0, rng.IntN(4); j < n; j++ {
		m := msg(true, shape())
		m.End = ends(true)
		k.PushesA = append(k.PushesA, pushSpec{On: rng.IntN(nConns), Msg: m})
	}
	racePlan := func() raceSpec {
		waits := []time.Duration{0, time.Millisecond, time.Second}
		switch rng.IntN(5) {
		case 4: // an event subscriber closes the connection when identify announces the push's protocols
			return raceSpec{Trigger: "protocols-event", ConsumeWait: pick(rng, 0, 0, time.Millisecond), DiscWait: pick(rng, 0, 0, time.Millisecond)}
		case 0: // the close starts inside the window between reading the message and taking addrMu
			return raceSpec{Trigger: "consume-hook", ConsumeWait: pick(rng, waits...), DiscWait: pick(rng, waits...)}
		case 1: // the disconnect is completely handled while the message waits in front of the lock
			return raceSpec{Trigger: "controller", Gap: time.Millisecond, ConsumeWait: time.Second}
		case 2: // the disconnect handler waits in front of the lock while the message is consumed
			return raceSpec{Trigger: "consume-hook", DiscWait: time.Second}
		default: // plain concurrency
			return raceSpec{Trigger: "controller", ConsumeWait: pick(rng, waits...), DiscWait: pick(rng, waits...)}
		}
	}
	k.Race = racePlan()
	withAddrs := func(push bool) *msgSpec {
		m := msg(push, pick(rng, "small", "medium", "medium"))
		m.End = "eof"
		return m
	}

	switch fl {
	case "attrib":
		// as generated: many small messages full of other peers' data
		for j := 0; j < 2; j++ {
			m := msg(true, "small")
			k.PushesA = append(k.PushesA, pushSpec{On: rng.IntN(nConns), Msg: m})
		}
	case "cap-protos":
		k.BigProtoBook = rng.IntN(4) != 0
		m := msg(rng.IntN(2) == 0, "cap-protos")
		if m.Push {
			k.PushesA = append(k.PushesA, pushSpec{On: rng.IntN(nConns), Msg: m})
		} else {
			k.Conns[rng.IntN(nConns)].Resp = m
		}
	case "cap-listen", "cap-record":
		k.PKnown = false
		m := msg(rng.IntN(2) == 0, fl)
		if m.Push {
			k.PushesA = append(k.PushesA, pushSpec{On: rng.IntN(nConns), Msg: m})
			k.ConcPush = false
		} else {
			k.Conns[nConns-1].Resp = m
			k.ConcConnect = false
			k.PushesA = nil
		}
		if rng.IntN(3) != 0 {
			k.Race = raceSpec{Trigger: "controller"} // nothing in flight at the last disconnect: tight cap applies
		} else {
			k.FinalPush = &pushSpec{On: rng.IntN(nConns), Msg: withAddrs(true)}
		}
	case "keeper":
		k.Keeper, k.ConcConnect = true, false
		k.Conns[0].Resp = withAddrs(false)
		for j := 1; j < nConns; j++ {
			k.CloseFirst = append(k.CloseFirst, closeSpec{Conn: j, By: pick(rng, "victim", "remote")})
		}
		if rng.IntN(4) != 0 {
			k.PushB = &pushSpec{On: rng.IntN(nConns), Msg: withAddrs(true)}
		}
		if rng.IntN(2) == 0 {
			k.FinalPush = &pushSpec{On: 0, Msg: withAddrs(true)}
		}
	case "race-final":
		if nConns > 1 && rng.IntN(2) == 0 {
			k.CloseFirst = append(k.CloseFirst, closeSpec{Conn: nConns - 1, By: pick(rng, "victim", "remote")})
		}
		m := withAddrs(true)
		if rng.IntN(4) == 0 {
			m.End = pick(rng, "eof+connclose", "eof+victimclose")
		}
		k.FinalPush = &pushSpec{On: rng.IntN(nConns), Msg: m}
	case "fail":
		for j := range k.Conns {
			m := msg(false, pick(rng, "small", "oversize", "manychunks", "garbage", "small"))
			m.End = pick(rng, "stall", "reset", "connclose", "mute", "refuse", "eof", "eof", "eof+connclose")
			if len(m.Chunks) > 1 && rng.IntN(3) == 0 {
				m.Chunks[1+rng.IntN(len(m.Chunks)-1)].Pre = pick(rng, "pause", "close-remote", "close-victim")
			}
			k.Conns[j].Resp = m
		}
		for j, n := 0, 1+rng.IntN(3); j < n; j++ {
			m := msg(true, pick(rng, "small", "oversize", "manychunks", "garbage"))
			m.End = pick(rng, "stall", "reset", "connclose", "eof")
			if len(m.Chunks) > 1 && rng.IntN(3) == 0 {
				m.Chunks[1+rng.IntN(len(m.Chunks)-1)].Pre = pick(rng, "pause", "close-remote", "close-victim")
			}
			k.PushesA = append(k.PushesA, pushSpec{On: rng.IntN(nConns), Msg: m})
		}
	case "keyless":
		k.Keyless = true
		for j := 0; j < 2; j++ {
			k.PushesA = append(k.PushesA, pushSpec{On: rng.IntN(nConns), Msg: msg(true, "small")})
		}
	case "mix":
		k.BigProtoBook = rng.IntN(2) == 0
		k.Keyless = rng.IntN(4) == 0
		if rng.IntN(2) == 0 {
			k.FinalPush = &pushSpec{On: rng.IntN(nConns), Msg: msg(true, shape())}
			k.FinalPush.Msg.End = ends(true)
		}
		if nConns > 1 && rng.IntN(2) == 0 {
			k.CloseFirst = append(k.CloseFirst, closeSpec{Conn: 1 + rng.IntN(nConns-1), By: pick(rng, "victim", "remote")})
			if rng.IntN(2) == 0 {
				k.PushB = &pushSpec{On: rng.IntN(nConns), Msg: msg(true, shape())}
			}
		}
		if rng.IntN(5) == 0 {
			sh := pick(rng, "cap-protos", "cap-listen", "cap-record")
			k.PushesA = append(k.PushesA, pushSpec{On: rng.IntN(nConns), Msg: msg(true, sh)})
		}
	}
	if len(k.PushesA) > 7 {
		k.PushesA = k.PushesA[:7] // stay below identify's per-subnet push rate limit (burst 10)
	}
	// decided by the case index alone (no PRNG draw: every other case stays what it was); only when nothing is
	// in flight at the last disconnect, so that the closed service has no message left to answer for
	k.IdsClosedFirst = k.FinalPush == nil && i%11 == 5
	return k
}

func (k *kase) hash() string {
	return fmt.Sprintf("%s/%s/%s/%d/%v", k.ID, k.Flavour, k.Sec, len(k.Conns), k.Race)
}

func TestC13(t *testing.T) {
	r := run.New(t, "C13", "exploration")
	defer r.Finish()
	r.Rule("a case is non-trivial when the victim stored at least one address it learned from P's generated messages, reached a cap, completed a connected-lifetime or after-disconnect expiry check with addresses present, or had IdentifyWait channels to release")
	r.Assume("multiaddr/protobuf/envelope parsing libraries are trusted for classifying what P sent",
		"the swarm reports Connectedness truthfully (C06)", "crypto primitives are trusted (C08)",
		"pstoremem address-book TTL semantics are trusted (C09); the peerstore is observed only through its public interface")

	raceOnly := os.Getenv("VERIF_RACE") == "1"
	s := &state{t: t, r: r, pool: sectest.NewPool(3)}
	n := r.Pick(6000, 120000)
	if raceOnly {
		n = r.Pick(600, 12000)
	}

	verifhook.Set(hookConsume, func(_ string, arg any) {
		if c, ok := arg.(network.Conn); ok {
			if w, ok := worlds.Load(c.LocalPeer()); ok {
				w.(*world).hookConsume(c)
			}
		}
	})
	verifhook.Set(hookDisc, func(_ string, arg any) {
		if c, ok := arg.(network.Conn); ok {
			if w, ok := worlds.Load(c.LocalPeer()); ok {
				w.(*world).hookDisconnected(c)
			}
		}
	})
	defer verifhook.Set(hookConsume, nil)
	defer verifhook.Set(hookDisc, nil)

	// warm-up: one plain case, also tells whether the hook call sites exist in this tree
	if !r.Replaying() {
		k := s.genCase(1<<30, false)
		k.ID = "warmup"
		w, res := s.runCase(k)
		s.judge(k, w, res)
	}
	r.Extra("hook_call_sites_present", verifhookPresent())

	var sampleMu sync.Mutex
	sampled := map[string]bool{}
	run.Parallel(n, 0, func(i int) {
		id := fmt.Sprintf("case/%d", i)
		if !r.Want(id) || r.TooMany() {
			return
		}
		k := s.genCase(i, raceOnly)
		w, res := s.runCase(k)
		ok := s.judge(k, w, res)
		sampleMu.Lock()
		take := ok && !sampled[k.Flavour] && (k.Flavour == "race-final" || k.Flavour == "attrib" || k.Flavour == "keeper") && i >= 12
		if take {
			sampled[k.Flavour] = true
		}
		sampleMu.Unlock()
		if take {
			r.Sample(map[string]any{"case": k, "events": w.log, "counters": w.counts})
		}
	})

	r.Extra("hook_hits", map[string]int64{hookConsume: verifhook.Hits(hookConsume), hookDisc: verifhook.Hits(hookDisc)})
	r.Extra("gomaxprocs_runtime", runtime.GOMAXPROCS(0))
	if r.Replaying() {
		return
	}
	if raceOnly {
		// the race-detector pass runs the concurrent flavours only
		r.Require("identify_completed", n)
		r.Require("race_phases", n/4)
		r.Require("final_expiry_checks_with_addresses_raced", n/20)
		return
	}
	q := func(quick, thorough int) int { return r.Pick(quick, thorough) }
	r.Require("identify_completed", q(6000, 120000))
	r.Require("identify_failed", q(600, 12000))
	r.Require("addrs_observed_from_listen", q(100000, 2000000))
	r.Require("addrs_observed_from_signed-record", q(30000, 600000))
	r.Require("msgs_with_foreign_record", q(4000, 80000))
	r.Require("msgs_with_foreign_key", q(4000, 80000))
	r.Require("msgs_with_foreign_suffix", q(5000, 100000))
	r.Require("protocols_at_cap", q(40, 800))
	r.Require("addresses_at_connected_cap", q(30, 600))
	r.Require("after_disconnect_trimmed_to_20", q(300, 6000))
	r.Require("retained_checks_with_addresses", q(200, 4000))
	r.Require("final_expiry_checks_with_addresses", q(1200, 24000))
	r.Require("final_expiry_checks_with_the_address_book_full", q(100, 2000))
	r.Require("last_disconnects_after_identify_service_closed_with_addresses", q(60, 1200))
	r.Require("final_expiry_checks_with_addresses_raced", q(400, 8000))
	r.Require("identify_wait_released_by_timeout", q(60, 1200))
	r.Require("identify_wait_released_promptly", q(4000, 80000))
	r.Require("identify_completed_after_last_disconnect", q(40, 800))
	r.Require("close_triggered_by_protocols_event", q(60, 1200))
	r.Require("closed_at_chunk_boundary", q(30, 600))
	r.Require("keyless_key_stored_again", q(300, 6000))
	for _, c := range []string{"pub", "priv", "loop"} {
		r.Require("remote_class_"+c, q(800, 16000))
	}
	if verifhookPresent() {
		r.Require("race_consume_locks_after_last_conn_gone", q(200, 4000))
		r.Require("race_consume_locks_while_connected", q(400, 8000))
		r.Require("close_triggered_inside_consume_window", q(300, 6000))
	}
}

// judge turns what the world recorded into evidence and violations.
func (s *state) judge(k *kase, w *world, res run.BubbleResult) bool {
	r := s.r
	r.Eval(1)
	detail := func(extra map[string]any) map[string]any {
		d := map[string]any{"case": k, "events": w.log, "counters": w.counts}
		for kk, v := range extra {
			d[kk] = v
		}
		return d
	}
	if r.BubbleFailed(res, "bubble", k.ID, "goroutines of the case never finished (identify-wait or a stream handler blocked for good)", detail(nil)) {
		return false
	}
	if w.inconclusive != "" {
		r.Inconclusive(k.ID, w.inconclusive)
		return false
	}
	for name, n := range w.counts {
		r.Count(name, n)
	}
	r.Count("remote_class_"+k.PClass, 1)
	r.Count("flavour_"+k.Flavour, 1)
	r.Count("config_"+k.Sec+"_"+k.PClass+"_P"+k.cast.P.Type, 1)
	msgs := []*msgSpec{}
	for _, c := range k.Conns {
		msgs = append(msgs, c.Resp)
	}
	for _, p := range k.PushesA {
		msgs = append(msgs, p.Msg)
	}
	for _, p := range []*pushSpec{k.PushB, k.FinalPush} {
		if p != nil {
			msgs = append(msgs, p.Msg)
		}
	}
	for _, m := range msgs {
		r.Count("shape_"+m.Shape, 1)
		r.Count("end_"+m.End, 1)
		r.Count(fmt.Sprintf("chunks_%02d", len(m.Chunks)), 1)
		foreignRec, foreignKey, foreignSfx := false, false, false
		for _, nt := range m.Notes {
			switch {
			case len(nt) > 17 && nt[:17] == "signedPeerRecord:":
				var kind string
				fmt.Sscanf(nt[18:], "%s", &kind)
				kind = trimComma(kind)
				r.Count("record_kind_"+kind, 1)
				if kind != "own" && kind != "own-lowseq" {
					foreignRec = true
				}
			case len(nt) > 13 && nt[:13] == "publicKey of ":
				foreignKey = true
			case len(nt) > 12 && nt[:12] == "listenAddrs:":
				var tot, own, fs int
				fmt.Sscanf(nt, "listenAddrs: %d total, %d own-suffix, %d foreign-suffix", &tot, &own, &fs)
				if fs > 0 {
					foreignSfx = true
				}
			}
		}
		if foreignRec {
			r.Count("msgs_with_foreign_record", 1)
		}
		if foreignKey {
			r.Count("msgs_with_foreign_key", 1)
		}
		if foreignSfx {
			r.Count("msgs_with_foreign_suffix", 1)
		}
	}
	if w.nonT {
		r.Nontrivial(k.hash())
	}
	for _, v := range w.viol {
		r.Violation(v.sig, k.ID, v.msg, detail(v.detail))
	}
	return len(w.viol) == 0
}

func trimComma(s string) string {
	for len(s) > 0 && s[len(s)-1] == ',' {
		s = s[:len(s)-1]
	}
	return s
}
