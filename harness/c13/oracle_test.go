package c13

// The oracle. It is written from the statement of C13 and looks only at (a) the victim's peerstore
// through its public interface, (b) the claim log of what P put on the wire (annotated with the true
// origin of every item at generation time), (c) virtual time.

import (
	"crypto/sha256"
	"encoding/hex"
	"fmt"
	"sort"
	"strings"
	"time"

	"github.com/libp2p/go-libp2p/core/crypto"
	"github.com/libp2p/go-libp2p/core/peer"
	"github.com/libp2p/go-libp2p/core/peerstore"
	ma "github.com/multiformats/go-multiaddr"
	manet "github.com/multiformats/go-multiaddr/net"
)

// caps of the statement ("the numbers of protocols and addresses retained per peer are capped";
// DESIGN.md C13: 1024 protocols, 500 addresses while connected, 20 after the last disconnect).
const (
	capProtocols      = 1024
	capAddrsConnected = 500
	capAddrsAfterDisc = 20
)

type peerSnap struct {
	Addrs  []string          `json:"addrs"`
	Protos []string          `json:"protocols"`
	Meta   map[string]string `json:"metadata"`
	PubKey string            `json:"pubkey"`
	Record string            `json:"signed_record"`
}

func digest(b []byte) string {
	if len(b) == 0 {
		return ""
	}
	h := sha256.Sum256(b)
	return hex.EncodeToString(h[:8])
}

func snapPeer(ps peerstore.Peerstore, p peer.ID) peerSnap {
	var s peerSnap
	for _, a := range ps.Addrs(p) {
		s.Addrs = append(s.Addrs, a.String())
	}
	sort.Strings(s.Addrs)
	protos, _ := ps.GetProtocols(p)
	for _, pr := range protos {
		s.Protos = append(s.Protos, string(pr))
	}
	sort.Strings(s.Protos)
	s.Meta = map[string]string{}
	for _, key := range []string{"AgentVersion", "ProtocolVersion"} {
		if v, err := ps.Get(p, key); err == nil {
			s.Meta[key] = fmt.Sprint(v)
		} else {
			s.Meta[key] = "<absent>"
		}
	}
	if k := ps.PubKey(p); k != nil {
		b, _ := crypto.MarshalPublicKey(k)
		s.PubKey = digest(b)
	}
	if cab, ok := peerstore.GetCertifiedAddrBook(ps); ok {
		if env := cab.GetPeerRecord(p); env != nil {
			b, _ := env.Marshal()
			s.Record = digest(b)
		}
	}
	return s
}

// others: every peer the victim's peerstore knows or that the case talks about, except P.
func (w *world) others() []peer.ID {
	c := w.cast
	seen := map[peer.ID]bool{c.P.ID: true}
	var out []peer.ID
	add := func(p peer.ID) {
		if !seen[p] {
			seen[p] = true
			out = append(out, p)
		}
	}
	for _, p := range []peer.ID{c.Self.ID, c.X.ID, c.Y.ID, c.Z.ID} {
		add(p)
	}
	for _, p := range w.vps.Peers() {
		add(p)
	}
	for _, p := range w.vps.PeersWithAddrs() {
		add(p)
	}
	return out
}

func (w *world) takeBaseline() {
	for _, p := range w.others() {
		w.baseline[p] = snapPeer(w.vps, p)
	}
}

func (w *world) name(p peer.ID) string {
	c := w.cast
	switch p {
	case c.P.ID:
		return "P"
	case c.X.ID:
		return "X"
	case c.Y.ID:
		return "Y"
	case c.Z.ID:
		return "Z"
	case c.Self.ID:
		return "self"
	}
	return "unknown:" + p.String()
}

// learnedAddrs: addresses currently returned for P that the victim can only have from identify
// (not put there by the application / the dial), keyed by bytes.
func (w *world) learnedAddrs() map[string]string {
	out := map[string]string{}
	w.mu.Lock()
	defer w.mu.Unlock()
	for _, a := range w.vps.Addrs(w.cast.P.ID) {
		if k := string(a.Bytes()); !w.seededP[k] {
			out[k] = a.String()
		}
	}
	return out
}

type obs struct {
	afterDisconnect bool
	raced           bool
	// the victim had already been without any connection to P earlier in the case: a message consumed in
	// such a gap is stored with the finite lifetime and is not trimmed by a LATER disconnect (it is bounded
	// by the per-message and peerstore caps), so the tight number is not what the statement promises there
	zeroBefore bool
	hadLearned      int
}

// observe checks, at a quiescent point, everything the statement says about the peerstore contents.
func (w *world) observe(label string, o obs) {
	now := time.Now()
	P := w.cast.P.ID
	ps := w.vps
	w.count("observations", 1)

	// (1) "what it carries is recorded only under the authenticated remote peer ...: addresses,
	// protocols and agent data are never attributed to another peer": every entry of every peer
	// other than P is exactly what it was before P said anything (seeded addresses with a finite
	// TTL run out on their own schedule).
	for _, q := range w.others() {
		got := snapPeer(ps, q)
		want, known := w.baseline[q]
		if !known {
			want = peerSnap{Meta: map[string]string{"AgentVersion": "<absent>", "ProtocolVersion": "<absent>"}}
		}
		field := ""
		switch {
		case strings.Join(got.Protos, "\x00") != strings.Join(want.Protos, "\x00"):
			field = "protocols"
		case got.Meta["AgentVersion"] != want.Meta["AgentVersion"]:
			field = "agent-version"
		case got.Meta["ProtocolVersion"] != want.Meta["ProtocolVersion"]:
			field = "protocol-version"
		case got.PubKey != want.PubKey:
			field = "public-key"
		case got.Record != want.Record:
			field = "signed-record"
		}
		if field == "" {
			if q == w.cast.Self.ID {
				if strings.Join(got.Addrs, " ") != strings.Join(want.Addrs, " ") {
					field = "addresses"
				}
			} else {
				// expected addresses: the seeded ones that have not run out
				exp := map[string]bool{}
				unsure := map[string]bool{}
				for _, sa := range w.seeded[q] {
					d := sa.expiry.Sub(now)
					switch {
					case d > -time.Second && d < time.Second:
						unsure[sa.a.String()] = true
					case d > 0:
						exp[sa.a.String()] = true
					}
				}
				gotSet := map[string]bool{}
				for _, a := range got.Addrs {
					gotSet[a] = true
					if !exp[a] && !unsure[a] {
						field = "addresses(added-or-prolonged)"
					}
				}
				for a := range exp {
					if !gotSet[a] {
						field = "addresses(removed-or-shortened)"
					}
				}
			}
		}
		if field != "" {
			w.violate("attribution:other-peer-changed:"+field, fmt.Sprintf("[%s] peerstore entry (%s) of %s, who is not the authenticated remote, differs from what it was before P's messages", label, field, w.name(q)),
				map[string]any{"peer": w.name(q), "at": label, "before": want, "now": got})
		}
		if len(got.Protos) > capProtocols {
			w.violate("cap:protocols", fmt.Sprintf("[%s] %d protocols stored for %s", label, len(got.Protos), w.name(q)), nil)
		}
	}

	// (2) "a public key is stored only if it hashes to that peer's ID"
	for _, q := range append(w.others(), P) {
		if k := ps.PubKey(q); k != nil {
			if id, err := peer.IDFromPublicKey(k); err != nil || id != q {
				w.violate("pubkey:stored-key-does-not-hash-to-peer", fmt.Sprintf("[%s] the public key stored for %s hashes to %s", label, w.name(q), w.name(id)), map[string]any{"peer": w.name(q), "at": label})
			}
		}
	}
	if k := ps.PubKey(P); k != nil && w.k.Keyless {
		w.count("keyless_key_stored_again", 1)
	}

	// (3) addresses under P: only unsigned listen addresses of P's own messages (no /p2p suffix or
	// P's own) and addresses of records that validate, were signed by P and name P; "a signed peer
	// record is used only if it validates and was signed by that peer". The model is a relation: the
	// statement does not say WHICH of the legitimate sources wins, so any subset is accepted.
	addrs := ps.Addrs(P)
	learned := 0
	bySrc := map[string]int{}
	byClass := map[string]int{}
	w.mu.Lock()
	seededP := make(map[string]bool, len(w.seededP))
	for kk := range w.seededP {
		seededP[kk] = true
	}
	w.mu.Unlock()
	for _, a := range addrs {
		if _, pid := peer.SplitAddr(a); pid != "" && pid != P {
			w.violate("addr-under-peer:stored-with-foreign-p2p-suffix", fmt.Sprintf("[%s] address %s stored under P", label, a), nil)
		}
		key := string(a.Bytes())
		if seededP[key] {
			continue
		}
		learned++
		if src := w.cl.okAddr[key]; src != "" {
			bySrc[src]++
			// evidence only (address classes are not part of the statement): which classes of P's
			// addresses survive identify's filter for this class of remote address
			switch {
			case manet.IsIPLoopback(a):
				byClass["loopback"]++
			case manet.IsPrivateAddr(a):
				byClass["private"]++
			case manet.IsPublicAddr(a):
				byClass["public"]++
			default:
				byClass["other"]++
			}
			continue
		}
		why := w.cl.badAddr[key]
		if why == "" {
			why = "never-claimed-by-P"
		}
		w.violate("addr-under-peer:"+why, fmt.Sprintf("[%s] address %s is stored under P although its only origin is: %s", label, a, why), map[string]any{"address": a.String(), "origin": why, "at": label})
	}
	for src, n := range bySrc {
		w.count("addrs_observed_from_"+src, n)
	}
	for cl, n := range byClass {
		w.count("stored_for_remote_"+w.k.PClass+"_addr_"+cl, n)
	}
	if bySrc["signed-record"] > 0 || bySrc["listen"] > 0 {
		w.nonT = true
	}

	// protocols and agent data under P come from P (or were there before)
	protos, _ := ps.GetProtocols(P)
	for _, pr := range protos {
		if !w.cl.protos[string(pr)] && !w.pProtos[string(pr)] {
			w.violate("attribution:protocol-under-peer-never-claimed", fmt.Sprintf("[%s] protocol %q stored under P was never claimed by P", label, pr), nil)
		}
	}
	if v, err := ps.Get(P, "AgentVersion"); err == nil {
		if s := fmt.Sprint(v); !w.cl.agents[s] && !w.pMeta[s] {
			w.violate("attribution:agent-under-peer-never-claimed", fmt.Sprintf("[%s] agent version %.40q stored under P was never claimed by P", label, s), nil)
		} else if w.cl.agents[s] {
			w.count("agent_version_of_P_observed", 1)
		}
	}

	// (4) "the numbers of protocols and addresses retained per peer are capped"
	if len(protos) > capProtocols {
		w.violate("cap:protocols", fmt.Sprintf("[%s] %d protocols stored for P (cap %d)", label, len(protos), capProtocols), map[string]any{"stored": len(protos), "at": label})
	}
	if len(protos) == capProtocols {
		w.count("protocols_at_cap", 1)
		w.nonT = true
	}
	if len(protos) > 128 {
		w.count("protocols_above_peerstore_default", 1)
	}
	if learned > capAddrsConnected {
		w.violate("cap:addresses", fmt.Sprintf("[%s] %d addresses learned from P are stored (cap %d)", label, learned, capAddrsConnected), map[string]any{"stored": learned, "at": label})
	}
	if learned == capAddrsConnected {
		w.count("addresses_at_connected_cap", 1)
		w.nonT = true
	}
	if o.afterDisconnect {
		// after the last disconnect identify keeps at most 20; when consumption raced with that
		// disconnect the statement only promises "capped" (a message consumed after the disconnect
		// handler ran is bounded by the per-message cap), so the tight number is demanded only when
		// nothing was in flight.
		if !o.raced && !o.zeroBefore {
			w.count("after_disconnect_tight_cap_demanded", 1)
		}
		if !o.raced && !o.zeroBefore && learned > capAddrsAfterDisc {
			w.violate("cap:addresses-after-disconnect", fmt.Sprintf("[%s] %d addresses learned from P are kept after the last connection closed (cap %d)", label, learned, capAddrsAfterDisc), map[string]any{"stored": learned, "before_disconnect": o.hadLearned})
		}
		if learned > capAddrsAfterDisc {
			w.count("after_disconnect_more_than_20_kept_in_raced_case", 1)
		}
		if o.hadLearned > capAddrsAfterDisc && learned == capAddrsAfterDisc {
			w.count("after_disconnect_trimmed_to_20", 1)
			w.nonT = true
		}
	}
	_ = ma.StringCast
}
