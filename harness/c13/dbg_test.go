package c13

import (
	"fmt"
	"os"
	"testing"

	"verif/harness/rig/run"
	"verif/harness/rig/sectest"
)

func TestDbg(t *testing.T) {
	r := run.New(t, "C13", "exploration")
	s := &state{t: t, r: r, pool: sectest.NewPool(2)}
	var idx int
	fmt.Sscan(os.Getenv("C13_CASE"), &idx)
	k := s.genCase(idx, false)
	w, res := s.runCase(k)
	fmt.Println("bubble", res.OK(), res.Deadlock, res.Wedged, res.Panic)
	for _, c := range k.Conns {
		fmt.Println("conn", c.Dir, c.Resp.summary(), c.Resp.Notes)
	}
	for _, e := range w.log {
		fmt.Println(e.At, e.What)
	}
	fmt.Println(w.counts)
	for _, v := range w.viol {
		fmt.Println("VIOL", v.sig, v.msg)
	}
}
