package c13

// Generator of hostile Identify messages. Everything a message carries is annotated at generation
// time with its ORIGIN (who it really belongs to), so that the oracle never has to ask the code under
// test what it thinks of a field.

import (
	"encoding/binary"
	"fmt"
	"math/rand/v2"
	"strings"

	"github.com/libp2p/go-libp2p/core/crypto"
	"github.com/libp2p/go-libp2p/core/peer"
	"github.com/libp2p/go-libp2p/core/record"
	"github.com/libp2p/go-libp2p/p2p/protocol/identify/pb"
	ma "github.com/multiformats/go-multiaddr"
	"google.golang.org/protobuf/proto"

	"verif/harness/rig/sectest"
)

const (
	idProto   = "/ipfs/id/1.0.0"
	pushProto = "/ipfs/id/push/1.0.0"
	chunkMax  = 8 * 1024 // identify's reader limit per chunk (signedIDSize)
)

// otherRec is a record type that is REGISTERED, uses the peer-record signing domain, but is not a
// peer.PeerRecord ("wrong payload type" that still validates as an envelope).
type otherRec struct{ payload []byte }

func (r *otherRec) Domain() string                 { return peer.PeerRecordEnvelopeDomain }
func (r *otherRec) Codec() []byte                  { return []byte{0x13, 0x37} }
func (r *otherRec) MarshalRecord() ([]byte, error) { return r.payload, nil }
func (r *otherRec) UnmarshalRecord(b []byte) error { r.payload = append([]byte(nil), b...); return nil }

// rawRec seals arbitrary (domain, codec, payload) triples.
type rawRec struct {
	domain  string
	codec   []byte
	payload []byte
}

func (r *rawRec) Domain() string                 { return r.domain }
func (r *rawRec) Codec() []byte                  { return r.codec }
func (r *rawRec) MarshalRecord() ([]byte, error) { return r.payload, nil }
func (r *rawRec) UnmarshalRecord(b []byte) error { r.payload = b; return nil }

func init() { record.RegisterType(&otherRec{}) }

// cast of one case. "P" is the authenticated remote, the others are potential victims of
// mis-attribution.
type cast struct {
	P, X, Y, Z *sectest.Key
	Self       *sectest.Key // the victim host itself
}

func (c *cast) byName(n string) *sectest.Key {
	switch n {
	case "P":
		return c.P
	case "X":
		return c.X
	case "Y":
		return c.Y
	case "Z":
		return c.Z
	case "self":
		return c.Self
	}
	return nil
}

// claimLog is the union of everything P has ever put on the wire in one case, by origin. It is
// the oracle's only knowledge about message contents.
type claimLog struct {
	// okAddr: stripped address bytes -> source, for addresses P may legitimately be known under:
	// unsigned listen addresses without /p2p suffix or with P's own, and addresses of signed records
	// that validate, were signed by P and name P.
	okAddr map[string]string
	// badAddr: stripped address bytes -> why an appearance under P refutes the statement.
	badAddr map[string]string
	protos  map[string]bool
	agents  map[string]bool
	pvers   map[string]bool
}

func newClaimLog() *claimLog {
	return &claimLog{okAddr: map[string]string{}, badAddr: map[string]string{}, protos: map[string]bool{}, agents: map[string]bool{}, pvers: map[string]bool{}}
}

func (cl *claimLog) addr(raw []byte, own peer.ID, okSrc, badSrc string) {
	a, err := ma.NewMultiaddrBytes(raw)
	if err != nil {
		return // unparsable: can be stored under nobody
	}
	base, pid := peer.SplitAddr(a)
	if base == nil {
		return
	}
	k := string(base.Bytes())
	if okSrc != "" && (pid == "" || pid == own) {
		cl.okAddr[k] = okSrc
		return
	}
	if okSrc != "" {
		cl.badAddr[k] = "foreign-p2p-suffix"
		return
	}
	cl.badAddr[k] = badSrc
}

// ---------------------------------------------------------------------------------------------

type chunkSpec struct {
	Desc    string `json:"carries"`
	Size    int    `json:"bytes"`
	LieLen  int    `json:"length_prefix_override,omitempty"`
	Pre     string `json:"before,omitempty"` // pause | close-remote | close-victim
	payload []byte
}

type msgSpec struct {
	Push   bool        `json:"push"`
	Shape  string      `json:"shape"`
	Chunks []chunkSpec `json:"chunks"`
	End    string      `json:"end"` // eof | reset | stall | connclose | eof+connclose | eof+victimclose | mute | refuse
	Notes  []string    `json:"notes"`
	// what a complete, accepted delivery would make the victim consume (evidence only)
	wellFormed bool
	nListen    int
	nProtos    int
	nRecAddrs  int
	recKind    string
}

type gen struct {
	rng    *rand.Rand
	cast   *cast
	cl     *claimLog
	ctr    int            // unique address counter of the case
	pclass string         // address class that survives filterAddrs for this remote (pub is always safe)
	xAddrs []ma.Multiaddr // addresses the victim already knows for X (tempting to replay)
	xRec   []byte         // X's genuine signed record, as stored by the victim
	seqHi  uint64
}

func (g *gen) pick(opts ...string) string { return opts[g.rng.IntN(len(opts))] }

// address of a class with a unique port/host part.
func (g *gen) addrOf(class string) ma.Multiaddr {
	g.ctr++
	n := g.ctr
	port := 1024 + n%60000
	hi, lo := (n/250)%250+1, n%250+1
	switch class {
	case "pub":
		return ma.StringCast(fmt.Sprintf("/ip4/8.%d.%d.%d/tcp/%d", n/62500%250, hi, lo, port))
	case "pub6":
		return ma.StringCast(fmt.Sprintf("/ip6/2606:4700::%x:%x/tcp/%d", hi, lo, port))
	case "priv":
		return ma.StringCast(fmt.Sprintf("/ip4/10.%d.%d.%d/tcp/%d", n/62500%250, hi, lo, port))
	case "priv6":
		return ma.StringCast(fmt.Sprintf("/ip6/fd00::%x:%x/tcp/%d", hi, lo, port))
	case "loop":
		return ma.StringCast(fmt.Sprintf("/ip4/127.%d.%d.%d/tcp/%d", n/62500%250, hi, lo, port))
	case "loop6":
		return ma.StringCast(fmt.Sprintf("/ip6/::1/tcp/%d", port))
	case "quic":
		return ma.StringCast(fmt.Sprintf("/ip4/9.%d.%d.%d/udp/%d/quic-v1", n/62500%250, hi, lo, port))
	case "dns":
		return ma.StringCast(fmt.Sprintf("/dns4/h%d.example.com/tcp/%d", n, port))
	case "circuit":
		return ma.StringCast(fmt.Sprintf("/ip4/8.8.%d.%d/tcp/%d/p2p/%s/p2p-circuit", hi, lo, port, g.cast.Z.ID))
	}
	panic(class)
}

func (g *gen) mixedClass() string {
	return g.pick("pub", "pub", "pub", "priv", "priv", "loop", "pub6", "priv6", "loop6", "quic", "dns", "circuit")
}

func withSuffix(a ma.Multiaddr, id peer.ID) ma.Multiaddr {
	return a.Encapsulate(ma.StringCast("/p2p/" + id.String()))
}

// listen address list: n entries of the given class policy; a share carries own / foreign /p2p
// suffixes, garbage bytes, duplicates.
func (g *gen) listenAddrs(n int, policy string, notes *[]string) [][]byte {
	out := make([][]byte, 0, n)
	foreign, garbage, own, dup := 0, 0, 0, 0
	for i := 0; i < n; i++ {
		class := policy
		if policy == "mixed" {
			class = g.mixedClass()
		}
		a := g.addrOf(class)
		raw := a.Bytes()
		switch x := g.rng.IntN(100); {
		case x < 8:
			raw = withSuffix(a, g.cast.P.ID).Bytes()
			own++
		case x < 20 && n <= 200 || x < 10:
			who := g.pick("X", "X", "Y", "Z", "self")
			raw = withSuffix(a, g.cast.byName(who).ID).Bytes()
			foreign++
		case x < 24 && n <= 200:
			raw = []byte{0xff, 0xfe, byte(i), 0x01}
			if g.rng.IntN(2) == 0 {
				raw = a.Bytes()[:len(a.Bytes())-1] // truncated
			}
			garbage++
		case x < 27 && len(out) > 0:
			raw = out[g.rng.IntN(len(out))]
			dup++
		}
		out = append(out, raw)
	}
	// replay addresses the victim already stores for X (with and without X's suffix)
	if n <= 200 && len(g.xAddrs) > 0 && g.rng.IntN(3) == 0 {
		a := g.xAddrs[g.rng.IntN(len(g.xAddrs))]
		out = append(out, withSuffix(a, g.cast.X.ID).Bytes())
		foreign++
	}
	for _, raw := range out {
		g.cl.addr(raw, g.cast.P.ID, "listen", "")
	}
	if foreign+garbage+own+dup > 0 {
		*notes = append(*notes, fmt.Sprintf("listenAddrs: %d total, %d own-suffix, %d foreign-suffix, %d garbage, %d duplicates", len(out), own, foreign, garbage, dup))
	}
	return out
}

func (g *gen) protocols(n int, notes *[]string) []string {
	out := make([]string, 0, n+2)
	base := g.rng.IntN(1 << 20)
	for i := 0; i < n; i++ {
		switch x := g.rng.IntN(100); {
		case x < 3 && len(out) > 0 && n < 1000: // (no duplicates in cap-sized lists: identify cuts the LIST at its cap)
			out = append(out, out[g.rng.IntN(len(out))]) // duplicate
		case x < 4 && n < 100:
			out = append(out, "")
		case x < 5 && n < 100:
			out = append(out, "/c13/long/"+strings.Repeat("l", 300+g.rng.IntN(1500)))
		default:
			out = append(out, fmt.Sprintf("/c13/%x/%d", base, i))
		}
	}
	if g.rng.IntN(2) == 0 {
		out = append(out, pushProto)
	}
	if g.rng.IntN(3) == 0 {
		out = append(out, "/x/only/proto/1") // a protocol the victim stores for X
	}
	for _, p := range out {
		g.cl.protos[p] = true
	}
	return out
}

// signed peer record of a given kind. Returns bytes and the number of addresses inside.
func (g *gen) signedRecord(kind string, nAddrs int, policy string, notes *[]string) ([]byte, int) {
	c := g.cast
	mk := func(signer *sectest.Key, names peer.ID, seq uint64, addrs []ma.Multiaddr) []byte {
		env, err := record.Seal(&peer.PeerRecord{PeerID: names, Addrs: addrs, Seq: seq}, signer.Priv)
		if err != nil {
			panic(err)
		}
		b, err := env.Marshal()
		if err != nil {
			panic(err)
		}
		return b
	}
	addrs := make([]ma.Multiaddr, 0, nAddrs)
	for i := 0; i < nAddrs; i++ {
		class := policy
		if policy == "mixed" {
			class = g.mixedClass()
		}
		a := g.addrOf(class)
		if kind == "own-foreign-suffix" && i%2 == 0 {
			a = withSuffix(a, c.byName(g.pick("X", "Y", "self")).ID)
		} else if kind == "own" && g.rng.IntN(10) == 0 {
			a = withSuffix(a, c.P.ID)
		}
		addrs = append(addrs, a)
	}
	g.seqHi++
	seq := 1000 + g.seqHi
	valid := false
	var b []byte
	switch kind {
	case "own", "own-foreign-suffix":
		b, valid = mk(c.P, c.P.ID, seq, addrs), true
	case "own-lowseq": // lower than the record the victim may have stored for P beforehand
		b, valid = mk(c.P, c.P.ID, 1, addrs), true
	case "byX-namesX":
		if g.xRec != nil && g.rng.IntN(2) == 0 {
			b, addrs = g.xRec, nil // X's genuine record, exactly as the victim already stores it
		} else {
			b = mk(c.X, c.X.ID, seq, addrs)
		}
	case "byP-namesX":
		b = mk(c.P, c.X.ID, seq, addrs)
	case "byP-namesSelf":
		b = mk(c.P, c.Self.ID, seq, addrs)
	case "byX-namesP":
		b = mk(c.X, c.P.ID, seq, addrs)
	case "byY-namesP":
		b = mk(c.Y, c.P.ID, seq, addrs)
	case "wrong-domain":
		pr := &peer.PeerRecord{PeerID: c.P.ID, Addrs: addrs, Seq: seq}
		payload, _ := pr.MarshalRecord()
		env, err := record.Seal(&rawRec{domain: "libp2p-not-a-peer-record", codec: peer.PeerRecordEnvelopePayloadType, payload: payload}, c.P.Priv)
		if err != nil {
			panic(err)
		}
		b, _ = env.Marshal()
	case "unregistered-type":
		pr := &peer.PeerRecord{PeerID: c.P.ID, Addrs: addrs, Seq: seq}
		payload, _ := pr.MarshalRecord()
		env, err := record.Seal(&rawRec{domain: peer.PeerRecordEnvelopeDomain, codec: []byte{0x7e, 0x7e}, payload: payload}, c.P.Priv)
		if err != nil {
			panic(err)
		}
		b, _ = env.Marshal()
	case "other-type":
		pr := &peer.PeerRecord{PeerID: c.P.ID, Addrs: addrs, Seq: seq}
		payload, _ := pr.MarshalRecord()
		env, err := record.Seal(&otherRec{payload: payload}, c.P.Priv)
		if err != nil {
			panic(err)
		}
		b, _ = env.Marshal()
	case "corrupted":
		b = mk(c.P, c.P.ID, seq, addrs)
		// flip one bit in the last 16 bytes (the signature is the envelope's last field)
		b[len(b)-1-g.rng.IntN(16)] ^= 1 << uint(g.rng.IntN(8))
	case "garbage":
		b = make([]byte, 40+g.rng.IntN(200))
		for i := range b {
			b[i] = byte(g.rng.IntN(256))
		}
		addrs = nil
	default:
		panic("record kind " + kind)
	}
	for _, a := range addrs {
		if valid {
			g.cl.addr(a.Bytes(), c.P.ID, "signed-record", "")
		} else {
			g.cl.addr(a.Bytes(), c.P.ID, "", "record:"+kind)
		}
	}
	*notes = append(*notes, fmt.Sprintf("signedPeerRecord: %s, %d addrs, %d bytes", kind, len(addrs), len(b)))
	return b, len(addrs)
}

var recKinds = []string{"own", "own", "own", "own-lowseq", "own-foreign-suffix", "byX-namesX", "byP-namesX", "byP-namesSelf", "byX-namesP", "byY-namesP",
	"wrong-domain", "unregistered-type", "other-type", "corrupted", "garbage"}

func (g *gen) pubKey(kind string) []byte {
	var k crypto.PubKey
	switch kind {
	case "own":
		k = g.cast.P.Pub
	case "X":
		k = g.cast.X.Pub
	case "Y":
		k = g.cast.Y.Pub
	case "self":
		k = g.cast.Self.Pub
	case "garbage":
		return []byte{0x08, 0x63, 0x12, 0x03, 1, 2, 3}
	case "empty":
		return []byte{}
	}
	b, err := crypto.MarshalPublicKey(k)
	if err != nil {
		panic(err)
	}
	return b
}

// message builds one logical Identify message and splits it into chunks.
//
//	shape: small | medium | empty | cap-protos | cap-listen | cap-record | oversize | manychunks | garbage
func (g *gen) message(push bool, shape string) *msgSpec {
	m := &msgSpec{Push: push, Shape: shape, End: "eof", wellFormed: true}
	rng := g.rng
	type scalar struct {
		field string
		val   []byte
		desc  string
	}
	var scalars []scalar
	var listen [][]byte
	var protos []string
	policy := "mixed"
	nL, nP, nR := 0, 0, 0
	recKind := "none"
	switch shape {
	case "empty":
	case "small":
		nL, nP = rng.IntN(9), rng.IntN(12)
	case "medium":
		nL, nP = 21+rng.IntN(100), 30+rng.IntN(120)
		policy = g.pick("mixed", "pub", g.pclass)
	case "cap-protos":
		nL, nP = rng.IntN(4), 1020+rng.IntN(12)
		if rng.IntN(3) == 0 {
			nP = 1025 + rng.IntN(2000)
		}
	case "cap-listen":
		nL, nP = 498+rng.IntN(8), rng.IntN(4)
		if rng.IntN(3) == 0 {
			nL = 505 + rng.IntN(1000)
		}
		policy = g.pick("pub", g.pclass)
	case "cap-record":
		nL, nP, nR = rng.IntN(30), rng.IntN(4), 498+rng.IntN(8)
		if rng.IntN(3) == 0 {
			nR = 505 + rng.IntN(50)
		}
		policy = g.pick("pub", g.pclass)
		recKind = "own"
	case "oversize", "manychunks", "garbage":
		nL, nP = rng.IntN(9), rng.IntN(12)
	}
	if nL > 0 {
		listen = g.listenAddrs(nL, policy, &m.Notes)
	}
	if nP > 0 {
		protos = g.protocols(nP, &m.Notes)
	}
	// scalars: each may be absent, present once, or present in several chunks with different values
	addScalar := func(field string, val []byte, desc string) {
		scalars = append(scalars, scalar{field, val, desc})
	}
	if shape != "empty" {
		for i, n := 0, []int{0, 1, 1, 1, 2}[rng.IntN(5)]; i < n; i++ {
			v := fmt.Sprintf("agent-%d-%d", g.ctr, rng.IntN(1000))
			if rng.IntN(12) == 0 {
				v += strings.Repeat("A", 2000+rng.IntN(4000))
			}
			g.cl.agents[v] = true
			addScalar("agent", []byte(v), "agentVersion")
		}
		for i, n := 0, []int{0, 1, 1, 2}[rng.IntN(4)]; i < n; i++ {
			v := fmt.Sprintf("pv-%d/%d", g.ctr, rng.IntN(1000))
			g.cl.pvers[v] = true
			addScalar("pver", []byte(v), "protocolVersion")
		}
		for i, n := 0, []int{0, 1, 1, 1, 2}[rng.IntN(5)]; i < n; i++ {
			k := g.pick("own", "own", "own", "X", "X", "Y", "self", "garbage", "empty")
			addScalar("key", g.pubKey(k), "publicKey="+k)
			if k != "own" {
				m.Notes = append(m.Notes, "publicKey of "+k)
			}
		}
		if rng.IntN(2) == 0 {
			var v []byte
			switch rng.IntN(4) {
			case 0:
				v = []byte{0xff, 0x00, 0x01}
			case 1:
				v = withSuffix(g.addrOf("pub"), g.cast.X.ID).Bytes()
			default:
				v = g.addrOf(g.mixedClass()).Bytes()
			}
			addScalar("obs", v, "observedAddr")
		}
		nrec := 0
		if recKind == "own" {
			nrec = 1
		} else if shape == "small" || shape == "medium" {
			nrec = []int{0, 0, 1, 1, 1, 2}[rng.IntN(6)]
		}
		for i := 0; i < nrec; i++ {
			kind := recKind
			if kind != "own" || i > 0 {
				kind = recKinds[rng.IntN(len(recKinds))]
			}
			n := nR
			if n == 0 {
				n = rng.IntN(7)
				if shape == "medium" {
					n = 21 + rng.IntN(60)
				}
			}
			b, na := g.signedRecord(kind, n, policy, &m.Notes)
			m.nRecAddrs, m.recKind = na, kind
			addScalar("rec", b, "signedPeerRecord="+kind)
		}
	}
	m.nListen, m.nProtos = len(listen), len(protos)

	// ---- chunking: repeated fields are split (proto.Merge appends), scalars go to random chunks
	// (later chunks overwrite earlier ones).
	type item struct {
		kind string
		b    []byte
		size int
	}
	var items []item
	for _, l := range listen {
		items = append(items, item{"listen", l, len(l) + 3})
	}
	for _, p := range protos {
		items = append(items, item{"proto", []byte(p), len(p) + 3})
	}
	if rng.IntN(3) == 0 { // interleave instead of all addrs first
		rng.Shuffle(len(items), func(i, j int) { items[i], items[j] = items[j], items[i] })
	}
	total := 0
	for _, it := range items {
		total += it.size
	}
	for _, s := range scalars {
		total += len(s.val) + 4
	}
	nChunks := 1 + rng.IntN(3)
	if rng.IntN(4) == 0 {
		nChunks = 1 + rng.IntN(9)
	}
	if need := total/6000 + 1; nChunks < need {
		nChunks = need
	}
	if shape == "manychunks" {
		nChunks = 10 + rng.IntN(3)
		m.wellFormed = false
	}
	if nChunks > 9 && shape != "manychunks" {
		nChunks = 9 // may overflow a chunk: then the message is refused, which is a legal path too
	}
	chunks := make([]*pb.Identify, nChunks)
	descs := make([][]string, nChunks)
	for i := range chunks {
		chunks[i] = &pb.Identify{}
	}
	// contiguous split of the repeated items, sizes balanced with jitter
	ci, used := 0, 0
	budget := total/nChunks + 64
	for _, it := range items {
		if used+it.size > budget && ci < nChunks-1 {
			ci, used = ci+1, 0
		}
		used += it.size
		if it.kind == "listen" {
			chunks[ci].ListenAddrs = append(chunks[ci].ListenAddrs, it.b)
		} else {
			chunks[ci].Protocols = append(chunks[ci].Protocols, string(it.b))
		}
	}
	for _, s := range scalars {
		at := rng.IntN(nChunks)
		c := chunks[at]
		switch s.field {
		case "agent":
			v := string(s.val)
			c.AgentVersion = &v
		case "pver":
			v := string(s.val)
			c.ProtocolVersion = &v
		case "key":
			c.PublicKey = s.val
		case "obs":
			c.ObservedAddr = s.val
		case "rec":
			c.SignedPeerRecord = s.val
		}
		descs[at] = append(descs[at], s.desc)
	}
	for i, c := range chunks {
		b, err := proto.Marshal(c)
		if err != nil {
			panic(err)
		}
		d := fmt.Sprintf("listenAddrs=%d protocols=%d %s", len(c.ListenAddrs), len(c.Protocols), strings.Join(descs[i], " "))
		m.Chunks = append(m.Chunks, chunkSpec{Desc: d, Size: len(b), payload: b})
		if len(b) > chunkMax {
			m.wellFormed = false
		}
	}
	switch shape {
	case "oversize":
		m.wellFormed = false
		at := rng.IntN(len(m.Chunks))
		switch rng.IntN(3) {
		case 0: // a real oversized chunk
			v := strings.Repeat("V", chunkMax+1+rng.IntN(2000))
			b, _ := proto.Marshal(&pb.Identify{AgentVersion: &v})
			g.cl.agents[v] = true
			m.Chunks[at] = chunkSpec{Desc: "agentVersion oversized", Size: len(b), payload: b}
		case 1: // a length prefix that promises more than is sent
			m.Chunks[at].LieLen = m.Chunks[at].Size + 1 + rng.IntN(5000)
		default: // a huge length prefix
			m.Chunks[at].LieLen = 1 << 30
		}
	case "garbage":
		m.wellFormed = false
		at := rng.IntN(len(m.Chunks))
		b := make([]byte, 1+rng.IntN(300))
		for i := range b {
			b[i] = byte(rng.IntN(256))
		}
		b[0] = 0x0f // wire type 7: never valid protobuf
		m.Chunks[at] = chunkSpec{Desc: "garbage bytes", Size: len(b), payload: b}
	}
	return m
}

func (m *msgSpec) summary() string {
	var sb strings.Builder
	fmt.Fprintf(&sb, "%s/%s chunks=%d end=%s", map[bool]string{false: "response", true: "push"}[m.Push], m.Shape, len(m.Chunks), m.End)
	return sb.String()
}

func uvarint(n int) []byte {
	var b [binary.MaxVarintLen64]byte
	return b[:binary.PutUvarint(b[:], uint64(n))]
}
