package c01

import (
	"context"
	"crypto/ecdsa"
	"crypto/elliptic"
	"crypto/rand"
	"crypto/tls"
	"crypto/x509"
	"crypto/x509/pkix"
	"encoding/asn1"
	"encoding/binary"
	"fmt"
	"io"
	"math/big"
	"net"
	"strings"
	"sync"
	"testing"
	"time"

	"github.com/flynn/noise"
	"github.com/libp2p/go-libp2p/core/crypto"
	"github.com/libp2p/go-libp2p/core/network"
	"github.com/libp2p/go-libp2p/core/peer"
	"github.com/libp2p/go-libp2p/core/sec"
	"github.com/libp2p/go-libp2p/p2p/net/upgrader"
	"github.com/libp2p/go-libp2p/p2p/security/noise/pb"
	libp2ptls "github.com/libp2p/go-libp2p/p2p/security/tls"
	"google.golang.org/protobuf/proto"

	"verif/harness/rig/memnet"
	"verif/harness/rig/run"
	"verif/harness/rig/sectest"
)

// ---------------------------------------------------------------------------------------------
// cross-session swap: two sessions run concurrently in one bubble; the j-th frame of direction d of
// each is replaced by the other's.

type rendezvous struct {
	mu   sync.Mutex
	slot [2]chan []byte
}

func newRendezvous() *rendezvous {
	return &rendezvous{slot: [2]chan []byte{make(chan []byte, 1), make(chan []byte, 1)}}
}

// exchange deposits my frame and takes the other session's (nil after 5 virtual seconds).
func (rv *rendezvous) exchange(me int, f []byte) []byte {
	rv.slot[me] <- append([]byte(nil), f...)
	select {
	case g := <-rv.slot[1-me]:
		return g
	case <-time.After(5 * time.Second):
		return nil
	}
}

func (s *state) swapSessions() {
	type pairing struct {
		name           string
		i1, r1, i2, r2 *sectest.Key
	}
	var cases []func()
	for _, proto := range []string{"noise", "tls"} {
		types := [][2]string{{"ed25519", "ed25519"}, {"ecdsa", "rsa"}, {"secp256k1", "ed25519"}}
		if !s.r.Quick() {
			types = nil
			for _, a := range sectest.KeyTypes {
				for _, b := range sectest.KeyTypes {
					types = append(types, [2]string{a, b})
				}
			}
		}
		for _, tt := range types {
			p := s.pool
			pairings := []pairing{
				{"same-identities", p[tt[0]][0], p[tt[1]][1], p[tt[0]][0], p[tt[1]][1]},
				{"same-responder", p[tt[0]][0], p[tt[1]][1], p[tt[0]][2], p[tt[1]][1]},
				{"different-identities", p[tt[0]][0], p[tt[1]][1], p[tt[1]][2], p[tt[0]][2]},
			}
			// dry run to learn the number of handshake frames
			dry := hsCase{ID: fmt.Sprintf("swap/%s/%s-%s/dry", proto, tt[0], tt[1]), Proto: proto, Init: mkSide(p[tt[0]][0], "matching", p[tt[1]][1].ID), Resp: mkSide(p[tt[1]][1], "empty", "")}
			dres := runCase(s.t, &dry, nil)
			s.r.Eval(1)
			if !(dres.Init.OK && dres.Resp.OK) {
				s.r.Inconclusive(dry.ID, "dry run did not complete")
				continue
			}
			for _, pg := range pairings {
				for d := 0; d < 2; d++ {
					for j := 0; j < dres.HSFrames[d]; j++ {
						pg, d, j := pg, d, j
						cases = append(cases, func() {
							id := fmt.Sprintf("swap/%s/%s-%s/%s/dir%d/msg%d", proto, tt[0], tt[1], pg.name, d, j)
							if !s.r.Want(id) {
								return
							}
							c1 := &hsCase{ID: id + "/s1", Proto: proto, Init: mkSide(pg.i1, "matching", pg.r1.ID), Resp: mkSide(pg.r1, "empty", ""), Edit: &sectest.Edit{Dir: d, Msg: j, Kind: "swap"}}
							c2 := &hsCase{ID: id + "/s2", Proto: proto, Init: mkSide(pg.i2, "matching", pg.r2.ID), Resp: mkSide(pg.r2, "empty", ""), Edit: &sectest.Edit{Dir: d, Msg: j, Kind: "swap"}}
							var r1, r2 hsResult
							var identical bool
							br := run.Bubble(s.t, func(t *testing.T) {
								ctx, cancel := context.WithTimeout(context.Background(), 30*time.Second)
								defer cancel()
								rv := newRendezvous()
								var own [2][]byte
								mk := func(me int) func(int, []byte) []byte {
									return func(_ int, f []byte) []byte {
										own[me] = append([]byte(nil), f...)
										return rv.exchange(me, f)
									}
								}
								s1 := startSession(ctx, c1, &r1, mk(0))
								s2 := startSession(ctx, c2, &r2, mk(1))
								s1.wait()
								s2.wait()
								identical = own[0] != nil && string(own[0]) == string(own[1])
							})
							r1.Bubble, r2.Bubble = br, br
							s.r.Eval(1)
							if identical {
								// byte-identical frames (dummy change_cipher_spec): swapping them is a no-op
								r1.Applied, r2.Applied = false, false
								s.r.Count("swap_identical_frames", 1)
							}
							s.report(c1, &r1)
							s.report(c2, &r2)
							if r1.Applied && r2.Applied {
								s.r.Count("swaps_applied", 1)
								s.r.Count("edits_applied", 1)
								s.r.Nontrivial(id)
								v1, v2 := r1.Resp, r2.Resp
								if d == 1 {
									v1, v2 = r1.Init, r2.Init
								}
								if !v1.OK && !v2.OK {
									s.r.Count("edits_rejected_by_victim", 1)
								}
							} else if !identical {
								s.r.Count("swaps_not_applied", 1)
							}
						})
					}
				}
			}
		}
	}
	run.Parallel(len(cases), 0, func(i int) { cases[i]() })
}

// ---------------------------------------------------------------------------------------------
// active attacker, Noise: speaks Noise XX with flynn/noise directly.

var noiseSuite = noise.NewCipherSuite(noise.DH25519, noise.CipherChaChaPoly, noise.HashSHA256)

const noisePrefix = "noise-libp2p-static-key:"

func writeNoiseMsg(w io.Writer, b []byte) error {
	h := make([]byte, 2, 2+len(b))
	binary.BigEndian.PutUint16(h, uint16(len(b)))
	_, err := w.Write(append(h, b...))
	return err
}

func readNoiseMsg(r io.Reader) ([]byte, error) {
	h := make([]byte, 2)
	if _, err := io.ReadFull(r, h); err != nil {
		return nil, err
	}
	b := make([]byte, binary.BigEndian.Uint16(h))
	_, err := io.ReadFull(r, b)
	return b, err
}

type noisePayloadFn func(static noise.DHKey, victimStatic []byte, victim *pb.NoiseHandshakePayload) []byte

// noiseAttack runs the attacker's side of a Noise XX handshake. It returns what it learned about the
// victim (its payload and static key) when it got that far.
func noiseAttack(conn net.Conn, initiator bool, mk noisePayloadFn) (victim *pb.NoiseHandshakePayload, victimStatic []byte, static noise.DHKey, err error) {
	static, _ = noiseSuite.GenerateKeypair(rand.Reader)
	hs, err := noise.NewHandshakeState(noise.Config{CipherSuite: noiseSuite, Pattern: noise.HandshakeXX, Initiator: initiator, StaticKeypair: static})
	if err != nil {
		return
	}
	conn.SetDeadline(time.Now().Add(20 * time.Second))
	readPayload := func() error {
		m, e := readNoiseMsg(conn)
		if e != nil {
			return e
		}
		pt, _, _, e := hs.ReadMessage(nil, m)
		if e != nil {
			return e
		}
		if len(pt) > 0 {
			victim = new(pb.NoiseHandshakePayload)
			if e := proto.Unmarshal(pt, victim); e != nil {
				return e
			}
			victimStatic = hs.PeerStatic()
		}
		return nil
	}
	send := func(payload []byte) error {
		m, _, _, e := hs.WriteMessage(nil, payload)
		if e != nil {
			return e
		}
		return writeNoiseMsg(conn, m)
	}
	if initiator {
		if err = send(nil); err != nil {
			return
		}
		if err = readPayload(); err != nil {
			return
		}
		err = send(mk(static, victimStatic, victim))
	} else {
		if err = readPayload(); err != nil {
			return
		}
		if err = send(mk(static, nil, nil)); err != nil {
			return
		}
		err = readPayload()
	}
	if err == nil {
		// give the victim time to finish and fail its echo
		conn.SetReadDeadline(time.Now().Add(12 * time.Second))
		io.Copy(io.Discard, conn)
	}
	return
}

func mustMarshalPub(k *sectest.Key) []byte {
	b, err := crypto.MarshalPublicKey(k.Pub)
	if err != nil {
		panic(err)
	}
	return b
}

func mustSign(k *sectest.Key, msg []byte) []byte {
	sig, err := k.Priv.Sign(msg)
	if err != nil {
		panic(err)
	}
	return sig
}

func noisePayload(key, sig []byte) []byte {
	p := &pb.NoiseHandshakePayload{IdentityKey: key, IdentitySig: sig}
	b, err := proto.Marshal(p)
	if err != nil {
		panic(err)
	}
	return b
}

type attackOutcome struct {
	Victim sideResult `json:"victim"`
	AttErr string     `json:"attacker_err,omitempty"`
}

// reencodePub: the SAME public key in another legal protobuf spelling of the PublicKey message (an
// unknown field appended, or the two fields in the other order). A verifier that accepts it must still
// report the peer ID derived from the KEY, not from the bytes it happened to receive.
func reencodePub(k *sectest.Key, mode string) []byte {
	b := mustMarshalPub(k)
	if mode == "unknown-field" {
		return append(append([]byte(nil), b...), 0x78, 0x01)
	}
	// canonical form: 0x08 <type varint (1 byte)> 0x12 <len> <data>
	if len(b) > 2 && b[0] == 0x08 {
		return append(append([]byte(nil), b[2:]...), b[:2]...)
	}
	return b
}

func (s *state) attackerNoise() {
	type variant struct {
		name     string
		valid    bool // payload is a valid proof for the attacker's own identity K
		needsX   bool // uses (key, sig) of X learned from another session
		initOnly bool
		mk       func(K, X *sectest.Key, learned *pb.NoiseHandshakePayload) noisePayloadFn
	}
	variants := []variant{
		{name: "control-valid", valid: true, mk: func(K, X *sectest.Key, _ *pb.NoiseHandshakePayload) noisePayloadFn {
			return func(st noise.DHKey, _ []byte, _ *pb.NoiseHandshakePayload) []byte {
				return noisePayload(mustMarshalPub(K), mustSign(K, append([]byte(noisePrefix), st.Public...)))
			}
		}},
		{name: "control-valid-identity-key-reencoded/unknown-field", valid: true, mk: func(K, X *sectest.Key, _ *pb.NoiseHandshakePayload) noisePayloadFn {
			return func(st noise.DHKey, _ []byte, _ *pb.NoiseHandshakePayload) []byte {
				return noisePayload(reencodePub(K, "unknown-field"), mustSign(K, append([]byte(noisePrefix), st.Public...)))
			}
		}},
		{name: "control-valid-identity-key-reencoded/fields-reordered", valid: true, mk: func(K, X *sectest.Key, _ *pb.NoiseHandshakePayload) noisePayloadFn {
			return func(st noise.DHKey, _ []byte, _ *pb.NoiseHandshakePayload) []byte {
				return noisePayload(reencodePub(K, "fields-reordered"), mustSign(K, append([]byte(noisePrefix), st.Public...)))
			}
		}},
		{name: "copied-signature-of-other-session", needsX: true, mk: func(K, X *sectest.Key, learned *pb.NoiseHandshakePayload) noisePayloadFn {
			return func(noise.DHKey, []byte, *pb.NoiseHandshakePayload) []byte {
				return noisePayload(learned.IdentityKey, learned.IdentitySig)
			}
		}},
		{name: "foreign-key-attacker-signature", mk: func(K, X *sectest.Key, _ *pb.NoiseHandshakePayload) noisePayloadFn {
			return func(st noise.DHKey, _ []byte, _ *pb.NoiseHandshakePayload) []byte {
				return noisePayload(mustMarshalPub(X), mustSign(K, append([]byte(noisePrefix), st.Public...)))
			}
		}},
		{name: "signature-without-prefix", mk: func(K, X *sectest.Key, _ *pb.NoiseHandshakePayload) noisePayloadFn {
			return func(st noise.DHKey, _ []byte, _ *pb.NoiseHandshakePayload) []byte {
				return noisePayload(mustMarshalPub(K), mustSign(K, st.Public))
			}
		}},
		{name: "signature-with-tls-prefix", mk: func(K, X *sectest.Key, _ *pb.NoiseHandshakePayload) noisePayloadFn {
			return func(st noise.DHKey, _ []byte, _ *pb.NoiseHandshakePayload) []byte {
				return noisePayload(mustMarshalPub(K), mustSign(K, append([]byte("libp2p-tls-handshake:"), st.Public...)))
			}
		}},
		{name: "signature-over-victims-static-key", initOnly: true, mk: func(K, X *sectest.Key, _ *pb.NoiseHandshakePayload) noisePayloadFn {
			return func(_ noise.DHKey, vs []byte, _ *pb.NoiseHandshakePayload) []byte {
				return noisePayload(mustMarshalPub(K), mustSign(K, append([]byte(noisePrefix), vs...)))
			}
		}},
		{name: "reflected-victim-payload", initOnly: true, mk: func(K, X *sectest.Key, _ *pb.NoiseHandshakePayload) noisePayloadFn {
			return func(_ noise.DHKey, _ []byte, v *pb.NoiseHandshakePayload) []byte {
				return noisePayload(v.IdentityKey, v.IdentitySig)
			}
		}},
		{name: "empty-signature", mk: func(K, X *sectest.Key, _ *pb.NoiseHandshakePayload) noisePayloadFn {
			return func(noise.DHKey, []byte, *pb.NoiseHandshakePayload) []byte {
				return noisePayload(mustMarshalPub(K), nil)
			}
		}},
		{name: "missing-identity-key", mk: func(K, X *sectest.Key, _ *pb.NoiseHandshakePayload) noisePayloadFn {
			return func(st noise.DHKey, _ []byte, _ *pb.NoiseHandshakePayload) []byte {
				return noisePayload(nil, mustSign(K, append([]byte(noisePrefix), st.Public...)))
			}
		}},
	}
	type victimMode struct {
		name      string
		initiator bool // victim dials (attacker responds)
		expect    string
		disable   bool
	}
	modes := []victimMode{
		{"inbound-any", false, "empty", false},
		{"inbound-expects-X", false, "X", false},
		{"outbound-expects-X", true, "X", false},
		{"outbound-expects-K", true, "K", false},
		{"outbound-check-disabled", true, "X", true},
	}
	var jobs []func()
	for _, tk := range sectest.KeyTypes {
		for _, tx := range sectest.KeyTypes {
			if s.r.Quick() && tk != tx && tk != "ed25519" && tx != "ed25519" {
				continue
			}
			K, X, V := s.pool[tk][0], s.pool[tx][1], s.pool["ed25519"][2]
			for _, vr := range variants {
				for _, md := range modes {
					if vr.initOnly && md.initiator {
						continue // the attacker must be the initiator for these
					}
					vr, md := vr, md
					jobs = append(jobs, func() {
						id := fmt.Sprintf("attack/noise/K=%s/X=%s/%s/%s", tk, tx, vr.name, md.name)
						if !s.r.Want(id) {
							return
						}
						var out attackOutcome
						var reached bool
						br := run.Bubble(s.t, func(t *testing.T) {
							ctx, cancel := context.WithTimeout(context.Background(), 30*time.Second)
							defer cancel()
							var learned *pb.NoiseHandshakePayload
							if vr.needsX {
								// an honest-looking session with X: the attacker learns X's (key, signature) for X's static key of THAT session
								a, b := memnet.Pipe(addrI, addrR, 0)
								done := make(chan struct{})
								go func() {
									defer close(done)
									c, err := sectest.NewNoise(X).SecureInbound(ctx, b, "")
									if err == nil {
										c.Close()
									}
									b.Close()
								}()
								l, _, _, _ := noiseAttack(a, true, vr0valid(K))
								a.Close()
								<-done
								learned = l
								if learned == nil {
									return
								}
							}
							a, b := memnet.Pipe(addrI, addrR, 0)
							cfg := sideCfg{Key: V, DisableCheck: md.disable}
							switch md.expect {
							case "X":
								cfg.Expect = X.ID
							case "K":
								cfg.Expect = K.ID
							}
							vt := secFor("noise", cfg)
							var wg sync.WaitGroup
							wg.Add(1)
							go func() {
								defer wg.Done()
								var conn sec.SecureConn
								var err error
								if md.initiator {
									conn, err = vt.SecureOutbound(ctx, b, cfg.Expect)
								} else {
									conn, err = vt.SecureInbound(ctx, b, cfg.Expect)
								}
								out.Victim = finish(conn, err, b, "VICT", "XXXX")
							}()
							_, _, _, aerr := noiseAttack(a, !md.initiator, vr.mk(K, X, learned))
							if aerr != nil {
								out.AttErr = aerr.Error()
							}
							reached = true
							a.Close()
							wg.Wait()
							b.Close()
						})
						s.r.Eval(1)
						if s.r.BubbleFailed(br, "attack/noise", id, "attacker session never wound down", nil) {
							return
						}
						if !reached {
							s.r.Inconclusive(id, "could not learn X's payload")
							return
						}
						s.r.Nontrivial(id)
						v := out.Victim
						detail := map[string]any{"attacker_key": tk, "impersonated_key": tx, "variant": vr.name, "victim_mode": md.name, "outcome": out}
						named := md.expect != "empty" && !md.disable
						switch {
						case v.OK && !vr.valid:
							s.r.Violation("attack:forged-noise-payload-accepted/"+vr.name, id, fmt.Sprintf("victim completed a handshake whose identity payload is forged (%s), RemotePeer=%s", vr.name, v.RemotePeer), detail)
						case v.OK && v.RemotePeer != K.ID:
							s.r.Violation("attack:wrong-remote-peer/noise", id, "victim reports a remote peer other than the identity the attacker proved", detail)
						case v.OK && named && md.expect == "X":
							s.r.Violation("expect:completed-with-unexpected-peer/noise/attacker", id, "victim named X, completed with the attacker", detail)
						case v.OK:
							s.r.Count("attacker_controls_accepted", 1)
							if strings.Contains(vr.name, "reencoded") {
								s.r.Count("attacker_reencoded_key_sessions_accepted_with_the_keys_id", 1)
							}
						default:
							s.r.Count("attacker_sessions_rejected", 1)
							if strings.Contains(vr.name, "reencoded") {
								s.r.Count("attacker_reencoded_key_sessions_rejected", 1) // a stricter parser may refuse the spelling
							} else if vr.valid && !named && !md.initiator {
								// positive control must be accepted: otherwise the attacker harness itself is broken
								s.r.Inconclusive(id, "valid control session rejected: "+v.Err)
							}
						}
						if vr.name == "copied-signature-of-other-session" && md.name == "inbound-any" && tk == "ed25519" && tx == "ed25519" {
							s.r.Sample(detail)
						}
					})
				}
			}
		}
	}
	run.Parallel(len(jobs), 0, func(i int) { jobs[i]() })
}

func vr0valid(K *sectest.Key) noisePayloadFn {
	return func(st noise.DHKey, _ []byte, _ *pb.NoiseHandshakePayload) []byte {
		return noisePayload(mustMarshalPub(K), mustSign(K, append([]byte(noisePrefix), st.Public...)))
	}
}

// ---------------------------------------------------------------------------------------------
// active attacker, TLS: crypto/tls directly with forged certificates.

const tlsPrefix = "libp2p-tls-handshake:"

type signedKey struct {
	PubKey    []byte
	Signature []byte
}

func libp2pExtID() asn1.ObjectIdentifier {
	k := sectest.GenKey("ed25519")
	ck, _ := ecdsa.GenerateKey(elliptic.P256(), rand.Reader)
	ext, err := libp2ptls.GenerateSignedExtension(k.Priv, ck.Public())
	if err != nil {
		panic(err)
	}
	return ext.Id
}

func mkExt(id asn1.ObjectIdentifier, pub, sig []byte, critical bool) pkix.Extension {
	v, err := asn1.Marshal(signedKey{PubKey: pub, Signature: sig})
	if err != nil {
		panic(err)
	}
	return pkix.Extension{Id: id, Critical: critical, Value: v}
}

func mkCert(certKey *ecdsa.PrivateKey, exts []pkix.Extension) []byte {
	sn, _ := rand.Int(rand.Reader, big.NewInt(1<<62))
	tmpl := &x509.Certificate{SerialNumber: sn, NotBefore: time.Now().Add(-time.Hour), NotAfter: time.Now().Add(24 * 365 * time.Hour),
		Subject: pkix.Name{SerialNumber: "1234"}, ExtraExtensions: exts}
	der, err := x509.CreateCertificate(rand.Reader, tmpl, tmpl, certKey.Public(), certKey)
	if err != nil {
		panic(err)
	}
	return der
}

func pkix509(pub any) []byte {
	b, err := x509.MarshalPKIXPublicKey(pub)
	if err != nil {
		panic(err)
	}
	return b
}

func (s *state) attackerTLS() {
	extID := libp2pExtID()
	type variant struct {
		name  string
		valid bool
		// mk returns the certificate chain and the private key used in the handshake
		mk func(K, X *sectest.Key, xCert []byte) ([][]byte, *ecdsa.PrivateKey)
	}
	newKey := func() *ecdsa.PrivateKey {
		k, _ := ecdsa.GenerateKey(elliptic.P256(), rand.Reader)
		return k
	}
	validExt := func(K *sectest.Key, ck *ecdsa.PrivateKey, critical bool) pkix.Extension {
		return mkExt(extID, mustMarshalPub(K), mustSign(K, append([]byte(tlsPrefix), pkix509(ck.Public())...)), critical)
	}
	xExt := func(xCert []byte) pkix.Extension {
		c, err := x509.ParseCertificate(xCert)
		if err != nil {
			panic(err)
		}
		for _, e := range c.Extensions {
			if e.Id.Equal(extID) {
				return pkix.Extension{Id: e.Id, Critical: e.Critical, Value: e.Value}
			}
		}
		panic("no libp2p extension in genuine certificate")
	}
	variants := []variant{
		{"control-valid", true, func(K, X *sectest.Key, _ []byte) ([][]byte, *ecdsa.PrivateKey) {
			ck := newKey()
			return [][]byte{mkCert(ck, []pkix.Extension{validExt(K, ck, false)})}, ck
		}},
		{"control-extension-critical", true, func(K, X *sectest.Key, _ []byte) ([][]byte, *ecdsa.PrivateKey) {
			ck := newKey()
			return [][]byte{mkCert(ck, []pkix.Extension{validExt(K, ck, true)})}, ck
		}},
		{"control-extra-unknown-extension", true, func(K, X *sectest.Key, _ []byte) ([][]byte, *ecdsa.PrivateKey) {
			ck := newKey()
			return [][]byte{mkCert(ck, []pkix.Extension{{Id: asn1.ObjectIdentifier{1, 3, 6, 1, 4, 1, 99999, 1}, Value: []byte{5, 0}}, validExt(K, ck, false)})}, ck
		}},
		{"control-identity-key-reencoded/unknown-field", true, func(K, X *sectest.Key, _ []byte) ([][]byte, *ecdsa.PrivateKey) {
			ck := newKey()
			return [][]byte{mkCert(ck, []pkix.Extension{mkExt(extID, reencodePub(K, "unknown-field"), mustSign(K, append([]byte(tlsPrefix), pkix509(ck.Public())...)), false)})}, ck
		}},
		{"control-identity-key-reencoded/fields-reordered", true, func(K, X *sectest.Key, _ []byte) ([][]byte, *ecdsa.PrivateKey) {
			ck := newKey()
			return [][]byte{mkCert(ck, []pkix.Extension{mkExt(extID, reencodePub(K, "fields-reordered"), mustSign(K, append([]byte(tlsPrefix), pkix509(ck.Public())...)), false)})}, ck
		}},
		{"extension-public-key-substituted", false, func(K, X *sectest.Key, _ []byte) ([][]byte, *ecdsa.PrivateKey) {
			ck := newKey()
			return [][]byte{mkCert(ck, []pkix.Extension{mkExt(extID, mustMarshalPub(X), mustSign(K, append([]byte(tlsPrefix), pkix509(ck.Public())...)), false)})}, ck
		}},
		{"extension-copied-from-genuine-certificate", false, func(K, X *sectest.Key, xc []byte) ([][]byte, *ecdsa.PrivateKey) {
			ck := newKey()
			return [][]byte{mkCert(ck, []pkix.Extension{xExt(xc)})}, ck
		}},
		// the same forgery presented AFTER the victim has verified X's genuine certificate in an earlier,
		// honest session (anything the verifier remembers between sessions must not vouch for another key)
		{"extension-copied-after-genuine-session", false, func(K, X *sectest.Key, xc []byte) ([][]byte, *ecdsa.PrivateKey) {
			ck := newKey()
			return [][]byte{mkCert(ck, []pkix.Extension{xExt(xc)})}, ck
		}},
		{"extension-absent", false, func(K, X *sectest.Key, _ []byte) ([][]byte, *ecdsa.PrivateKey) {
			ck := newKey()
			return [][]byte{mkCert(ck, nil)}, ck
		}},
		{"signature-without-prefix", false, func(K, X *sectest.Key, _ []byte) ([][]byte, *ecdsa.PrivateKey) {
			ck := newKey()
			return [][]byte{mkCert(ck, []pkix.Extension{mkExt(extID, mustMarshalPub(K), mustSign(K, pkix509(ck.Public())), false)})}, ck
		}},
		{"signature-with-noise-prefix", false, func(K, X *sectest.Key, _ []byte) ([][]byte, *ecdsa.PrivateKey) {
			ck := newKey()
			return [][]byte{mkCert(ck, []pkix.Extension{mkExt(extID, mustMarshalPub(K), mustSign(K, append([]byte(noisePrefix), pkix509(ck.Public())...)), false)})}, ck
		}},
		{"signature-over-another-certificate-key", false, func(K, X *sectest.Key, _ []byte) ([][]byte, *ecdsa.PrivateKey) {
			ck, other := newKey(), newKey()
			return [][]byte{mkCert(ck, []pkix.Extension{mkExt(extID, mustMarshalPub(K), mustSign(K, append([]byte(tlsPrefix), pkix509(other.Public())...)), false)})}, ck
		}},
		{"chain-of-two", false, func(K, X *sectest.Key, xc []byte) ([][]byte, *ecdsa.PrivateKey) {
			ck := newKey()
			return [][]byte{mkCert(ck, []pkix.Extension{validExt(K, ck, false)}), xc}, ck
		}},
		{"chain-of-two-genuine-second", false, func(K, X *sectest.Key, xc []byte) ([][]byte, *ecdsa.PrivateKey) {
			ck := newKey()
			return [][]byte{mkCert(ck, nil), xc}, ck
		}},
		{"genuine-certificate-with-foreign-handshake-key", false, func(K, X *sectest.Key, xc []byte) ([][]byte, *ecdsa.PrivateKey) {
			return [][]byte{xc}, newKey()
		}},
		{"extension-duplicated-valid-then-copied", true, func(K, X *sectest.Key, xc []byte) ([][]byte, *ecdsa.PrivateKey) {
			ck := newKey()
			return [][]byte{mkCert(ck, []pkix.Extension{validExt(K, ck, false), xExt(xc)})}, ck
		}},
		{"extension-duplicated-copied-then-valid", false, func(K, X *sectest.Key, xc []byte) ([][]byte, *ecdsa.PrivateKey) {
			ck := newKey()
			return [][]byte{mkCert(ck, []pkix.Extension{xExt(xc), validExt(K, ck, false)})}, ck
		}},
	}
	type victimMode struct {
		name      string
		initiator bool
		expect    string
	}
	modes := []victimMode{{"inbound-any", false, "empty"}, {"inbound-expects-X", false, "X"}, {"outbound-expects-X", true, "X"}, {"outbound-expects-K", true, "K"}}
	var jobs []func()
	for _, tk := range sectest.KeyTypes {
		for _, tx := range sectest.KeyTypes {
			if s.r.Quick() && tk != tx && tk != "ed25519" && tx != "ed25519" {
				continue
			}
			K, X, V := s.pool[tk][0], s.pool[tx][1], s.pool["ecdsa"][2]
			for _, vr := range variants {
				for _, md := range modes {
					vr, md := vr, md
					jobs = append(jobs, func() {
						id := fmt.Sprintf("attack/tls/K=%s/X=%s/%s/%s", tk, tx, vr.name, md.name)
						if !s.r.Want(id) {
							return
						}
						var out attackOutcome
						br := run.Bubble(s.t, func(t *testing.T) {
							ctx, cancel := context.WithTimeout(context.Background(), 30*time.Second)
							defer cancel()
							// X's genuine certificate is public: anyone who ever connected to X has it
							xid, err := libp2ptls.NewIdentity(X.Priv)
							if err != nil {
								panic(err)
							}
							xconf, _ := xid.ConfigForPeer("")
							xCert := xconf.Certificates[0].Certificate[0]
							vt := sectest.NewTLS(V)
							if vr.name == "extension-copied-after-genuine-session" {
								// X's real transport: the victim completes an honest handshake with it (same role as
								// in the attack), and the attacker fetches the very certificate X serves
								xt := sectest.NewTLS(X)
								pa, pb := memnet.Pipe(addrI, addrR, 0)
								var hw sync.WaitGroup
								hw.Add(2)
								go func() {
									defer hw.Done()
									var c sec.SecureConn
									var err error
									if md.initiator {
										c, err = vt.SecureOutbound(ctx, pa, X.ID)
									} else {
										c, err = vt.SecureInbound(ctx, pa, "")
									}
									if err == nil {
										c.Write([]byte("x"))
										c.Close()
									}
									pa.Close()
								}()
								go func() {
									defer hw.Done()
									var c sec.SecureConn
									var err error
									if md.initiator {
										c, err = xt.SecureInbound(ctx, pb, "")
									} else {
										c, err = xt.SecureOutbound(ctx, pb, V.ID)
									}
									if err == nil {
										io.Copy(io.Discard, c)
										c.Close()
									}
									pb.Close()
								}()
								hw.Wait()
								// fetch X's served certificate as an ordinary TLS peer
								fa, fb := memnet.Pipe(addrI, addrR, 0)
								fk := newKey()
								fcert := tls.Certificate{Certificate: [][]byte{mkCert(fk, []pkix.Extension{validExt(K, fk, false)})}, PrivateKey: fk}
								go func() {
									c, err := xt.SecureInbound(ctx, fb, "")
									if err == nil {
										c.Close()
									}
									fb.Close()
								}()
								fc := tls.Client(fa, &tls.Config{Certificates: []tls.Certificate{fcert}, InsecureSkipVerify: true, NextProtos: []string{"libp2p"}, MinVersion: tls.VersionTLS13})
								fa.SetDeadline(time.Now().Add(10 * time.Second))
								if err := fc.HandshakeContext(ctx); err == nil && len(fc.ConnectionState().PeerCertificates) > 0 {
									xCert = fc.ConnectionState().PeerCertificates[0].Raw
								}
								fa.Close()
							}
							chain, hk := vr.mk(K, X, xCert)
							acert := tls.Certificate{Certificate: chain, PrivateKey: hk}
							a, b := memnet.Pipe(addrI, addrR, 0)
							cfg := sideCfg{Key: V}
							switch md.expect {
							case "X":
								cfg.Expect = X.ID
							case "K":
								cfg.Expect = K.ID
							}
							var wg sync.WaitGroup
							wg.Add(1)
							go func() {
								defer wg.Done()
								var conn sec.SecureConn
								var err error
								if md.initiator {
									conn, err = vt.SecureOutbound(ctx, b, cfg.Expect)
								} else {
									conn, err = vt.SecureInbound(ctx, b, cfg.Expect)
								}
								out.Victim = finish(conn, err, b, "VICT", "XXXX")
							}()
							tconf := &tls.Config{Certificates: []tls.Certificate{acert}, InsecureSkipVerify: true, NextProtos: []string{"libp2p"},
								MinVersion: tls.VersionTLS13, ClientAuth: tls.RequireAnyClientCert, SessionTicketsDisabled: true}
							var tc *tls.Conn
							if md.initiator {
								tc = tls.Server(a, tconf)
							} else {
								tc = tls.Client(a, tconf)
							}
							a.SetDeadline(time.Now().Add(20 * time.Second))
							if err := tc.HandshakeContext(ctx); err != nil {
								out.AttErr = err.Error()
							} else {
								tc.SetReadDeadline(time.Now().Add(12 * time.Second))
								io.Copy(io.Discard, tc)
							}
							a.Close()
							wg.Wait()
							b.Close()
						})
						s.r.Eval(1)
						if s.r.BubbleFailed(br, "attack/tls", id, "attacker session never wound down", nil) {
							return
						}
						s.r.Nontrivial(id)
						v := out.Victim
						detail := map[string]any{"attacker_key": tk, "impersonated_key": tx, "variant": vr.name, "victim_mode": md.name, "outcome": out}
						switch {
						case v.OK && !vr.valid:
							s.r.Violation("attack:forged-tls-certificate-accepted/"+vr.name, id, fmt.Sprintf("victim completed a handshake with a forged certificate (%s), RemotePeer=%s", vr.name, v.RemotePeer), detail)
						case v.OK && v.RemotePeer != K.ID:
							s.r.Violation("attack:wrong-remote-peer/tls", id, "victim reports a remote peer other than the identity the attacker proved", detail)
						case v.OK && md.expect == "X":
							s.r.Violation("expect:completed-with-unexpected-peer/tls/attacker", id, "victim named X, completed with the attacker", detail)
						case v.OK:
							s.r.Count("attacker_controls_accepted", 1)
							if strings.Contains(vr.name, "reencoded") {
								s.r.Count("attacker_reencoded_key_sessions_accepted_with_the_keys_id", 1)
							}
						default:
							s.r.Count("attacker_sessions_rejected", 1)
							if strings.Contains(vr.name, "reencoded") {
								s.r.Count("attacker_reencoded_key_sessions_rejected", 1)
							} else if vr.valid && md.expect != "X" && vr.name != "extension-duplicated-valid-then-copied" {
								s.r.Inconclusive(id, "valid control session rejected: "+v.Err)
							}
						}
						if vr.name == "extension-copied-from-genuine-certificate" && md.name == "outbound-expects-X" && tk == "ed25519" && tx == "ed25519" {
							s.r.Sample(detail)
						}
					})
				}
			}
		}
	}
	run.Parallel(len(jobs), 0, func(i int) { jobs[i]() })
}

// ---------------------------------------------------------------------------------------------
// the real upgrader on top: expected peer handed through Upgrade, identity of the upgraded conn.

func (s *state) upgraderLevel() {
	var jobs []func()
	for _, proto := range []string{"noise", "tls"} {
		for _, ti := range sectest.KeyTypes {
			for _, tr := range sectest.KeyTypes {
				if s.r.Quick() && ti != tr && ti != "ed25519" {
					continue
				}
				for _, expl := range []string{"matching", "different", "empty", "matching/inbound-names-matching", "matching/inbound-names-different", "different/inbound-names-different"} {
					proto, ti, tr := proto, ti, tr
					exp, lexp := expl, ""
					if i := strings.IndexByte(expl, '/'); i >= 0 {
						// the side that runs the security handshake as the SERVER names a peer as well (a TCP
						// simultaneous connect: the dialer that is not the client upgrades with DirInbound and p)
						exp, lexp = expl[:i], expl[i+1:]
					}
					jobs = append(jobs, func() {
						id := fmt.Sprintf("upgrader/%s/%s-%s/dial-expects-%s", proto, ti, tr, expl)
						if !s.r.Want(id) {
							return
						}
						ki, kr, ko := s.pool[ti][0], s.pool[tr][1], s.pool[ti][2]
						var lp peer.ID
						switch lexp {
						case "inbound-names-matching":
							lp = ki.ID
						case "inbound-names-different":
							lp = ko.ID
						}
						var p peer.ID
						switch exp {
						case "matching":
							p = kr.ID
						case "different":
							p = ko.ID
						}
						var dialOK, lisOK bool
						var dialPeer, lisPeer peer.ID
						var dialErr string
						br := run.Bubble(s.t, func(t *testing.T) {
							ctx, cancel := context.WithTimeout(context.Background(), 30*time.Second)
							defer cancel()
							ui, err := upgrader.New([]sec.SecureTransport{sectest.NewSec(proto, ki)}, sectest.Muxers, nil, &network.NullResourceManager{}, nil)
							if err != nil {
								panic(err)
							}
							ur, err := upgrader.New([]sec.SecureTransport{sectest.NewSec(proto, kr)}, sectest.Muxers, nil, &network.NullResourceManager{}, nil)
							if err != nil {
								panic(err)
							}
							a, b := memnet.Pipe(addrI, addrR, 0)
							var wg sync.WaitGroup
							wg.Add(2)
							go func() {
								defer wg.Done()
								c, err := ui.Upgrade(ctx, nil, a, network.DirOutbound, p, &network.NullScope{})
								if err != nil {
									dialErr = err.Error()
									a.Close()
									return
								}
								dialOK, dialPeer = true, c.RemotePeer()
								// TLS reports the listener's verdict on first use
								c.Close()
							}()
							go func() {
								defer wg.Done()
								c, err := ur.Upgrade(ctx, nil, b, network.DirInbound, lp, &network.NullScope{})
								if err != nil {
									b.Close()
									return
								}
								lisOK, lisPeer = true, c.RemotePeer()
								c.Close()
							}()
							wg.Wait()
							a.Close()
							b.Close()
						})
						s.r.Eval(1)
						detail := map[string]any{"proto": proto, "dialer_key": ti, "listener_key": tr, "expect": exp, "inbound_side_names": lexp, "dial_ok": dialOK, "dial_err": dialErr, "dial_remote": dialPeer, "listen_ok": lisOK, "listen_remote": lisPeer}
						if s.r.BubbleFailed(br, "upgrader", id, "upgrade never wound down", map[string]any{"case": detail}) {
							return
						}
						s.r.Nontrivial(id)
						if dialOK && dialPeer != kr.ID {
							s.r.Violation("upgrader:wrong-remote-peer/dialer", id, "upgraded outbound conn reports the wrong remote peer", detail)
						}
						if lisOK && lisPeer != ki.ID {
							s.r.Violation("upgrader:wrong-remote-peer/listener", id, "upgraded inbound conn reports the wrong remote peer", detail)
						}
						if lisOK && lexp == "inbound-names-different" {
							s.r.Violation("upgrader:expected-peer-not-enforced/inbound-side-names-a-peer", id, "Upgrade(DirInbound, P) returned a conn authenticated as someone other than P", detail)
						}
						if lexp == "inbound-names-different" && !lisOK {
							s.r.Count("upgrader_inbound_named_mismatch_rejected", 1)
						}
						if lexp == "inbound-names-matching" && lisOK && dialOK {
							s.r.Count("upgrader_inbound_named_matching_completed", 1)
						}
						if dialOK && exp == "different" {
							s.r.Violation("upgrader:expected-peer-not-enforced", id, "Upgrade for peer P returned a conn authenticated as someone else", detail)
						}
						if exp == "matching" && dialOK && lisOK {
							s.r.Count("upgrader_completed", 1)
						}
						if exp == "different" && !dialOK {
							s.r.Count("upgrader_mismatch_rejected", 1)
						}
					})
				}
			}
		}
	}
	run.Parallel(len(jobs), 0, func(i int) { jobs[i]() })
	s.r.Require("upgrader_completed", 4)
	s.r.Require("upgrader_mismatch_rejected", 4)
	s.r.Require("upgrader_inbound_named_mismatch_rejected", 4)
	s.r.Require("upgrader_inbound_named_matching_completed", 4)
}
