package c01

import (
	"testing"

	"verif/harness/rig/run"
	"verif/harness/rig/sectest"
)

func TestDevTpt(t *testing.T) {
	r := run.New(t, "C01", "fault_enumeration")
	defer r.Finish()
	s := &state{r: r, t: t, pool: sectest.NewPool(3)}
	s.transportLevel()
}
