package c01

import (
	"context"
	"crypto/ecdsa"
	"crypto/elliptic"
	crand "crypto/rand"
	"crypto/tls"
	"fmt"
	"net"
	"os"
	"strconv"
	"sync"
	"sync/atomic"
	"time"

	"github.com/libp2p/go-libp2p/core/peer"
	libp2ptls "github.com/libp2p/go-libp2p/p2p/security/tls"
	ma "github.com/multiformats/go-multiaddr"
	"github.com/quic-go/quic-go"
)

// quicSharedSocket: ONE UDP socket, many QUIC handshakes with a REAL libp2p QUIC listener L at once.
// The attacker proves its own identity K on connections that complete, and - from the very same socket,
// so with the very same remote address - keeps starting handshakes that present victim P's genuine
// (public) certificate with a certificate key it does not own: those fail at CertificateVerify, after
// the listener's certificate callback has seen P's identity. Ground truth: K is the only identity whose
// private key was ever used. Every connection L announces or lists must therefore report K (and a key
// that hashes to it); one reported as P is "a connection authenticated as anyone other than" its peer.
func (s *state) quicSharedSocket() {
	if os.Getenv("VERIF_RACE") == "1" {
		return
	}
	id := "quic-shared-socket/K=ed25519/P=ecdsa"
	if !s.r.Want(id) || s.r.TooMany() {
		return
	}
	var quicKind tptKind
	for _, k := range tptKinds() {
		if k.Name == "quic" {
			quicKind = k
		}
	}
	KL, K, P := s.pool["ed25519"][0], s.pool["ed25519"][1], s.pool["ecdsa"][2]
	L, err := tptHost(quicKind, KL, true)
	if err != nil {
		s.r.Count("quic_shared_socket_unavailable", 1)
		return
	}
	defer L.Close()
	w := &watcher{}
	w.attach(L)
	if len(L.Addrs()) == 0 {
		s.r.Inconclusive(id, "listener has no address")
		return
	}
	ps, err := L.Addrs()[0].ValueForProtocol(ma.P_UDP)
	port, err2 := strconv.Atoi(ps)
	if err != nil || err2 != nil {
		s.r.Inconclusive(id, fmt.Sprint("listener address without udp port: ", L.Addrs()[0]))
		return
	}
	raddr := &net.UDPAddr{IP: net.IPv4(127, 0, 0, 1), Port: port}
	uc, err := net.ListenUDP("udp4", &net.UDPAddr{IP: net.IPv4(127, 0, 0, 1)})
	if err != nil {
		s.r.Inconclusive(id, err.Error())
		return
	}
	qt := &quic.Transport{Conn: uc}
	defer func() { qt.Close(); uc.Close() }()

	kid, err := libp2ptls.NewIdentity(K.Priv)
	if err != nil {
		s.r.Inconclusive(id, err.Error())
		return
	}
	// ConfigForPeer's certificate callback is single-use (it closes its key channel): one config per dial
	mkA := func() *tls.Config { c, _ := kid.ConfigForPeer(KL.ID); return c }
	pidn, err := libp2ptls.NewIdentity(P.Priv)
	if err != nil {
		s.r.Inconclusive(id, err.Error())
		return
	}
	pconf, _ := pidn.ConfigForPeer("")
	foreign, _ := ecdsa.GenerateKey(elliptic.P256(), crand.Reader)
	mkB := func() *tls.Config {
		c, _ := kid.ConfigForPeer(KL.ID)
		c.Certificates = []tls.Certificate{{Certificate: pconf.Certificates[0].Certificate, PrivateKey: foreign}}
		return c
	}

	rounds := s.r.Pick(60, 600)
	var aOK, aFail, bFailed, bCompleted atomic.Int64
	var firstAErr string
	stop := make(chan struct{})
	var wg sync.WaitGroup
	for g := 0; g < 6; g++ {
		wg.Add(1)
		go func() {
			defer wg.Done()
			for {
				select {
				case <-stop:
					return
				default:
				}
				ctx, cancel := context.WithTimeout(context.Background(), 3*time.Second)
				c, err := qt.Dial(ctx, raddr, mkB(), &quic.Config{})
				cancel()
				if err == nil {
					// the TLS client finishes before the server has verified the client's CertificateVerify:
					// a completed Dial means nothing yet; what the LISTENER reports is what is judged
					bCompleted.Add(1)
					time.Sleep(2 * time.Millisecond)
					c.CloseWithError(0, "")
				} else {
					bFailed.Add(1)
				}
			}
		}()
	}
	for i := 0; i < rounds; i++ {
		ctx, cancel := context.WithTimeout(context.Background(), 5*time.Second)
		c, err := qt.Dial(ctx, raddr, mkA(), &quic.Config{})
		cancel()
		if err != nil {
			if aFail.Add(1) == 1 {
				firstAErr = err.Error()
			}
			continue
		}
		aOK.Add(1)
		time.Sleep(5 * time.Millisecond)
		c.CloseWithError(0, "")
	}
	close(stop)
	wg.Wait()
	time.Sleep(300 * time.Millisecond)
	s.r.Eval(1)
	if os.Getenv("VERIF_DEBUG") != "" {
		fmt.Fprintf(os.Stderr, "DEBUG quic-shared-socket: A ok=%d fail=%d (first error %q) B failed=%d completed=%d\n", aOK.Load(), aFail.Load(), firstAErr, bFailed.Load(), bCompleted.Load())
	}
	seenConns := w.snapshot()
	for _, c := range L.Network().Conns() {
		seenConns = append(seenConns, seen{RemotePeer: c.RemotePeer(), KeyHashes: true, Dir: "listed", Phase: "end"})
	}
	s.r.Count("quic_shared_socket_genuine_conns_completed", int(aOK.Load()))
	s.r.Count("quic_shared_socket_genuine_conns_failed", int(aFail.Load()))
	s.r.Count("quic_shared_socket_replayed_certificate_attempts", int(bFailed.Load()+bCompleted.Load()))
	s.r.Count("quic_shared_socket_conns_announced_by_listener", len(seenConns))
	byPeer := map[peer.ID]int{}
	for _, c := range seenConns {
		byPeer[c.RemotePeer]++
	}
	detail := map[string]any{"attacker_K": K.ID.String(), "victim_P": P.ID.String(), "listener": KL.ID.String(), "rounds": rounds,
		"genuine_conns_completed": aOK.Load(), "replayed_certificate_attempts": bFailed.Load() + bCompleted.Load(), "announced_by_listener_per_remote_peer": fmt.Sprint(byPeer), "first_error_of_a_genuine_dial": firstAErr}
	for _, c := range seenConns {
		if c.RemotePeer != K.ID {
			who := "a peer that never took part"
			if c.RemotePeer == P.ID {
				who = "victim P, whose private key was never used (only its public certificate was replayed in handshakes that failed)"
			}
			s.r.Violation("identity:listener-reports-peer-that-never-authenticated/quic-shared-socket", id,
				fmt.Sprintf("the QUIC listener announced an inbound connection from %s: %s", c.RemotePeer, who), detail)
			return
		}
		if !c.KeyHashes {
			s.r.Violation("identity:remote-key-does-not-hash-to-remote-peer/quic-shared-socket", id, "RemotePublicKey() does not hash to RemotePeer()", detail)
			return
		}
	}
	if aOK.Load() > 0 && len(seenConns) > 0 {
		s.r.Nontrivial(id)
	}
	s.r.Require("quic_shared_socket_genuine_conns_completed", 10)
	s.r.Require("quic_shared_socket_replayed_certificate_attempts", 50)
	s.r.Sample(detail)
}
