// C01 — Security handshakes authenticate the remote peer's identity.
//
// Monitors: (1) ground-truth identity oracle on every completed handshake (the harness owns all keys);
// (2) tamper rule: the side that RECEIVED edited handshake bytes must not complete; driven by a framing
// man in the middle over memnet that enumerates every single-byte edit, truncation, extension, drop,
// duplication and cross-session swap of the real Noise / TLS handshake messages, crossed with key
// types, roles, expected-peer settings and prologues; (3) an active attacker who holds valid keys of
// its own and speaks Noise (flynn/noise) / TLS (crypto/tls) directly with forged identity payloads and
// certificates; (4) the real upgrader on top. All inside synctest bubbles (stalls cost nothing).
package c01

import (
	"context"
	"crypto/sha256"
	"encoding/binary"
	"fmt"
	"io"
	"strings"
	"sync"
	"testing"
	"time"

	"github.com/libp2p/go-libp2p/core/peer"
	"github.com/libp2p/go-libp2p/core/sec"
	"github.com/libp2p/go-libp2p/p2p/security/noise"
	ma "github.com/multiformats/go-multiaddr"

	"verif/harness/rig/memnet"
	"verif/harness/rig/run"
	"verif/harness/rig/sectest"
)

var (
	addrI = ma.StringCast("/ip4/10.0.0.1/tcp/4001")
	addrM = ma.StringCast("/ip4/10.0.0.66/tcp/6666")
	addrR = ma.StringCast("/ip4/10.0.0.2/tcp/4001")
)

type sideCfg struct {
	Key          *sectest.Key `json:"-"`
	KeyType      string       `json:"key_type"`
	Expect       peer.ID      `json:"expect"`        // peer handed to SecureOutbound / SecureInbound
	ExpectKind   string       `json:"expect_kind"`   // matching | different | empty
	DisableCheck bool         `json:"disable_check"` // Noise SessionTransport + DisablePeerIDCheck
	Prologue     []byte       `json:"prologue"`      // Noise SessionTransport + Prologue
	UseSession   bool         `json:"use_session_transport"`
}

type hsCase struct {
	ID    string        `json:"id"`
	Proto string        `json:"proto"`
	Init  sideCfg       `json:"initiator"`
	Resp  sideCfg       `json:"responder"`
	Edit  *sectest.Edit `json:"edit"`
}

type sideResult struct {
	OK         bool    `json:"handshake_ok"`
	Err        string  `json:"err,omitempty"`
	RemotePeer peer.ID `json:"remote_peer,omitempty"`
	KeyHashes  bool    `json:"remote_key_hashes_to_remote_peer"`
	LocalPeer  peer.ID `json:"local_peer,omitempty"`
	EchoOK     bool    `json:"echo_ok"`
	EchoErr    string  `json:"echo_err,omitempty"`
	HSBytes    int64   `json:"handshake_bytes_written"`
}

type hsResult struct {
	Init, Resp sideResult
	Applied    bool
	Frames     [2][]sectest.Frame
	HSFrames   [2]int // number of handshake frames per direction (frames starting before the writer's handshake returned)
	EditedType byte
	NoEffect   bool // the edit replaced bytes by equal bytes
	Bubble     run.BubbleResult
}

func secFor(proto string, c sideCfg) sec.SecureTransport {
	if proto == "tls" {
		return sectest.NewTLS(c.Key)
	}
	t := sectest.NewNoise(c.Key)
	if c.UseSession || c.DisableCheck || c.Prologue != nil {
		var opts []noise.SessionOption
		if c.Prologue != nil {
			opts = append(opts, noise.Prologue(c.Prologue))
		}
		if c.DisableCheck {
			opts = append(opts, noise.DisablePeerIDCheck())
		}
		st, err := t.WithSessionOptions(opts...)
		if err != nil {
			panic(err)
		}
		return st
	}
	return t
}

// finish records what a side observed after its handshake call returned and runs the echo.
func finish(conn sec.SecureConn, err error, raw *memnet.Conn, tag string, peerTag string) (r sideResult) {
	r.HSBytes = raw.BytesWritten()
	if err != nil {
		r.Err = err.Error()
		raw.Close()
		return
	}
	r.OK = true
	r.RemotePeer = conn.RemotePeer()
	r.LocalPeer = conn.LocalPeer()
	if pk := conn.RemotePublicKey(); pk != nil {
		if id, e := peer.IDFromPublicKey(pk); e == nil && id == r.RemotePeer {
			r.KeyHashes = true
		}
	}
	// echo: both sides write a tag and read the other's
	conn.SetDeadline(time.Now().Add(10 * time.Second))
	if _, e := conn.Write([]byte(tag)); e != nil {
		r.EchoErr = "write: " + e.Error()
	} else {
		buf := make([]byte, len(peerTag))
		if _, e := io.ReadFull(conn, buf); e != nil {
			r.EchoErr = "read: " + e.Error()
		} else if string(buf) != peerTag {
			r.EchoErr = fmt.Sprintf("read %q", buf)
		} else {
			r.EchoOK = true
		}
	}
	conn.Close()
	return
}

// session is one handshake between two honest endpoints through the MITM; it must be started and
// awaited inside one bubble.
type session struct {
	c      *hsCase
	res    *hsResult
	ic, rc *memnet.Conn
	mi, mr *memnet.Conn
	m      *sectest.MITM
	wg     sync.WaitGroup
}

func startSession(ctx context.Context, c *hsCase, res *hsResult, swap func(dir int, frame []byte) []byte) *session {
	s := &session{c: c, res: res}
	s.ic, s.mi = memnet.Pipe(addrI, addrM, 0)
	s.mr, s.rc = memnet.Pipe(addrM, addrR, 0)
	s.m = sectest.NewMITM(c.Proto, s.mi, s.mr, c.Edit)
	if swap != nil && c.Edit != nil {
		s.m.Swap = func(f []byte) []byte { return swap(c.Edit.Dir, f) }
	}
	s.m.Start()
	it, rt := secFor(c.Proto, c.Init), secFor(c.Proto, c.Resp)
	s.wg.Add(2)
	go func() {
		defer s.wg.Done()
		conn, err := it.SecureOutbound(ctx, s.ic, c.Init.Expect)
		res.Init = finish(conn, err, s.ic, "INIT", "RESP")
	}()
	go func() {
		defer s.wg.Done()
		conn, err := rt.SecureInbound(ctx, s.rc, c.Resp.Expect)
		res.Resp = finish(conn, err, s.rc, "RESP", "INIT")
	}()
	return s
}

func (s *session) wait() {
	c, res, m := s.c, s.res, s.m
	s.wg.Wait()
	s.ic.Close()
	s.rc.Close()
	s.mi.Close()
	s.mr.Close()
	m.Wait()
	res.Applied = m.Applied()
	for d := 0; d < 2; d++ {
		res.Frames[d] = m.Frames(d)
	}
	hs := [2]int64{res.Init.HSBytes, res.Resp.HSBytes}
	for d := 0; d < 2; d++ {
		for _, f := range res.Frames[d] {
			if f.Start < hs[d] {
				res.HSFrames[d]++
			}
		}
	}
	// an edit that left the handshake bytes the receiver saw identical to what was sent (a truncation
	// refilled by an equal byte of the following frame) did not alter the handshake data
	if e := c.Edit; e != nil && res.Applied && e.Kind != "dup" && e.Kind != "ext" { // those have their own (trailing) rule
		w := res.Init
		if e.Dir == 1 {
			w = res.Resp
		}
		if w.OK && m.Unaltered(e.Dir, hs[e.Dir]) {
			res.Applied = false
			res.NoEffect = true
		}
	}
	if e := c.Edit; e != nil && e.Msg < len(res.Frames[e.Dir]) {
		res.EditedType = res.Frames[e.Dir][e.Msg].Type
	}
}

// runCase runs one (possibly tampered) handshake between two honest endpoints in a bubble.
func runCase(t *testing.T, c *hsCase, swap func(dir int, frame []byte) []byte) (res hsResult) {
	res.Bubble = run.Bubble(t, func(t *testing.T) {
		ctx, cancel := context.WithTimeout(context.Background(), 30*time.Second)
		defer cancel()
		startSession(ctx, c, &res, swap).wait()
	})
	return
}

// exempt reports whether the edit touches only data the protocol leaves unauthenticated BY DESIGN
// (RFC 8446): the legacy_record_version bytes of the plaintext ClientHello / ServerHello records, and
// the presence or number of dummy change_cipher_spec records. For those only the identity rule applies.
func exempt(c *hsCase, res *hsResult) bool {
	e := c.Edit
	if c.Proto != "tls" || e == nil {
		return false
	}
	if e.Kind == "flip" && e.Msg == 0 && (e.Off == 1 || e.Off == 2) {
		return true
	}
	if (e.Kind == "drop" || e.Kind == "dup") && res.EditedType == 20 {
		return true
	}
	return false
}

// trailing reports whether the edit leaves the original handshake message intact and only adds bytes
// after the LAST handshake message of its direction (duplicate / extension without length fix): the
// receiver completes before it looks at them; they must then be rejected as data (echo must fail).
func trailing(c *hsCase, res *hsResult) bool {
	e := c.Edit
	if e == nil || (e.Kind != "dup" && e.Kind != "ext") {
		return false
	}
	return e.Msg == res.HSFrames[e.Dir]-1
}

type verdict struct{ sig, msg string }

// judge applies the oracle. truth: the initiator really is c.Init.Key, the responder c.Resp.Key.
func judge(c *hsCase, res *hsResult) (out []verdict) {
	check := func(role string, s sideResult, cfg sideCfg, truthRemote *sectest.Key, truthLocal *sectest.Key) {
		if !s.OK {
			return
		}
		// statement: "reports as its remote peer exactly the peer ID derived from a public key whose
		// private key the remote used in that handshake"
		if s.RemotePeer != truthRemote.ID {
			out = append(out, verdict{"identity:wrong-remote-peer/" + c.Proto + "/" + role, fmt.Sprintf("%s completed with RemotePeer %s, the remote used the key of %s", role, s.RemotePeer, truthRemote.ID)})
		}
		if !s.KeyHashes {
			out = append(out, verdict{"identity:remote-key-does-not-hash-to-remote-peer/" + c.Proto + "/" + role, role + ": RemotePublicKey does not hash to RemotePeer"})
		}
		if s.LocalPeer != truthLocal.ID {
			out = append(out, verdict{"identity:wrong-local-peer/" + c.Proto + "/" + role, role + ": LocalPeer is not the local identity"})
		}
		// statement: "when the local side named the peer it expects, the handshake succeeds only if that peer ID matches"
		if cfg.Expect != "" && !cfg.DisableCheck && s.RemotePeer != cfg.Expect {
			out = append(out, verdict{"expect:named-peer-not-enforced/" + c.Proto + "/" + role, fmt.Sprintf("%s named %s but completed with %s", role, cfg.Expect, s.RemotePeer)})
		}
		if cfg.Expect != "" && !cfg.DisableCheck && truthRemote.ID != cfg.Expect {
			out = append(out, verdict{"expect:completed-with-unexpected-peer/" + c.Proto + "/" + role, fmt.Sprintf("%s named %s, the remote is %s, handshake completed", role, cfg.Expect, truthRemote.ID)})
		}
	}
	check("initiator", res.Init, c.Init, c.Resp.Key, c.Init.Key)
	check("responder", res.Resp, c.Resp, c.Init.Key, c.Resp.Key)

	// statement: "No side that received handshake data which was altered, truncated, replayed from
	// another session ... completes the handshake"
	if res.Applied && c.Edit != nil && !exempt(c, res) && c.Edit.Msg < res.hsFramesOrAll(c.Edit.Dir) {
		victim, role := res.Resp, "responder"
		if c.Edit.Dir == 1 {
			victim, role = res.Init, "initiator"
		}
		if trailing(c, res) {
			if victim.OK && victim.EchoOK {
				out = append(out, verdict{"tamper:trailing-garbage-accepted-as-data/" + c.Proto + "/" + c.Edit.Kind + "/" + role, role + " accepted bytes appended after the last handshake message as application data"})
			}
		} else if victim.OK {
			out = append(out, verdict{"tamper:edited-handshake-accepted/" + c.Proto + "/" + c.Edit.Kind + "/" + role, fmt.Sprintf("%s completed the handshake although it received an edited message (%s)", role, c.Edit)})
		}
	}
	// prologues (Noise): differing prologues must never complete on either side that verifies a message
	if c.Proto == "noise" && string(c.Init.Prologue) != string(c.Resp.Prologue) {
		if res.Init.OK {
			out = append(out, verdict{"prologue:mismatch-accepted/initiator", "initiator completed with a different prologue"})
		}
		if res.Resp.OK {
			out = append(out, verdict{"prologue:mismatch-accepted/responder", "responder completed with a different prologue"})
		}
	}
	return
}

// hsFramesOrAll: number of handshake frames of a direction; if the writer never finished its
// handshake all frames it wrote are handshake frames.
func (res *hsResult) hsFramesOrAll(dir int) int {
	w := res.Init
	if dir == 1 {
		w = res.Resp
	}
	if !w.OK {
		return len(res.Frames[dir])
	}
	return res.HSFrames[dir]
}

func expectSettings(remote, other *sectest.Key) []struct {
	kind string
	id   peer.ID
} {
	return []struct {
		kind string
		id   peer.ID
	}{{"matching", remote.ID}, {"different", other.ID}, {"empty", ""}}
}

// aliasIDs: peer IDs that are NOT the ID derived from k's public key although the same key can be read
// out of them: identity multihashes of other protobuf spellings of the key, the key inlined where the
// derived ID hashes it, or hashed where the derived ID inlines it.
func aliasIDs(k *sectest.Key) (out []struct {
	kind string
	id   peer.ID
}) {
	ident := func(b []byte) peer.ID {
		return peer.ID(append(binary.AppendUvarint([]byte{0x00}, uint64(len(b))), b...))
	}
	add := func(kind string, id peer.ID) {
		if id != k.ID {
			out = append(out, struct {
				kind string
				id   peer.ID
			}{"different/alias-" + kind, id})
		}
	}
	canon := mustMarshalPub(k)
	add("identity-of-key-with-unknown-field", ident(reencodePub(k, "unknown-field")))
	add("identity-of-key-with-fields-reordered", ident(reencodePub(k, "reordered")))
	if len(k.ID) > 2 && k.ID[0] == 0x00 {
		h := sha256.Sum256(canon)
		add("sha256-of-inlined-key", peer.ID(append([]byte{0x12, 0x20}, h[:]...)))
	} else {
		add("identity-of-hashed-key", ident(canon))
	}
	return
}

type state struct {
	r    *run.R
	t    *testing.T
	pool sectest.Pool
}

func (s *state) report(c *hsCase, res *hsResult) {
	if s.r.BubbleFailed(res.Bubble, "handshake/"+c.Proto, c.ID, "handshake goroutines blocked forever (no deadline honoured)", map[string]any{"case": c}) {
		return
	}
	for _, v := range judge(c, res) {
		s.r.Violation(v.sig, c.ID, v.msg, map[string]any{"case": c, "initiator": res.Init, "responder": res.Resp, "applied": res.Applied, "frames": res.Frames})
	}
}

func mkSide(k *sectest.Key, kind string, id peer.ID) sideCfg {
	return sideCfg{Key: k, KeyType: k.Type, Expect: id, ExpectKind: kind}
}

func TestC01(t *testing.T) {
	r := run.New(t, "C01", "fault_enumeration")
	defer r.Finish()
	r.Rule("cases = (protocol, key types, roles' expected-peer settings, prologues) x one man-in-the-middle edit positioned from a fault-free dry run (every byte of every handshake frame flipped, truncations, extensions, drop, duplicate, cross-session swap) plus forged-identity attacker sessions; a case is non-trivial when the edit was really applied to a frame in flight or the attacker's forged message reached the victim; distinct by case id")
	r.Assume("primitives (flynn/noise, crypto/tls, crypto/*) are trusted; the monitors check which key, message, prologue and session the libp2p code binds",
		"TLS legacy_record_version bytes of the plaintext hello records and dummy change_cipher_spec records are unauthenticated by design (RFC 8446) and exempt from the tamper rule, not from the identity rule",
		"WebRTC/WebTransport are covered through the shared Noise code path with a prologue, not through pion/quic")
	s := &state{r: r, t: t, pool: sectest.NewPool(3)}
	s.honestMatrix()
	s.tamperSweep()
	s.swapSessions()
	s.attackerNoise()
	s.attackerTLS()
	s.upgraderLevel()
	s.transportLevel() // transport_test.go: real transports over loopback sockets, outside any bubble
	s.quicSharedSocket()
	r.Require("honest_completed_both", 20)
	r.Require("expect_mismatch_rejected", 20)
	r.Require("expected_peer_alias_of_the_remote_key_rejected", 40)
	r.Require("edits_applied", 500)
	r.Require("edits_rejected_by_victim", 500)
	r.Require("attacker_sessions_rejected", 10)
	r.Require("attacker_controls_accepted", 4)
}

// honestMatrix: no tampering; every key-type pair, both protocols, every expected-peer setting on both
// sides, check disabled, prologue pairs.
func (s *state) honestMatrix() {
	var cases []*hsCase
	for _, proto := range []string{"noise", "tls"} {
		for _, ti := range sectest.KeyTypes {
			for _, tr := range sectest.KeyTypes {
				ki, kr, ko := s.pool[ti][0], s.pool[tr][1], s.pool[ti][2]
				for _, ei := range expectSettings(kr, ko) {
					for _, er := range expectSettings(ki, ko) {
						cases = append(cases, &hsCase{ID: fmt.Sprintf("honest/%s/%s-%s/i=%s/r=%s", proto, ti, tr, ei.kind, er.kind), Proto: proto,
							Init: mkSide(ki, ei.kind, ei.id), Resp: mkSide(kr, er.kind, er.id)})
					}
				}
				// the expected peer is an ALIAS of the remote's key: an ID that is not the one derived from
				// the key but from which (or from whose digest) the same key can be read
				for _, al := range aliasIDs(kr) {
					cases = append(cases, &hsCase{ID: fmt.Sprintf("honest/%s/%s-%s/i=%s/r=empty", proto, ti, tr, al.kind), Proto: proto,
						Init: mkSide(ki, al.kind, al.id), Resp: mkSide(kr, "empty", "")})
				}
				for _, al := range aliasIDs(ki) {
					cases = append(cases, &hsCase{ID: fmt.Sprintf("honest/%s/%s-%s/i=matching/r=%s", proto, ti, tr, al.kind), Proto: proto,
						Init: mkSide(ki, "matching", kr.ID), Resp: mkSide(kr, al.kind, al.id)})
				}
				if proto == "noise" {
					// check disabled on either side, with a wrong expectation
					ci := mkSide(ki, "different", ko.ID)
					ci.DisableCheck = true
					cases = append(cases, &hsCase{ID: fmt.Sprintf("honest/noise/%s-%s/i=disabled", ti, tr), Proto: proto, Init: ci, Resp: mkSide(kr, "empty", "")})
					cr := mkSide(kr, "different", ko.ID)
					cr.DisableCheck = true
					cases = append(cases, &hsCase{ID: fmt.Sprintf("honest/noise/%s-%s/r=disabled", ti, tr), Proto: proto, Init: mkSide(ki, "matching", kr.ID), Resp: cr})
					// prologues
					for pi, pp := range [][2][]byte{{[]byte("p1"), []byte("p1")}, {[]byte("p1"), []byte("p2")}, {[]byte("p1"), nil}, {nil, []byte("p2")}, {[]byte{}, nil}} {
						a, b := mkSide(ki, "matching", kr.ID), mkSide(kr, "empty", "")
						a.Prologue, b.Prologue = pp[0], pp[1]
						a.UseSession, b.UseSession = true, true
						cases = append(cases, &hsCase{ID: fmt.Sprintf("honest/noise/%s-%s/prologue%d", ti, tr, pi), Proto: proto, Init: a, Resp: b})
					}
				}
			}
		}
	}
	run.Parallel(len(cases), 0, func(i int) {
		c := cases[i]
		if !s.r.Want(c.ID) {
			return
		}
		res := runCase(s.t, c, nil)
		s.r.Eval(1)
		s.report(c, &res)
		if res.Init.OK && res.Resp.OK && res.Init.EchoOK && res.Resp.EchoOK {
			s.r.Count("honest_completed_both", 1)
			s.r.Nontrivial(c.ID)
		}
		mism := (strings.HasPrefix(c.Init.ExpectKind, "different") && !c.Init.DisableCheck) || (strings.HasPrefix(c.Resp.ExpectKind, "different") && !c.Resp.DisableCheck)
		if mism && (strings.Contains(c.Init.ExpectKind, "alias") || strings.Contains(c.Resp.ExpectKind, "alias")) && (!res.Init.OK || !res.Resp.OK) {
			s.r.Count("expected_peer_alias_of_the_remote_key_rejected", 1)
		}
		if mism && (!res.Init.OK || !res.Resp.OK || !res.Init.EchoOK) {
			s.r.Count("expect_mismatch_rejected", 1)
			s.r.Nontrivial(c.ID)
		}
		if c.ID == "honest/tls/ed25519-rsa/i=matching/r=different" || c.ID == "honest/noise/ecdsa-secp256k1/prologue1" {
			s.r.Sample(map[string]any{"case": c, "initiator": res.Init, "responder": res.Resp})
		}
	})
}

// enumerateEdits lists the single edits for a dry run's handshake frames.
func enumerateEdits(proto string, frames [2][]sectest.Frame, hs [2]int, stride int, bits []uint, phase int) []*sectest.Edit {
	var out []*sectest.Edit
	pos := phase
	for d := 0; d < 2; d++ {
		for j := 0; j < hs[d] && j < len(frames[d]); j++ {
			n := frames[d][j].Len + 4 // a few positions past the dry-run length: TLS lengths vary by a few bytes
			for off := 0; off < n; off++ {
				pos++
				if pos%stride != 0 {
					continue
				}
				for _, b := range bits {
					out = append(out, &sectest.Edit{Dir: d, Msg: j, Kind: "flip", Off: off, Bit: b})
				}
			}
			body := frames[d][j].Len - 2
			if proto == "tls" {
				body = frames[d][j].Len - 5
			}
			for _, n := range []int{1, body / 2, body - 1, body} {
				if n >= 1 && n <= body {
					out = append(out, &sectest.Edit{Dir: d, Msg: j, Kind: "trunc", N: n}, &sectest.Edit{Dir: d, Msg: j, Kind: "truncfix", N: n})
				}
			}
			for _, n := range []int{1, 16} {
				out = append(out, &sectest.Edit{Dir: d, Msg: j, Kind: "ext", N: n}, &sectest.Edit{Dir: d, Msg: j, Kind: "extfix", N: n})
			}
			out = append(out, &sectest.Edit{Dir: d, Msg: j, Kind: "drop"}, &sectest.Edit{Dir: d, Msg: j, Kind: "dup"})
		}
	}
	return out
}

func (s *state) tamperSweep() {
	type cfg struct {
		proto      string
		ti, tr     string
		expI, expR string
		stride     int
		bits       []uint
	}
	var cfgs []cfg
	for _, proto := range []string{"noise", "tls"} {
		for _, ti := range sectest.KeyTypes {
			for _, tr := range sectest.KeyTypes {
				full := ti == "ed25519" && tr == "ed25519"
				c := cfg{proto: proto, ti: ti, tr: tr, expI: "matching", expR: "empty", stride: 8, bits: []uint{0}}
				if full {
					c.stride = 1
				}
				if !s.r.Quick() {
					c.stride = 1
					c.bits = []uint{0, 7}
					if proto == "tls" && (ti == "rsa" || tr == "rsa") {
						c.stride = 2
					}
				}
				cfgs = append(cfgs, c)
				if !s.r.Quick() || full {
					// the responder names the initiator as well
					c2 := c
					c2.expR = "matching"
					if s.r.Quick() {
						c2.stride = 4
					}
					cfgs = append(cfgs, c2)
				}
			}
		}
	}
	for ci, cf := range cfgs {
		ki, kr := s.pool[cf.ti][0], s.pool[cf.tr][1]
		base := hsCase{Proto: cf.proto, Init: mkSide(ki, cf.expI, kr.ID), Resp: mkSide(kr, cf.expR, "")}
		if cf.expR == "matching" {
			base.Resp.Expect = ki.ID
		}
		prefix := fmt.Sprintf("tamper/%s/%s-%s/r=%s", cf.proto, cf.ti, cf.tr, cf.expR)
		dry := base
		dry.ID = prefix + "/dry"
		dres := runCase(s.t, &dry, nil)
		s.r.Eval(1)
		s.report(&dry, &dres)
		if !(dres.Init.OK && dres.Resp.OK) {
			s.r.Inconclusive(dry.ID, "dry run did not complete: "+dres.Init.Err+" / "+dres.Resp.Err)
			continue
		}
		edits := enumerateEdits(cf.proto, dres.Frames, dres.HSFrames, cf.stride, cf.bits, int(s.r.Seed)+ci)
		if ci == 0 {
			s.r.Extra("noise_handshake_frames", fmt.Sprintf("c2s=%d s2c=%d lens=%v", dres.HSFrames[0], dres.HSFrames[1], dres.Frames))
		}
		if cf.proto == "tls" && cf.ti == "ed25519" && cf.tr == "ed25519" && cf.expR == "empty" {
			s.r.Extra("tls_handshake_frames", fmt.Sprintf("c2s=%d s2c=%d lens=%v", dres.HSFrames[0], dres.HSFrames[1], dres.Frames))
		}
		run.Parallel(len(edits), 0, func(i int) {
			c := base
			c.Edit = edits[i]
			c.ID = prefix + "/" + c.Edit.String()
			if !s.r.Want(c.ID) || s.r.TooMany() {
				return
			}
			res := runCase(s.t, &c, nil)
			s.r.Eval(1)
			s.report(&c, &res)
			if res.NoEffect {
				s.r.Count("edits_replaced_equal_bytes", 1)
			}
			if !res.Applied {
				s.r.Count("edits_not_applied", 1)
				return
			}
			s.r.Count("edits_applied", 1)
			s.r.Count("edits_applied_"+cf.proto+"_"+c.Edit.Kind, 1)
			s.r.Nontrivial(c.ID)
			victim := res.Resp
			if c.Edit.Dir == 1 {
				victim = res.Init
			}
			switch {
			case exempt(&c, &res):
				s.r.Count("edits_exempt_unauthenticated_by_design", 1)
				if victim.OK {
					s.r.Count("edits_exempt_accepted", 1)
				}
			case !victim.OK:
				s.r.Count("edits_rejected_by_victim", 1)
			case trailing(&c, &res):
				s.r.Count("edits_trailing_rejected_as_data", 1)
			}
			if i == len(edits)/2 && s.r.SampleN() < 5 {
				s.r.Sample(map[string]any{"case": c, "initiator": res.Init, "responder": res.Resp})
			}
		})
	}
}
