package c01

import (
	"runtime"
	"testing"
	"time"

	"verif/harness/rig/run"
	"verif/harness/rig/sectest"
)

func TestDevLeak(t *testing.T) {
	r := run.New(t, "C01", "fault_enumeration")
	defer r.Finish()
	s := &state{r: r, t: t, pool: sectest.NewPool(3)}
	before := runtime.NumGoroutine()
	s.transportLevel()
	after := runtime.NumGoroutine()
	time.Sleep(2 * time.Second)
	after2 := runtime.NumGoroutine()
	t.Logf("LEAK goroutines before=%d after=%d after2s=%d", before, after, after2)
	if after2 > before+2 {
		buf := make([]byte, 1<<20)
		n := runtime.Stack(buf, true)
		t.Logf("%s", buf[:n])
	}
}
