// C01 extension — the transports that bring their own security (QUIC, WebTransport, WebRTC-direct) and
// the real TCP / WebSocket paths, over REAL loopback sockets (no synctest bubble anywhere in this file).
//
// Per case: three hosts built with libp2p.New over one transport T — listeners L (identity KL) and M
// (identity KM), dialer D (identity KD) — plus, for TCP, a raw attacker listener that upgrades inbound
// connections with the real upgrader under yet another key. Ground truth is the key each endpoint was
// constructed with. The dialer's transport object is taken from its swarm (TransportForDialing) so that
// transport.Dial is also judged WITHOUT the swarm's own re-check behind it.
//
//	(1) dial L expecting KL             -> must succeed; both ends report exactly the other's identity
//	(2) dial L's address expecting KM   -> transport.Dial, Host.Connect (peerstore holds L's address under
//	    M's id), Swarm.DialPeer, NewStream: every call must fail; nothing authenticated as M may be listed
//	(3) /p2p/<id> suffix or /certhash that does not match
//	(4) raw attacker behind a plain TCP listener (multistream + Noise/TLS with another key)
//
// Oracle (statement): "reports as its remote peer exactly the peer ID derived from a public key whose
// private key the remote used", "when the local side named the peer it expects, the handshake succeeds
// only if that peer ID matches", "a dial for peer P never hands the application a connection
// authenticated as anyone other than P". A refusal is never a violation; Require counters make sure the
// positive step succeeded for every transport that could be constructed, so refusals are not vacuous.
package c01

import (
	"context"
	crand "crypto/rand"
	"errors"
	"fmt"
	"io"
	"net"
	"os"
	"runtime"
	"strings"
	"sync"
	"time"

	"github.com/libp2p/go-libp2p"
	"github.com/libp2p/go-libp2p/core/host"
	"github.com/libp2p/go-libp2p/core/network"
	"github.com/libp2p/go-libp2p/core/peer"
	"github.com/libp2p/go-libp2p/core/peerstore"
	"github.com/libp2p/go-libp2p/core/sec"
	"github.com/libp2p/go-libp2p/core/transport"
	rcmgr "github.com/libp2p/go-libp2p/p2p/host/resource-manager"
	"github.com/libp2p/go-libp2p/p2p/muxer/yamux"
	"github.com/libp2p/go-libp2p/p2p/net/swarm"
	"github.com/libp2p/go-libp2p/p2p/net/upgrader"
	"github.com/libp2p/go-libp2p/p2p/security/noise"
	libp2ptls "github.com/libp2p/go-libp2p/p2p/security/tls"
	libp2pquic "github.com/libp2p/go-libp2p/p2p/transport/quic"
	"github.com/libp2p/go-libp2p/p2p/transport/tcp"
	libp2pwebrtc "github.com/libp2p/go-libp2p/p2p/transport/webrtc"
	"github.com/libp2p/go-libp2p/p2p/transport/websocket"
	libp2pwebtransport "github.com/libp2p/go-libp2p/p2p/transport/webtransport"
	ma "github.com/multiformats/go-multiaddr"
	manet "github.com/multiformats/go-multiaddr/net"
	"github.com/multiformats/go-multibase"
	"github.com/multiformats/go-multihash"

	"verif/harness/rig/run"
	"verif/harness/rig/sectest"
)

const (
	tptDialTimeout = 30 * time.Second // real-time backstop per call; a refusal by timeout is still a refusal
	tptQuiesce     = 20 * time.Second // backstop while waiting for the listener's view to settle
	tptWhoami      = "/c01/whoami/1"
)

type tptKind struct {
	Name     string
	Listen   string
	Opts     []libp2p.Option
	Certhash bool   // the address carries /certhash components that are bound into the handshake
	Attacker string // security protocol the raw TCP attacker speaks ("" = no attacker step)
}

func tptKinds() []tptKind {
	mux := libp2p.Muxer(yamux.ID, yamux.DefaultTransport)
	n := libp2p.Security(noise.ID, noise.New)
	t := libp2p.Security(libp2ptls.ID, libp2ptls.New)
	return []tptKind{
		{Name: "tcp-noise", Listen: "/ip4/127.0.0.1/tcp/0", Opts: []libp2p.Option{libp2p.Transport(tcp.NewTCPTransport), n, mux}, Attacker: "noise"},
		{Name: "tcp-tls", Listen: "/ip4/127.0.0.1/tcp/0", Opts: []libp2p.Option{libp2p.Transport(tcp.NewTCPTransport), t, mux}, Attacker: "tls"},
		{Name: "ws-noise", Listen: "/ip4/127.0.0.1/tcp/0/ws", Opts: []libp2p.Option{libp2p.Transport(websocket.New), n, mux}},
		{Name: "ws-tls", Listen: "/ip4/127.0.0.1/tcp/0/ws", Opts: []libp2p.Option{libp2p.Transport(websocket.New), t, mux}},
		{Name: "quic", Listen: "/ip4/127.0.0.1/udp/0/quic-v1", Opts: []libp2p.Option{libp2p.Transport(libp2pquic.NewTransport)}},
		{Name: "webtransport", Listen: "/ip4/127.0.0.1/udp/0/quic-v1/webtransport", Opts: []libp2p.Option{libp2p.Transport(libp2pwebtransport.New)}, Certhash: true},
		{Name: "webrtc-direct", Listen: "/ip4/127.0.0.1/udp/0/webrtc-direct", Opts: []libp2p.Option{libp2p.Transport(libp2pwebrtc.New)}, Certhash: true},
	}
}

func tptHost(k tptKind, key *sectest.Key, listen bool) (host.Host, error) {
	rm, err := rcmgr.NewResourceManager(rcmgr.NewFixedLimiter(rcmgr.InfiniteLimits), rcmgr.WithMetricsDisabled())
	if err != nil {
		return nil, err
	}
	opts := append([]libp2p.Option{libp2p.Identity(key.Priv), libp2p.DisableRelay(), libp2p.DisableMetrics(), libp2p.ResourceManager(rm)}, k.Opts...)
	if listen {
		opts = append(opts, libp2p.ListenAddrStrings(k.Listen))
	} else {
		opts = append(opts, libp2p.NoListenAddrs)
	}
	h, err := libp2p.New(opts...)
	if err != nil {
		rm.Close()
		return nil, err
	}
	return h, nil
}

// seen is what a listening endpoint observed about one inbound connection.
type seen struct {
	RemotePeer peer.ID `json:"remote_peer"`
	KeyHashes  bool    `json:"remote_key_hashes_to_remote_peer"`
	Dir        string  `json:"dir"`
	Phase      string  `json:"during_step"`
}

type watcher struct {
	mu    sync.Mutex
	phase string
	conns []seen
}

func (w *watcher) setPhase(p string) { w.mu.Lock(); w.phase = p; w.mu.Unlock() }

func (w *watcher) attach(h host.Host) {
	h.Network().Notify(&network.NotifyBundle{ConnectedF: func(_ network.Network, c network.Conn) {
		s := seen{RemotePeer: c.RemotePeer(), Dir: c.Stat().Direction.String()}
		if pk := c.RemotePublicKey(); pk != nil {
			if id, err := peer.IDFromPublicKey(pk); err == nil && id == c.RemotePeer() {
				s.KeyHashes = true
			}
		}
		w.mu.Lock()
		s.Phase = w.phase
		w.conns = append(w.conns, s)
		w.mu.Unlock()
	}})
}

func (w *watcher) snapshot() []seen {
	w.mu.Lock()
	defer w.mu.Unlock()
	return append([]seen(nil), w.conns...)
}

// tptStep is one call and what came back.
type tptStep struct {
	Step       string  `json:"step"`
	Call       string  `json:"call"`
	Addr       string  `json:"addr,omitempty"`
	Named      peer.ID `json:"named_peer"`
	Truth      peer.ID `json:"identity_really_behind_the_address"`
	OK         bool    `json:"returned_a_connection"`
	Err        string  `json:"err,omitempty"`
	RemotePeer peer.ID `json:"remote_peer,omitempty"`
	LocalPeer  peer.ID `json:"local_peer,omitempty"`
	KeyHashes  bool    `json:"remote_key_hashes_to_remote_peer,omitempty"`
	Mismatch   bool    `json:"refused_with_peer_id_mismatch,omitempty"`
	Timeout    bool    `json:"refused_by_timeout,omitempty"`
	Listed     int     `json:"conns_listed_under_named_peer_after_call"`
	Millis     int64   `json:"wall_ms"` // evidence only, never judged
}

type tptCase struct {
	ID        string    `json:"id"`
	Transport string    `json:"transport"`
	KeyL      string    `json:"listener_key_type"`
	KeyM      string    `json:"other_listener_key_type"`
	KeyD      string    `json:"dialer_key_type"`
	KeyA      string    `json:"attacker_key_type"`
	L, M, D   peer.ID   `json:"-"`
	IDs       [4]string `json:"ids_L_M_D_attacker"`
	Steps     []tptStep `json:"steps"`
	SeenByL   []seen    `json:"inbound_seen_by_L"`
	SeenByM   []seen    `json:"inbound_seen_by_M"`
	Attacker  []string  `json:"attacker_sessions,omitempty"`
}

func isMismatch(err error) bool {
	var m sec.ErrPeerIDMismatch
	return errors.As(err, &m) || strings.Contains(err.Error(), "mismatch") || strings.Contains(err.Error(), "unexpected peer")
}

func isTimeoutErr(err error) bool {
	var ne net.Error
	return errors.Is(err, context.DeadlineExceeded) || errors.Is(err, os.ErrDeadlineExceeded) || (errors.As(err, &ne) && ne.Timeout())
}

// swapCerthashes returns base's address with its /certhash components replaced by other's (or by a
// well-formed hash of random bytes when other is nil).
func swapCerthashes(base, other ma.Multiaddr) ma.Multiaddr {
	head, _ := ma.SplitFunc(base, func(c ma.Component) bool { return c.Protocol().Code == ma.P_CERTHASH })
	var tail []ma.Component
	if other != nil {
		ma.ForEach(other, func(c ma.Component) bool {
			if c.Protocol().Code == ma.P_CERTHASH {
				tail = append(tail, c)
			}
			return true
		})
	} else {
		d := make([]byte, 32)
		crand.Read(d)
		mh, _ := multihash.Encode(d, multihash.SHA2_256)
		s, _ := multibase.Encode(multibase.Base64url, mh)
		c, err := ma.NewComponent("certhash", s)
		if err != nil {
			panic(err)
		}
		tail = append(tail, *c)
	}
	out := head
	for i := range tail {
		out = out.Encapsulate(&tail[i])
	}
	return out
}

func (s *state) transportLevel() {
	if os.Getenv("VERIF_RACE") == "1" {
		return
	}
	// nothing started here may outlive this family (other families run in synctest bubbles in this process).
	// Every host and socket is closed by its case; what may linger for a few seconds are pure timer goroutines
	// of pion/sctp (Stream.SetReadDeadline, armed by BasicHost's stream Close): they are given 3 s and counted.
	baseline := runtime.NumGoroutine()
	defer func() {
		for dl := time.Now().Add(3 * time.Second); runtime.NumGoroutine() > baseline && time.Now().Before(dl); {
			time.Sleep(20 * time.Millisecond)
		}
		s.r.Count("tpt_goroutines_left_after_family", max(0, runtime.NumGoroutine()-baseline))
	}()
	s.r.Assume("transport level (transport_test.go): QUIC, WebTransport, WebRTC-direct, TCP and WebSocket are driven over real loopback sockets with hosts built by libp2p.New; quic-go, webtransport-go, pion and gorilla/websocket are trusted beyond what these cases exercise; a refusal (also by a real-time limit) is never judged, only counted")
	kinds := tptKinds()
	type job struct {
		k             tptKind
		ktL, ktM, ktD string
	}
	var jobs []job
	for ki, k := range kinds {
		for li, ktL := range sectest.KeyTypes {
			for di, ktD := range sectest.KeyTypes {
				// quick: three or four key-type pairs per transport, rotating with the seed (all four types occur on
				// both sides across the transports); thorough: the full crossing
				if s.r.Quick() && (li*4+di+ki*3+int(s.r.Seed%5))%5 != 0 {
					continue
				}
				// the other listener M (the identity wrongly expected) has L's key type or the next one
				next := sectest.KeyTypes[(li+1)%4]
				if s.r.Quick() {
					if (int(s.r.Seed)+ki)%2 == 0 {
						next = ktL
					}
					jobs = append(jobs, job{k, ktL, next, ktD})
					continue
				}
				jobs = append(jobs, job{k, ktL, ktL, ktD}, job{k, ktL, next, ktD})
			}
		}
	}
	unavailable := map[string]string{}
	var umu sync.Mutex
	run.Parallel(len(jobs), 4, func(i int) {
		j := jobs[i]
		id := fmt.Sprintf("transport/%s/L=%s/M=%s/D=%s", j.k.Name, j.ktL, j.ktM, j.ktD)
		if !s.r.Want(id) || s.r.TooMany() {
			return
		}
		umu.Lock()
		_, skip := unavailable[j.k.Name]
		umu.Unlock()
		if skip {
			return
		}
		if why := s.tptCase(id, j.k, j.ktL, j.ktM, j.ktD); why != "" {
			umu.Lock()
			unavailable[j.k.Name] = why
			umu.Unlock()
			s.r.Count("tpt_unavailable/"+j.k.Name, 1)
		}
	})
	for k, why := range unavailable {
		s.r.Extra("tpt_unavailable_"+k, why)
	}
	if s.r.Replaying() {
		return
	}
	for _, k := range kinds {
		if _, un := unavailable[k.Name]; !un {
			s.r.Require("tpt_positive_both_ends_ok/"+k.Name, s.r.Pick(1, 32))
			s.r.Require("tpt_wrong_peer_refused/"+k.Name, s.r.Pick(3, 96))
		}
	}
	s.r.Require("tpt_positive_both_ends_ok/tcp-noise", 1) // needs nothing but loopback TCP: never "unavailable"
	s.r.Require("tpt_refused_with_mismatch_error", s.r.Pick(10, 400))
	s.r.Require("tpt_attacker_refused", s.r.Pick(2, 64))
}

// tptCase runs the whole scenario for one (transport, key types). It returns a non-empty reason if the
// transport could not be constructed here. Every host and socket it opened is closed when it returns.
func (s *state) tptCase(id string, k tptKind, ktL, ktM, ktD string) (unavailable string) {
	KL, KM, KD := s.pool[ktL][0], s.pool[ktM][1], s.pool[ktD][2]
	// the attacker's own valid key: any pool key that nobody else in this case holds
	var KA *sectest.Key
	var ktA string
	for i := 0; KA == nil; i++ {
		ktA = sectest.KeyTypes[(len(ktL)+len(ktD)+len(k.Name)+i)%4]
		for _, cand := range s.pool[ktA] {
			if cand.ID != KL.ID && cand.ID != KM.ID && cand.ID != KD.ID {
				KA = cand
				break
			}
		}
	}
	c := &tptCase{ID: id, Transport: k.Name, KeyL: ktL, KeyM: ktM, KeyD: ktD, KeyA: ktA, L: KL.ID, M: KM.ID, D: KD.ID,
		IDs: [4]string{KL.ID.String(), KM.ID.String(), KD.ID.String(), KA.ID.String()}}
	var hosts []host.Host
	defer func() {
		for _, h := range hosts {
			t0 := time.Now()
			h.Close()
			if d := time.Since(t0); d > 2*time.Second {
				s.r.Count("tpt_slow_host_close_over_2s/"+k.Name, 1)
			}
		}
	}()
	mk := func(key *sectest.Key, listen bool) host.Host {
		if unavailable != "" {
			return nil
		}
		h, err := tptHost(k, key, listen)
		if err != nil {
			unavailable = err.Error()
			return nil
		}
		hosts = append(hosts, h)
		return h
	}
	L, M, D := mk(KL, true), mk(KM, true), mk(KD, false)
	if unavailable != "" {
		return
	}
	if len(L.Addrs()) == 0 || len(M.Addrs()) == 0 {
		return "host has no listen address"
	}
	s.r.Eval(1)
	addrL, addrM := L.Addrs()[0], M.Addrs()[0]
	wL, wM := &watcher{}, &watcher{}
	wL.attach(L)
	wM.attach(M)
	L.SetStreamHandler(tptWhoami, func(st network.Stream) {
		fmt.Fprintf(st, "%s %s\n", st.Conn().RemotePeer(), st.Conn().LocalPeer())
		st.Close()
	})
	sw := D.Network().(*swarm.Swarm)
	tD := sw.TransportForDialing(addrL)
	if tD == nil {
		return "dialer has no transport for " + addrL.String()
	}

	viol := func(sig, msg string) {
		c.SeenByL, c.SeenByM = wL.snapshot(), wM.snapshot()
		s.r.Violation(sig+"/"+k.Name, id, msg, map[string]any{"case": c})
	}
	// judge applies the identity oracle to a call that RETURNED A CONNECTION.
	//   truth: the identity really behind the dialed address; named: the peer the caller asked for.
	judge := func(st *tptStep, mustFail bool) {
		if !st.OK {
			return
		}
		switch {
		case mustFail:
			// "when the local side named the peer it expects, the handshake succeeds only if that peer ID
			// matches" / "a dial for peer P never hands the application a connection authenticated as anyone other than P"
			viol("wrong-peer:"+st.Call+"-returned-a-connection", fmt.Sprintf("%s: %s for %s against an endpoint that holds the key of %s returned a connection (RemotePeer %s)", st.Step, st.Call, st.Named, st.Truth, st.RemotePeer))
		case st.RemotePeer != st.Truth:
			// "reports as its remote peer exactly the peer ID derived from a public key whose private key the remote used"
			viol("identity:"+st.Call+"-reports-wrong-remote-peer", fmt.Sprintf("%s: connection reports RemotePeer %q, the endpoint holds the key of %s", st.Step, st.RemotePeer, st.Truth))
		case !st.KeyHashes:
			viol("identity:"+st.Call+"-remote-key-does-not-hash-to-remote-peer", st.Step+": RemotePublicKey does not hash to RemotePeer")
		case st.LocalPeer != KD.ID:
			viol("identity:"+st.Call+"-wrong-local-peer", st.Step+": LocalPeer is not the dialer's identity")
		}
	}
	var t0 time.Time
	record := func(st tptStep, err error) *tptStep {
		st.Millis = time.Since(t0).Milliseconds()
		if err != nil {
			st.Err, st.Mismatch, st.Timeout = err.Error(), isMismatch(err), isTimeoutErr(err)
		}
		if st.Named != "" {
			st.Listed = len(D.Network().ConnsToPeer(st.Named))
		}
		c.Steps = append(c.Steps, st)
		return &c.Steps[len(c.Steps)-1]
	}
	// tdial: transport.Dial without the swarm behind it. The connection (if any) is closed here.
	tdial := func(step string, addr ma.Multiaddr, named, truth peer.ID) *tptStep {
		wL.setPhase(step)
		t0 = time.Now()
		ctx, cancel := context.WithTimeout(context.Background(), tptDialTimeout)
		defer cancel()
		st := tptStep{Step: step, Call: "transport.Dial", Addr: addr.String(), Named: named, Truth: truth}
		before := len(wL.snapshot())
		var cc transport.CapableConn
		var err error
		func() {
			defer func() {
				if r := recover(); r != nil {
					err = fmt.Errorf("panic: %v", r)
				}
			}()
			cc, err = tD.Dial(ctx, addr, named)
		}()
		if err == nil && cc != nil {
			st.OK, st.RemotePeer, st.LocalPeer = true, cc.RemotePeer(), cc.LocalPeer()
			if pk := cc.RemotePublicKey(); pk != nil {
				if pid, e := peer.IDFromPublicKey(pk); e == nil && pid == st.RemotePeer {
					st.KeyHashes = true
				}
			}
			// keep it open until L's swarm has shown its end of it (watchdog 5 s): the listener's view of a
			// connection dialed below the swarm is part of what is judged at the end
			for dl := time.Now().Add(5 * time.Second); truth == KL.ID && len(wL.snapshot()) == before && time.Now().Before(dl); {
				time.Sleep(500 * time.Microsecond)
			}
			if truth == KL.ID && len(wL.snapshot()) == before {
				s.r.Count("tpt_listener_never_showed_transport_level_conn/"+k.Name, 1)
			}
			cc.Close()
		}
		if err != nil && strings.HasPrefix(err.Error(), "panic:") {
			s.r.Count("tpt_dial_panicked/"+k.Name, 1)
		}
		return record(st, err)
	}
	// hdial: through the host / swarm. Connections are closed afterwards.
	hdial := func(step, call string, named, truth peer.ID, addrs []ma.Multiaddr) *tptStep {
		wL.setPhase(step)
		sw.Backoff().Clear(named)
		t0 = time.Now()
		ctx, cancel := context.WithTimeout(context.Background(), tptDialTimeout)
		defer cancel()
		st := tptStep{Step: step, Call: call, Named: named, Truth: truth}
		if len(addrs) > 0 {
			st.Addr = fmt.Sprint(addrs)
		}
		var err error
		var nc network.Conn
		switch call {
		case "Host.Connect":
			err = D.Connect(ctx, peer.AddrInfo{ID: named, Addrs: addrs})
		case "Swarm.DialPeer":
			nc, err = D.Network().DialPeer(ctx, named)
		case "Host.NewStream":
			var str network.Stream
			str, err = D.NewStream(ctx, named, tptWhoami)
			if err == nil {
				nc = str.Conn()
				str.Reset()
			}
		}
		if err == nil {
			if nc == nil {
				if cs := D.Network().ConnsToPeer(named); len(cs) > 0 {
					nc = cs[0]
				}
			}
			st.OK = true
			if nc != nil {
				st.RemotePeer, st.LocalPeer = nc.RemotePeer(), nc.LocalPeer()
				if pk := nc.RemotePublicKey(); pk != nil {
					if pid, e := peer.IDFromPublicKey(pk); e == nil && pid == st.RemotePeer {
						st.KeyHashes = true
					}
				}
			}
		}
		return record(st, err)
	}
	// listed: nothing may be listed under a peer the dialer never really reached
	listedNothing := func(step string, p peer.ID) {
		for _, cn := range D.Network().Conns() {
			if cn.RemotePeer() == p {
				viol("wrong-peer:connection-listed-under-unreached-peer", fmt.Sprintf("%s: Network().Conns() lists a connection to %s (remote addr %s); no endpoint holding that key was ever dialed", step, p, cn.RemoteMultiaddr()))
				return
			}
		}
		if D.Network().Connectedness(p) == network.Connected {
			viol("wrong-peer:connectedness-to-unreached-peer", fmt.Sprintf("%s: Connectedness(%s) == Connected", step, p))
		}
	}
	// settle waits (watchdog only) until L lists no connection any more and returns what was left
	settle := func() int {
		start := time.Now()
		deadline := start.Add(tptQuiesce)
		for {
			n := len(L.Network().Conns())
			if n == 0 || time.Now().After(deadline) {
				if d := time.Since(start); d > time.Second {
					c.Steps = append(c.Steps, tptStep{Step: "settle: waited for L's connection list to drain", Millis: d.Milliseconds(), Listed: n})
				}
				return n
			}
			time.Sleep(2 * time.Millisecond)
		}
	}
	refused := func(st *tptStep) {
		if st.OK {
			return
		}
		s.r.Count("tpt_wrong_peer_refused/"+k.Name, 1)
		switch {
		case st.Mismatch:
			s.r.Count("tpt_refused_with_mismatch_error", 1)
			s.r.Count("tpt_refused_with_mismatch_error/"+k.Name, 1)
		case st.Timeout:
			s.r.Count("tpt_refused_by_timeout/"+k.Name, 1)
		default:
			s.r.Count("tpt_refused_other_error/"+k.Name, 1)
		}
	}

	// ---- (1) the right peer: must succeed, both ends report the other's real identity ----------------
	// (a failed positive control is repeated once: under heavy CPU contention a WebRTC/QUIC handshake may
	// hit one of the libraries' own real-time limits; the negative steps below do not depend on it)
	var st *tptStep
	positives := 0
	for attempt := 0; attempt < 2 && positives < 2 && s.r.Violations() == 0; attempt++ {
		positives = 0
		st = tdial("1a-transport-dial-right-peer", addrL, KL.ID, KL.ID)
		judge(st, false)
		if st.OK && st.RemotePeer == KL.ID && st.KeyHashes {
			positives++
		}
		settle()
		st = hdial("1b-connect-right-peer", "Host.Connect", KL.ID, KL.ID, []ma.Multiaddr{addrL})
		judge(st, false)
		if st.OK && st.RemotePeer == KL.ID && st.KeyHashes {
			// usable, and L's view of this very connection: ask L over a stream whom it is talking to
			ctx, cancel := context.WithTimeout(context.Background(), tptDialTimeout)
			str, err := D.NewStream(ctx, KL.ID, tptWhoami)
			if err == nil {
				str.SetDeadline(time.Now().Add(tptDialTimeout))
				b, _ := io.ReadAll(io.LimitReader(str, 300))
				str.Close()
				want := fmt.Sprintf("%s %s\n", KD.ID, KL.ID)
				switch {
				case string(b) == want:
					positives++
				case len(b) > 0 && strings.HasSuffix(string(b), "\n"):
					// the listener's end of "both sides must report exactly the other's real identity"
					viol("identity:listener-reports-wrong-remote-peer", fmt.Sprintf("1b: the listener says %q about the connection, ground truth is %q", b, want))
				default:
					c.Steps = append(c.Steps, tptStep{Step: "1b-whoami", Call: "Host.NewStream", Err: fmt.Sprintf("incomplete answer %q", b)})
				}
			} else {
				c.Steps = append(c.Steps, tptStep{Step: "1b-whoami", Call: "Host.NewStream", Err: err.Error()})
			}
			cancel()
		}
		D.Network().ClosePeer(KL.ID)
		D.Peerstore().ClearAddrs(KL.ID)
		settle()
	}
	if positives == 2 {
		s.r.Count("tpt_positive_both_ends_ok/"+k.Name, 1)
		s.r.Count("tpt_positive_both_ends_ok/key="+ktL, 1)
		s.r.Nontrivial(id)
	} else if s.r.Violations() == 0 {
		s.r.Inconclusive(id, fmt.Sprintf("positive control did not complete (twice): %.600s", fmt.Sprintf("%+v", c.Steps)))
	}

	// ---- (2) L's address, expecting M ------------------------------------------------------------------
	st = tdial("2a-transport-dial-wrong-peer", addrL, KM.ID, KL.ID)
	judge(st, true)
	refused(st)
	// empty expectation: allowed to fail; if it succeeds it must report L, never "" or anyone else
	st = tdial("2b-transport-dial-no-expectation", addrL, "", KL.ID)
	judge(st, false)
	if st.OK {
		s.r.Count("tpt_empty_expectation_accepted/"+k.Name, 1)
	} else {
		s.r.Count("tpt_empty_expectation_refused/"+k.Name, 1)
	}
	D.Peerstore().AddAddrs(KM.ID, []ma.Multiaddr{addrL}, peerstore.PermanentAddrTTL)
	for _, call := range []string{"Host.Connect", "Swarm.DialPeer", "Host.NewStream"} {
		st = hdial("2c-peerstore-holds-L's-address-under-M", call, KM.ID, KL.ID, nil)
		judge(st, true)
		refused(st)
		if st.Listed != 0 {
			viol("wrong-peer:connection-listed-under-unreached-peer", fmt.Sprintf("%s via %s: ConnsToPeer(M) lists %d connection(s) right after the call", st.Step, call, st.Listed))
		}
		listedNothing(st.Step, KM.ID)
	}

	// ---- (3) /p2p suffix and /certhash that do not match -----------------------------------------------
	p2pM, _ := ma.NewComponent("p2p", KM.ID.String())
	p2pL, _ := ma.NewComponent("p2p", KL.ID.String())
	if ai, err := peer.AddrInfoFromP2pAddr(addrL.Encapsulate(p2pM)); err == nil {
		D.Peerstore().ClearAddrs(KM.ID)
		st = hdial("3a-connect-L's-address-with-/p2p/M", "Host.Connect", ai.ID, KL.ID, ai.Addrs)
		judge(st, true)
		refused(st)
		listedNothing(st.Step, KM.ID)
	}
	// named L, suffix says M: a refusal is fine, a connection must be L's
	st = hdial("3b-connect-L-with-address-suffixed-/p2p/M", "Host.Connect", KL.ID, KL.ID, []ma.Multiaddr{addrL.Encapsulate(p2pM)})
	judge(st, false)
	s.r.Count(fmt.Sprintf("tpt_suffix_other_peer_named_right_peer_ok=%v/%s", st.OK, k.Name), 1)
	D.Network().ClosePeer(KL.ID)
	D.Peerstore().ClearAddrs(KL.ID)
	listedNothing(st.Step, KM.ID)
	if tD.CanDial(addrL.Encapsulate(p2pL)) {
		st = tdial("3c-transport-dial-suffix-L-named-M", addrL.Encapsulate(p2pL), KM.ID, KL.ID)
		judge(st, true)
		refused(st)
	} else {
		s.r.Count("tpt_transport_rejects_suffixed_addr/"+k.Name, 1)
	}
	if k.Certhash {
		for vi, bad := range []ma.Multiaddr{swapCerthashes(addrL, addrM), swapCerthashes(addrL, nil)} {
			name := []string{"M's-certhash", "random-certhash"}[vi]
			// the certificate hash is bound into the handshake (TLS pin + Noise extension for WebTransport,
			// DTLS fingerprint + Noise prologue for WebRTC): L does not hold that certificate, so a handshake
			// that completes accepted a foreign channel binding (quantifier: "every prologue pairing")
			st = tdial("3d-transport-dial-L's-socket-with-"+name, bad, KL.ID, KL.ID)
			if st.OK {
				viol("certhash:mismatch-accepted:transport.Dial", fmt.Sprintf("%s: dial of %s completed although the listener's certificate does not have that hash", st.Step, bad))
			} else {
				s.r.Count("tpt_certhash_mismatch_refused/"+k.Name, 1)
			}
			D.Peerstore().ClearAddrs(KL.ID)
			st = hdial("3e-connect-L's-socket-with-"+name, "Host.Connect", KL.ID, KL.ID, []ma.Multiaddr{bad})
			if st.OK {
				viol("certhash:mismatch-accepted:Host.Connect", fmt.Sprintf("%s: Connect through %s completed although the listener's certificate does not have that hash", st.Step, bad))
			} else {
				s.r.Count("tpt_certhash_mismatch_refused/"+k.Name, 1)
			}
			D.Network().ClosePeer(KL.ID)
			D.Peerstore().ClearAddrs(KL.ID)
		}
	}

	// ---- (4) raw attacker behind a plain TCP listener ---------------------------------------------------
	if k.Attacker != "" {
		s.tptAttacker(c, k, KA, KL, KD, tdial, hdial, judge, viol, listedNothing, D)
	}

	// ---- quiescence: what the listeners saw, what is left ------------------------------------------------
	left := settle()
	c.SeenByL, c.SeenByM = wL.snapshot(), wM.snapshot()
	for _, sn := range append(append([]seen(nil), c.SeenByL...), c.SeenByM...) {
		// every inbound connection came from D: ground truth for the listeners' side of the rule
		if sn.RemotePeer != KD.ID || !sn.KeyHashes {
			viol("identity:listener-reports-wrong-remote-peer", fmt.Sprintf("a listener saw an inbound connection from %s (key hashes to it: %v) during %q; only %s ever dialed", sn.RemotePeer, sn.KeyHashes, sn.Phase, KD.ID))
			break
		}
		if !strings.HasPrefix(sn.Phase, "1") && !strings.HasPrefix(sn.Phase, "3b") {
			s.r.Count("tpt_listener_saw_conn_during_refused_dial/"+k.Name, 1)
		}
	}
	if len(c.SeenByM) > 0 {
		s.r.Count("tpt_M_saw_inbound/"+k.Name, len(c.SeenByM))
	}
	if n := len(D.Network().Conns()); n != 0 {
		// every successful dial above was closed again and every other dial failed: anything still listed is a
		// connection that a FAILED dial left behind
		viol("wrong-peer:dialer-retains-connection-after-failed-dial", fmt.Sprintf("the dialer still lists %d connection(s) at the end: %v", n, D.Network().Conns()))
	}
	listedNothing("end", KM.ID)
	listedNothing("end", KA.ID)
	if left != 0 {
		// not part of the identity statement and only a real-time observation: noted, not raised
		s.r.Count("tpt_listener_conn_survived_watchdog/"+k.Name, left)
		s.r.Inconclusive(id, fmt.Sprintf("L still lists %d connection(s) %v after every dial was closed or refused", left, tptQuiesce))
	}
	if s.r.SampleN() < 4 && (k.Name == "quic" || k.Name == "webrtc-direct" || k.Name == "tcp-tls") {
		s.r.Sample(map[string]any{"kind": "transport-level", "case": c})
	}
	return
}

// tptAttacker: a plain TCP listener whose accepted connections are upgraded by the REAL upgrader
// (multistream + Noise or TLS + yamux) under the attacker's own valid key KA. The victim dials that
// address expecting KL: the call must fail.
func (s *state) tptAttacker(c *tptCase, k tptKind, KA, KL, KD *sectest.Key,
	tdial func(string, ma.Multiaddr, peer.ID, peer.ID) *tptStep,
	hdial func(string, string, peer.ID, peer.ID, []ma.Multiaddr) *tptStep,
	judge func(*tptStep, bool), viol func(string, string), listedNothing func(string, peer.ID), D host.Host) {
	ln, err := net.Listen("tcp", "127.0.0.1:0")
	if err != nil {
		s.r.Inconclusive(c.ID, "attacker listen: "+err.Error())
		return
	}
	u, err := upgrader.New([]sec.SecureTransport{sectest.NewSec(k.Attacker, KA)}, sectest.Muxers, nil, &network.NullResourceManager{}, nil)
	if err != nil {
		panic(err)
	}
	var mu sync.Mutex
	var awg sync.WaitGroup
	awg.Add(1)
	go func() {
		defer awg.Done()
		for {
			raw, err := ln.Accept()
			if err != nil {
				return
			}
			awg.Add(1)
			go func() {
				defer awg.Done()
				defer raw.Close()
				mc, err := manet.WrapNetConn(raw)
				if err != nil {
					return
				}
				ctx, cancel := context.WithTimeout(context.Background(), 10*time.Second)
				defer cancel()
				cc, err := u.Upgrade(ctx, nil, mc, network.DirInbound, "", &network.NullScope{})
				note := "attacker's upgrade failed: "
				if err == nil {
					// the attacker's side completed (it learns who dialed); it keeps the connection open for a moment
					// so that a victim that did NOT refuse would have a fully usable connection to the wrong peer
					note = fmt.Sprintf("attacker's upgrade COMPLETED, remote=%s", cc.RemotePeer())
					if cc.RemotePeer() != KD.ID {
						note += " (NOT the dialer's identity)"
					}
					time.Sleep(50 * time.Millisecond)
					cc.Close()
				} else {
					note += err.Error()
				}
				mu.Lock()
				c.Attacker = append(c.Attacker, note)
				mu.Unlock()
			}()
		}
	}()
	addrA, err := manet.FromNetAddr(ln.Addr())
	if err != nil {
		panic(err)
	}
	st := tdial("4a-transport-dial-attacker-expecting-L", addrA, KL.ID, KA.ID)
	judge(st, true)
	refusedA := !st.OK
	D.Peerstore().ClearAddrs(KL.ID)
	st = hdial("4b-connect-attacker-expecting-L", "Host.Connect", KL.ID, KA.ID, []ma.Multiaddr{addrA})
	judge(st, true)
	refusedA = refusedA && !st.OK
	if st.Listed != 0 {
		viol("wrong-peer:connection-listed-under-unreached-peer", fmt.Sprintf("%s: ConnsToPeer(L) lists %d connection(s) although only the attacker was dialed", st.Step, st.Listed))
	}
	D.Network().ClosePeer(KL.ID)
	D.Peerstore().ClearAddrs(KL.ID)
	ln.Close()
	awg.Wait()
	mu.Lock()
	for _, n := range c.Attacker {
		if strings.Contains(n, "NOT the dialer's identity") {
			viol("identity:attacker-side-reports-wrong-remote-peer", n)
		}
		if strings.Contains(n, "COMPLETED") {
			s.r.Count("tpt_attacker_side_completed/"+k.Name, 1)
		}
	}
	mu.Unlock()
	if refusedA {
		s.r.Count("tpt_attacker_refused", 1)
		s.r.Count("tpt_attacker_refused/"+k.Name, 1)
	}
}
