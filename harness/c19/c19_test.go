// C19 — HTTP Peer-ID auth reports only proven identities.
//
// Observation points: the real ServerPeerIDAuth's Next callback (peer id reported to the application)
// and the return value of the real ClientPeerIDAuth.AuthenticatedDo (server id reported to the caller).
// Oracle: an independent re-verifier (oracle.go, wire.go). It remembers every challenge state and
// bearer token each server instance put on the wire (instance, request hostname, virtual time) and, for
// every acceptance, re-derives from the request ACTUALLY received — with core/crypto and its own
// construction of the signing pre-image — whether the reported identity was proven as the statement
// demands. Rejections are never alarms; acceptances of re-encoded but equivalent requests are justified
// by the same rule as any other acceptance.
// Workload: real handshakes in both flows for 4 key types, then every parameter of every header
// mutated / dropped / duplicated / swapped between sessions, hostnames, clients and servers, an
// attacker with his own valid keys who re-signs deliberately wrong pre-images and edits the inside of
// opaque blobs, a malicious server in front of the real client, a dense grid of instants around the
// challenge and token lifetimes in virtual time, and concurrent handshakes on one instance.
package c19

import (
	"crypto/hmac"
	"crypto/sha256"
	"encoding/base64"
	"fmt"
	"math/rand/v2"
	"os"
	"sort"
	"strings"
	"sync"
	"testing"
	"testing/synctest"
	"time"

	"github.com/libp2p/go-libp2p/core/peer"

	"verif/harness/rig/run"
)

// ---------------------------------------------------------------------------------------------
// universe

type universe struct {
	serverKT []int        // key type of server i
	servers  []*ident     // server identities
	clients  [3][4]*ident // client j, key type k
	attacker [4]*ident    // the attacker's own (valid) keys, one per key type
	hosts    []string
}

var hostNames = []string{"a.example", "b.example:8443"}

func newUniverse(r *run.R) (*universe, error) {
	u := &universe{hosts: hostNames}
	u.serverKT = []int{ktEd25519, ktECDSA}
	if !r.Quick() {
		u.serverKT = []int{ktEd25519, ktECDSA, ktSecp256k1, ktRSA}
	}
	type job struct {
		dst  **ident
		name string
		kt   int
		sid  uint64
	}
	var jobs []job
	u.servers = make([]*ident, len(u.serverKT))
	for i, kt := range u.serverKT {
		jobs = append(jobs, job{&u.servers[i], fmt.Sprintf("server%d-%s", i, ktNames[kt]), kt, uint64(100 + i)})
	}
	for j := 0; j < 3; j++ {
		for kt := 0; kt < 4; kt++ {
			jobs = append(jobs, job{&u.clients[j][kt], fmt.Sprintf("client%d-%s", j, ktNames[kt]), kt, uint64(200 + 10*j + kt)})
		}
	}
	for kt := 0; kt < 4; kt++ {
		jobs = append(jobs, job{&u.attacker[kt], "attacker-" + ktNames[kt], kt, uint64(300 + kt)})
	}
	var mu sync.Mutex
	var firstErr error
	run.Parallel(len(jobs), 0, func(i int) {
		j := jobs[i]
		id, err := newIdent(r.Rand(1, j.sid), j.name, j.kt)
		mu.Lock()
		defer mu.Unlock()
		if err != nil && firstErr == nil {
			firstErr = err
		}
		*j.dst = id
	})
	return u, firstErr
}

// ---------------------------------------------------------------------------------------------
// scenario plumbing

type stats map[string]int

type scen struct {
	mu     sync.Mutex // bookkeeping only (the concurrent family shares one scen between goroutines)
	r      *run.R
	caseID string
	rng    *rand.Rand
	u      *universe
	w      *world
	S      *instance // server under attack
	O      *instance // another server: different key, different secret
	T      *instance // twin: SAME key as S, different secret
	st     stats
	evals  int
	nviol  int
	t0     time.Time
	valid  int // valid handshakes accepted in this scenario
	reject int // mutated requests rejected in this scenario
}

func newScen(r *run.R, u *universe, caseID string, sIdx int, tokenTTL time.Duration, streams ...uint64) *scen {
	sc := &scen{r: r, caseID: caseID, u: u, rng: r.Rand(streams...), w: &world{}, st: stats{}, t0: time.Now()}
	oIdx := (sIdx + 1) % len(u.servers)
	hosts := u.hosts
	sc.S = sc.w.newInstance("S", u.servers[sIdx], rngBytes(sc.rng, 32), tokenTTL, sIdx%2 == 1, hosts...)
	sc.O = sc.w.newInstance("O", u.servers[oIdx], nil, tokenTTL, sIdx%2 == 0, hosts...)
	sc.T = sc.w.newInstance("T", u.servers[sIdx], rngBytes(sc.rng, 32), tokenTTL, sIdx%2 == 1, hosts...)
	sc.watch(sc.S, sc.O, sc.T)
	return sc
}

func (sc *scen) count(k string) { sc.mu.Lock(); sc.st[k]++; sc.mu.Unlock() }
func (sc *scen) eval()          { sc.mu.Lock(); sc.evals++; sc.mu.Unlock() }
func (sc *scen) bump(p *int)    { sc.mu.Lock(); *p++; sc.mu.Unlock() }

// watch books the requests that reach an instance through a real client's round tripper.
func (sc *scen) watch(ins ...*instance) {
	for _, in := range ins {
		in.onPanic = func(c *call) {
			// not a clause of the statement by itself, but the only way shared (pooled) handshake state
			// shows up without the race detector; the driver treats a crashed child the same way
			sc.bump(&sc.nviol)
			first := strings.SplitN(c.panicked, "\n", 2)[0]
			sc.r.Violation("server-panic/"+strings.SplitN(sc.caseID, "/", 2)[0], sc.caseID, "ServeHTTP panicked: "+first,
				map[string]any{"instance": in.name, "request_host": c.host, "request_authorization": c.authz, "panic": c.panicked})
		}
		in.viaClient = func(c *call) {
			sc.eval()
			switch {
			case c.accepted && !c.v.ok:
				sc.violation("server-accept/"+c.v.reason+"/via-real-client", "server reported a peer id without proof", in,
					attack{kind: "via-real-client", host: c.host, sni: c.sni, authz: c.authz}, c)
			case c.accepted:
				if c.v.otherHost {
					sc.count("token_accepted_under_other_hostname")
				}
				sc.count("srv_via_client_accepted_justified")
			}
		}
	}
}

func (sc *scen) flush() {
	for k, v := range sc.st {
		sc.r.Count(k, v)
	}
	sc.r.Eval(sc.evals)
	if sc.valid > 0 && sc.reject > 0 {
		sc.r.Nontrivial(sc.caseID)
	}
}

func (sc *scen) stop() bool {
	sc.mu.Lock()
	n := sc.nviol
	sc.mu.Unlock()
	return n >= 3 || sc.r.TooMany()
}

func (sc *scen) challenge() string { return b64(rngBytes(sc.rng, 32)) }

func sign(id *ident, data []byte) string {
	sig, err := id.priv.Sign(data)
	if err != nil {
		panic(err)
	}
	return b64(sig)
}

// session is one complete handshake done by hand with the harness's own wire code.
type session struct {
	in     *instance
	host   string
	cl     *ident
	flow   string
	www    []kv   // parameters of the server's WWW-Authenticate
	proof  []kv   // parameters of the request that proves the client's identity
	info   []kv   // parameters of the server's Authentication-Info
	bearer string // the token (base64 text)
	chS    string // the client's challenge-server
	ok     bool   // the real server reported cl.id and the oracle agreed
}

const (
	flowClient = "client-init"
	flowServer = "server-init"
)

// rawSession performs a valid handshake by hand. It doubles as the cross-check between the harness's
// pre-image and the real code: the real server must accept our signature, and the real server's
// signature must verify over our pre-image.
func (sc *scen) rawSession(in *instance, host string, cl *ident, flow string) *session {
	s := &session{in: in, host: host, cl: cl, flow: flow, chS: sc.challenge()}
	var first *call
	if flow == flowServer {
		first = in.serve(host)
	} else {
		first = in.serve(host, buildHeader([]kv{{"challenge-server", s.chS}, {"public-key", b64(cl.pubBytes)}}))
	}
	sc.eval()
	s.www = orderedParams(first.respHdr.Get("WWW-Authenticate"))
	chC, opq := getParam(s.www, "challenge-client"), getParam(s.www, "opaque")
	if first.status != 401 || chC == "" || opq == "" {
		sc.count("raw_handshake_no_challenge")
		return s
	}
	sig := sign(cl, clientProofData(chC, in.id.pubBytes, host))
	if flow == flowServer {
		s.proof = []kv{{"public-key", b64(cl.pubBytes)}, {"challenge-server", s.chS}, {"sig", sig}, {"opaque", opq}}
	} else {
		s.proof = []kv{{"opaque", opq}, {"sig", sig}}
	}
	c := in.serve(host, buildHeader(s.proof))
	sc.eval()
	s.info = orderedParams(c.respHdr.Get("Authentication-Info"))
	s.bearer = getParam(s.info, "bearer")
	s.ok = sc.expectValid("raw-"+flow, in, c, cl)
	// the real server's own signature, checked with the harness's pre-image
	srvSig := getParam(s.www, "sig")
	if flow == flowServer {
		srvSig = getParam(s.info, "sig")
	}
	if good, err := in.id.pub.Verify(serverProofData(s.chS, cl.pubBytes, host), mustB64(srvSig)); err == nil && good {
		sc.count("real_server_sig_verified_with_own_preimage")
	} else if s.ok {
		sc.count("real_server_sig_NOT_verified_with_own_preimage")
	}
	return s
}

// expectValid books the outcome of a request that is a plain valid one.
func (sc *scen) expectValid(what string, in *instance, c *call, cl *ident) bool {
	switch {
	case !c.accepted:
		sc.count("valid_rejected:" + what)
		return false
	case !c.v.ok:
		sc.violation("server-accept/"+c.v.reason+"/valid:"+what, "server reported a peer the oracle cannot justify on a VALID request",
			in, attack{kind: "valid:" + what, host: c.host, sni: c.sni, authz: c.authz}, c)
		return false
	case c.peer != cl.id:
		// justified by the oracle for another peer than the one who made the request: impossible unless
		// the harness is confused; keep it visible
		sc.count("valid_accepted_as_other_peer")
		return false
	}
	sc.count("valid_accepted:" + what)
	sc.count("valid_accepted_how:" + c.v.how)
	sc.bump(&sc.valid)
	return true
}

type attack struct {
	kind  string // structural family (goes into the violation signature)
	desc  string // exact variant
	host  string
	sni   string
	authz []string
}

func (sc *scen) violation(sig, msg string, in *instance, a attack, c *call) {
	sc.bump(&sc.nviol)
	sc.r.Violation(sig, sc.caseID, fmt.Sprintf("%s: instance %s reported peer %s for Host %q at t0+%v; oracle: %s [%s %s]",
		msg, in.name, c.peer, c.host, time.Since(sc.t0), c.v.reason, a.kind, a.desc),
		map[string]any{
			"instance": in.name, "server_peer": in.id.id.String(), "server_key_type": ktNames[in.id.kt], "tls_mode": in.tlsMode,
			"token_ttl": in.tokenTTL.String(), "attack_kind": a.kind, "attack_variant": a.desc,
			"request_host": c.host, "request_sni": c.sni, "request_authorization": c.authz,
			"virtual_time_since_case_start": time.Since(sc.t0).String(),
			"reported_peer":                 c.peer.String(), "oracle_reason": c.v.reason, "oracle_records_for_carried_state": in.explain(c.authz, time.Now()),
			"response_status": c.status, "response_headers": c.respHdr,
		})
}

// fire sends one hostile request and books the outcome.
func (sc *scen) fire(in *instance, a attack) *call {
	if a.sni == "" {
		a.sni = a.host
	}
	c := in.serveSNI(a.host, a.sni, a.authz...)
	sc.eval()
	fam := a.kind
	if i := strings.IndexByte(fam, '/'); i >= 0 {
		fam = fam[:i]
	}
	switch {
	case c.accepted && !c.v.ok:
		sc.violation("server-accept/"+c.v.reason+"/"+a.kind, "server reported a peer id without proof", in, a, c)
	case c.accepted:
		if c.v.otherHost {
			sc.count("token_accepted_under_other_hostname")
		}
		sc.count("srv_mutated_accepted_justified")
		sc.count("srv_mutated_accepted_justified_by:" + c.v.how)
		sc.count("srv_accepted_family:" + fam)
	default:
		sc.bump(&sc.reject)
		sc.count("srv_mutated_rejected")
		sc.count(fmt.Sprintf("srv_rejected_status:%d", c.status))
		sc.count("srv_rejected_family:" + fam)
	}
	return c
}

func with(ps []kv, i int, v string) []kv {
	out := append([]kv(nil), ps...)
	out[i].v = v
	return out
}

func hdr(ps []kv) []string { return []string{buildHeader(ps)} }

// paramOp rewrites the parameter list of a live header (positions are taken modulo the live lengths, so
// an edit planned on a dry run always applies to the message actually in flight).
type paramOp func(live []kv) []kv

func editAt(pi int, f func(v string) string) paramOp {
	return func(live []kv) []kv {
		if pi >= len(live) {
			return live
		}
		return with(live, pi, f(live[pi].v))
	}
}

func editBlobAt(pi int, f func(blob []byte) []byte) paramOp {
	return editAt(pi, func(v string) string {
		blob, err := base64.URLEncoding.DecodeString(v)
		if err != nil || len(blob) == 0 {
			return v
		}
		return b64(f(append([]byte(nil), blob...)))
	})
}

// valueMutations enumerates the single-parameter edits of one header: byte flips in the base64 text,
// byte flips in the decoded blob, truncations, extension, emptying, dropping, duplicating. stride(k)
// thins the flip positions of parameter k (1 = every position).
func (sc *scen) valueMutations(base []kv, stride func(k string) int, emit func(kind, desc string, op paramOp)) {
	// quick: one bit per position; thorough: every bit (server family) / three bits (client family, where
	// each evaluation is a whole multi-round-trip handshake)
	masks := []byte{0x01}
	if !sc.r.Quick() {
		masks = []byte{0x01, 0x02, 0x04, 0x08, 0x10, 0x20, 0x40, 0x80}
		if strings.HasPrefix(sc.caseID, "cli/") {
			masks = []byte{0x01, 0x20, 0x80}
		}
	}
	for pi, p := range base {
		k, v := p.k, p.v
		st := max(1, stride(k))
		for i := sc.rng.IntN(st); i < len(v); i += st {
			for _, m := range masks {
				emit("flip-b64/"+k, fmt.Sprintf("pos=%d/%d mask=%#x", i, len(v), m), editAt(pi, func(v string) string {
					if len(v) == 0 {
						return v
					}
					b := []byte(v)
					b[i%len(b)] ^= m
					return string(b)
				}))
			}
		}
		if blob, err := base64.URLEncoding.DecodeString(v); err == nil && len(blob) > 0 {
			for i := sc.rng.IntN(st); i < len(blob); i += st {
				bits := []int{i % 8}
				if !sc.r.Quick() {
					bits = []int{0, 1, 2, 3, 4, 5, 6, 7}
					if strings.HasPrefix(sc.caseID, "cli/") {
						bits = []int{0, 7, (i + 3) % 8}
					}
				}
				for _, bit := range bits {
					emit("flip-blob/"+k, fmt.Sprintf("byte=%d/%d bit=%d", i, len(blob), bit), editBlobAt(pi, func(b []byte) []byte {
						b[i%len(b)] ^= 1 << bit
						return b
					}))
				}
			}
			for _, t := range []struct {
				n string
				f func(b []byte) []byte
			}{
				{"blob-minus-last", func(b []byte) []byte { return b[:len(b)-1] }},
				{"blob-minus-first", func(b []byte) []byte { return b[1:] }},
				{"blob-first-32", func(b []byte) []byte { return b[:min(32, len(b))] }},
				{"blob-after-32", func(b []byte) []byte { return b[min(32, len(b)):] }},
				{"blob-plus-zero", func(b []byte) []byte { return append(b, 0) }},
				{"blob-plus-space", func(b []byte) []byte { return append(b, ' ') }},
				{"blob-doubled", func(b []byte) []byte { return append(b, b...) }},
			} {
				emit("truncate/"+k, t.n, editBlobAt(pi, t.f))
			}
		}
		for _, n := range []int{1, 2, 3, 4, len(v) / 2, len(v) - 1} {
			if n > 0 && n <= len(v) {
				emit("truncate/"+k, fmt.Sprintf("text-minus-last-%d", n), editAt(pi, func(v string) string { return v[:max(0, len(v)-n)] }))
			}
		}
		emit("truncate/"+k, "text-minus-first", editAt(pi, func(v string) string { return v[min(1, len(v)):] }))
		emit("truncate/"+k, "empty-value", editAt(pi, func(string) string { return "" }))
		emit("drop/"+k, "", func(live []kv) []kv { return dropParam(live, k) })
		garbage := b64(rngBytes(sc.rng, 48))
		emit("duplicate/"+k, "valid-then-garbage", func(live []kv) []kv { return append(append([]kv(nil), live...), kv{k, garbage}) })
		emit("duplicate/"+k, "garbage-then-valid", func(live []kv) []kv { return append([]kv{{k, garbage}}, live...) })
		emit("duplicate/"+k, "same-twice", func(live []kv) []kv { return append(append([]kv(nil), live...), kv{k, getParam(live, k)}) })
	}
}

func every(string) int { return 1 }

// reencodings: semantically neutral (or at least proof-preserving) rewrites of a valid header. Whether
// the implementation's parser accepts them is its business; the oracle judges only acceptances.
func (sc *scen) reencodings(base []kv, emit func(kind, desc string, authz []string)) {
	h := buildHeader(base)
	rev := append([]kv(nil), base...)
	sort.SliceStable(rev, func(i, j int) bool { return i > j })
	emit("reencode", "params-reversed", hdr(rev))
	rot := append(append([]kv(nil), base[1:]...), base[0])
	emit("reencode", "params-rotated", hdr(rot))
	shuf := append([]kv(nil), base...)
	sc.rng.Shuffle(len(shuf), func(i, j int) { shuf[i], shuf[j] = shuf[j], shuf[i] })
	emit("reencode", "params-shuffled", hdr(shuf))
	body := strings.TrimPrefix(h, scheme+" ")
	emit("reencode", "comma-no-space", []string{scheme + " " + strings.ReplaceAll(body, ", ", ",")})
	emit("reencode", "space-only-separators", []string{scheme + " " + strings.ReplaceAll(body, ", ", " ")})
	emit("reencode", "many-separators", []string{scheme + "   ,, " + strings.ReplaceAll(body, ", ", " , ,,  ") + " ,"})
	emit("reencode", "no-space-after-scheme", []string{scheme + body})
	emit("reencode", "tab-separators", []string{scheme + "\t" + strings.ReplaceAll(body, ", ", ",\t")})
	emit("reencode", "other-scheme-first", []string{"Basic Zm9vOmJhcg==, " + h})
	emit("reencode", "other-scheme-after", []string{h + ", Basic Zm9vOmJhcg=="})
	emit("reencode", "trailing-word", []string{h + " trailing"})
	emit("reencode", "unknown-params", []string{scheme + ` realm="x", ` + body + `, foo="bar"`})
	emit("reencode", "scheme-lowercase", []string{strings.ToLower(scheme) + " " + body})
	emit("reencode", "scheme-twice", []string{h + ", " + h})
	emit("reencode", "two-header-values-valid-first", []string{h, scheme + ` bearer="AAAA"`})
	emit("reencode", "two-header-values-valid-second", []string{scheme + ` bearer="AAAA"`, h})
	emit("reencode", "leading-space", []string{"  " + h})
	emit("reencode", "no-quotes", []string{strings.ReplaceAll(h, `"`, "")})
	emit("reencode", "single-quotes", []string{strings.ReplaceAll(h, `"`, "'")})
	emit("reencode", "uppercase-keys", []string{scheme + " " + upperKeys(base)})
	for pi, p := range base {
		blob, err := base64.URLEncoding.DecodeString(p.v)
		if err != nil {
			continue
		}
		emit("reencode-b64/"+p.k, "unpadded", hdr(with(base, pi, base64.RawURLEncoding.EncodeToString(blob))))
		emit("reencode-b64/"+p.k, "std-alphabet", hdr(with(base, pi, base64.StdEncoding.EncodeToString(blob))))
		emit("reencode-b64/"+p.k, "newline-inside", hdr(with(base, pi, p.v[:len(p.v)/2]+"\n"+p.v[len(p.v)/2:])))
		emit("reencode-b64/"+p.k, "crlf-at-end", hdr(with(base, pi, p.v+"\r\n")))
		emit("reencode-b64/"+p.k, "extra-padding", hdr(with(base, pi, p.v+"=")))
		// non-canonical trailing bits: the last symbol before the padding carries unused low bits
		if n := len(blob) % 3; n != 0 {
			t := strings.TrimRight(p.v, "=")
			const alpha = "ABCDEFGHIJKLMNOPQRSTUVWXYZabcdefghijklmnopqrstuvwxyz0123456789-_"
			if idx := strings.IndexByte(alpha, t[len(t)-1]); idx >= 0 {
				nc := t[:len(t)-1] + string(alpha[idx|1]) + p.v[len(t):]
				if nc == p.v {
					nc = t[:len(t)-1] + string(alpha[idx^1]) + p.v[len(t):]
				}
				emit("reencode-b64/"+p.k, "noncanonical-trailing-bits", hdr(with(base, pi, nc)))
			}
		}
	}
}

func upperKeys(ps []kv) string {
	var parts []string
	for _, p := range ps {
		parts = append(parts, strings.ToUpper(p.k)+`="`+p.v+`"`)
	}
	return strings.Join(parts, ", ")
}

// hostVariants: the same request under other Host / SNI values.
func (sc *scen) hostVariants(in *instance, host string, emit func(kind, desc, host, sni string)) {
	other := sc.u.hosts[0]
	if other == host {
		other = sc.u.hosts[1]
	}
	emit("host", "other-valid-host", other, other)
	emit("host", "invalid-host", "evil.example", "evil.example")
	emit("host", "uppercase-host", strings.ToUpper(host), strings.ToUpper(host))
	emit("host", "trailing-dot", host+".", host+".")
	emit("host", "empty-host", "", "")
	emit("host", "host-with-userinfo", "x@"+host, "x@"+host)
	if in.tlsMode {
		emit("host", "sni-differs-from-host", host, other)
		emit("host", "host-differs-from-sni", other, host)
	}
}

// ---------------------------------------------------------------------------------------------
// server family: one (server, hostname, client, key type, flow) per case

func serverFamily(r *run.R, t *testing.T, u *universe) {
	type cs struct {
		id          string
		s, h, c, kt int
		flow        string
		stream      uint64
	}
	var cases []cs
	n := uint64(0)
	for s := range u.servers {
		for h := range u.hosts {
			for c := 0; c < 3; c++ {
				for kt := 0; kt < 4; kt++ {
					for _, flow := range []string{flowClient, flowServer} {
						n++
						cases = append(cases, cs{fmt.Sprintf("srv/s%d-%s/h%d/c%d-%s/%s", s, ktNames[u.serverKT[s]], h, c, ktNames[kt], flow), s, h, c, kt, flow, n})
					}
				}
			}
		}
	}
	run.Parallel(len(cases), 0, func(i int) {
		c := cases[i]
		if !r.Want(c.id) || r.TooMany() {
			return
		}
		synctest.Test(t, func(*testing.T) {
			sc := newScen(r, u, c.id, c.s, 20*time.Minute, 2, c.stream)
			defer sc.flush()
			sc.serverCase(u.hosts[c.h], u.clients[c.c][c.kt], u.attacker[(c.kt+1+c.c)%4], c.flow)
		})
	})
}

func (sc *scen) serverCase(host string, victim, att *ident, flow string) {
	S := sc.S
	other := sc.u.hosts[0]
	if other == host {
		other = sc.u.hosts[1]
	}

	// 1. the REAL client makes the valid exchange that is then mutated
	rc := newRealClient(sc, victim, 0)
	proofReq, bearerReq := rc.capture(S, host, flow)
	tok := ""
	if proofReq == nil || bearerReq == nil {
		// the hand-made attacks below do not need the capture: a tree on which honest handshakes fail
		// may still accept dishonest ones
		sc.count("real_client_capture_failed")
	} else {
		tok = sc.capturedAttacks(host, other, victim, att, flow, proofReq, bearerReq)
	}

	// 8. the attacker re-signs
	sc.resignAttacks(S, host, other, victim, att, tok)

	// 9. edits INSIDE the blobs, MAC kept / replaced
	sc.blobEdits(S, host, other, victim, att)
}

// capturedAttacks: everything that starts from the valid exchange the real client made.
func (sc *scen) capturedAttacks(host, other string, victim, att *ident, flow string, proofReq, bearerReq *call) string {
	S := sc.S
	base := orderedParams(proofReq.authz[0])
	tokenHdr := orderedParams(bearerReq.authz[0])
	if r := sc.r; r.SampleN() < 2 {
		r.Sample(map[string]any{"case": sc.caseID, "valid_proof_request": proofReq.authz[0], "valid_bearer_request": bearerReq.authz[0],
			"then": "every parameter of both headers mutated, swapped with 7 donor sessions, re-signed by an attacker, blob internals edited"})
	}

	// 2. donors: other sessions made by hand
	type donor struct {
		label string
		s     *session
	}
	otherFlow := flowClient
	if flow == flowClient {
		otherFlow = flowServer
	}
	donors := []donor{
		{"other-session", sc.rawSession(S, host, victim, flow)},
		{"other-flow", sc.rawSession(S, host, victim, otherFlow)},
		{"other-host", sc.rawSession(S, other, victim, flow)},
		{"other-client", sc.rawSession(S, host, att, flow)},
		{"other-client-other-flow", sc.rawSession(S, host, att, otherFlow)},
		{"other-server", sc.rawSession(sc.O, host, victim, flow)},
		{"twin-server", sc.rawSession(sc.T, host, victim, flow)},
	}

	send := func(kind, desc string, ps []kv) {
		if !sc.stop() {
			sc.fire(S, attack{kind: kind, desc: desc, host: host, authz: hdr(ps)})
		}
	}
	sendRaw := func(kind, desc string, authz []string) {
		if !sc.stop() {
			sc.fire(S, attack{kind: kind, desc: desc, host: host, authz: authz})
		}
	}

	// 3. replay of the untouched requests (a used challenge, a used token): allowed while unexpired
	sendRaw("replay", "proof-request-again", proofReq.authz)
	sendRaw("replay", "bearer-request-again", bearerReq.authz)

	// 4. single-parameter edits of both headers
	sc.valueMutations(base, every, func(kind, desc string, op paramOp) { send("proof:"+kind, desc, op(base)) })
	sc.valueMutations(tokenHdr, every, func(kind, desc string, op paramOp) { send("bearer:"+kind, desc, op(tokenHdr)) })
	sc.reencodings(base, func(kind, desc string, a []string) { sendRaw("proof:"+kind, desc, a) })
	sc.reencodings(tokenHdr, func(kind, desc string, a []string) { sendRaw("bearer:"+kind, desc, a) })

	// 5. the same requests under other Host / SNI values
	sc.hostVariants(S, host, func(kind, desc, h, sni string) {
		if !sc.stop() {
			sc.fire(S, attack{kind: "proof:" + kind, desc: desc, host: h, sni: sni, authz: proofReq.authz})
			sc.fire(S, attack{kind: "bearer:" + kind, desc: desc, host: h, sni: sni, authz: bearerReq.authz})
		}
	})

	// 6. parameters swapped with other sessions / hostnames / clients / servers
	for _, d := range donors {
		if !d.s.ok {
			continue
		}
		keys := map[string]bool{}
		for _, p := range base {
			keys[p.k] = true
		}
		for _, p := range d.s.proof {
			keys[p.k] = true
		}
		var ks []string
		for k := range keys {
			ks = append(ks, k)
		}
		sort.Strings(ks)
		for _, k := range ks {
			if v := getParam(d.s.proof, k); v != "" {
				send("proof:swap/"+d.label, k, setParam(base, k, v))
			}
		}
		// pairs that belong together, taken from the donor
		for _, pair := range [][2]string{{"opaque", "sig"}, {"public-key", "sig"}, {"opaque", "public-key"}} {
			a, b := getParam(d.s.proof, pair[0]), getParam(d.s.proof, pair[1])
			if a != "" && b != "" {
				send("proof:swap/"+d.label, pair[0]+"+"+pair[1], setParam(setParam(base, pair[0], a), pair[1], b))
			}
		}
		// the donor's signature over the DONOR's challenge, that challenge echoed as a parameter, our opaque
		echoed := setParam(setParam(base, "sig", getParam(d.s.proof, "sig")), "challenge-client", getParam(d.s.www, "challenge-client"))
		send("proof:swap/"+d.label, "sig+echoed-challenge-client", echoed)
		send("proof:swap/"+d.label, "sig+echoed-challenge-client+public-key", setParam(echoed, "public-key", b64(d.s.cl.pubBytes)))
		send("proof:swap/"+d.label, "whole-proof-request", d.s.proof)
		send("bearer:swap/"+d.label, "bearer", []kv{{"bearer", d.s.bearer}})
		// unused fresh challenge of the donor combined with our signature
		send("proof:swap/"+d.label, "opaque-from-www", setParam(base, "opaque", getParam(d.s.www, "opaque")))
		// donor's whole requests under THIS host on every instance
		for _, in := range []*instance{sc.O, sc.T} {
			if !sc.stop() {
				sc.fire(in, attack{kind: "proof:cross-instance/" + d.label, desc: "to-" + in.name, host: host, authz: hdr(d.s.proof)})
				sc.fire(in, attack{kind: "bearer:cross-instance/" + d.label, desc: "to-" + in.name, host: host, authz: hdr([]kv{{"bearer", d.s.bearer}})})
			}
		}
	}
	// our own valid requests against the other instances
	for _, in := range []*instance{sc.O, sc.T} {
		if !sc.stop() {
			sc.fire(in, attack{kind: "proof:cross-instance/self", desc: "to-" + in.name, host: host, authz: proofReq.authz})
			sc.fire(in, attack{kind: "bearer:cross-instance/self", desc: "to-" + in.name, host: host, authz: bearerReq.authz})
		}
	}

	// 7. token used as challenge state and vice versa
	tok := getParam(tokenHdr, "bearer")
	opq := getParam(base, "opaque")
	send("cross-use", "opaque-as-bearer", []kv{{"bearer", opq}})
	send("cross-use", "bearer-as-opaque-keeping-sig", setParam(base, "opaque", tok))
	send("cross-use", "bearer-and-proof-together", append(append([]kv(nil), base...), kv{"bearer", b64(rngBytes(sc.rng, 64))}))
	send("cross-use", "garbage-proof-and-valid-bearer", []kv{{"opaque", b64(rngBytes(sc.rng, 64))}, {"sig", b64(rngBytes(sc.rng, 64))}, {"bearer", tok}})
	return tok
}

// resignAttacks: an attacker who holds valid keys of his own (and, for the wrong-pre-image variants, the
// victim client itself signing something else than the protocol demands).
func (sc *scen) resignAttacks(S *instance, host, other string, victim, att *ident, victimToken string) {
	fresh := func(cl *ident, flow string, h string) (chC, opq string) {
		var c *call
		if flow == flowServer {
			c = S.serve(h)
		} else {
			c = S.serve(h, buildHeader([]kv{{"challenge-server", sc.challenge()}, {"public-key", b64(cl.pubBytes)}}))
		}
		sc.eval()
		www := orderedParams(c.respHdr.Get("WWW-Authenticate"))
		return getParam(www, "challenge-client"), getParam(www, "opaque")
	}
	proof := func(flow string, pub *ident, sig, opq string) []kv {
		if flow == flowServer {
			return []kv{{"public-key", b64(pub.pubBytes)}, {"challenge-server", sc.challenge()}, {"sig", sig}, {"opaque", opq}}
		}
		return []kv{{"opaque", opq}, {"sig", sig}}
	}
	send := func(kind, desc, h string, ps []kv) {
		if !sc.stop() {
			sc.fire(S, attack{kind: kind, desc: desc, host: h, authz: hdr(ps)})
		}
	}
	spk := string(S.id.pubBytes)
	for _, flow := range []string{flowServer, flowClient} {
		for _, signer := range []*ident{att, victim} {
			who := "attacker"
			if signer == victim {
				who = "client"
			}
			chC, opq := fresh(signer, flow, host)
			if chC == "" {
				continue
			}
			full := []kv{{"challenge-client", chC}, {"server-public-key", spk}, {"hostname", host}}
			// control: the correct pre-image must be accepted (keeps the family honest)
			c := S.serve(host, buildHeader(proof(flow, signer, sign(signer, signedData(full...)), opq)))
			sc.eval()
			sc.expectValid("resign-control-"+flow, S, c, signer)

			type variant struct {
				name string
				data []byte
			}
			var vs []variant
			// subsets of the signed fields
			for mask := 0; mask < 7; mask++ {
				var ps []kv
				var nm []string
				for i, p := range full {
					if mask&(1<<i) != 0 {
						ps = append(ps, p)
						nm = append(nm, p.k)
					}
				}
				vs = append(vs, variant{"only[" + strings.Join(nm, ",") + "]", signedData(ps...)})
			}
			sub := func(i int, v string) []kv { o := append([]kv(nil), full...); o[i].v = v; return o }
			vs = append(vs,
				variant{"challenge=decoded-bytes", signedData(sub(0, string(mustB64(chC)))...)},
				variant{"challenge=empty", signedData(sub(0, "")...)},
				variant{"challenge=other", signedData(sub(0, sc.challenge())...)},
				variant{"server-key=other-server", signedData(sub(1, string(sc.O.id.pubBytes))...)},
				variant{"server-key=own-key", signedData(sub(1, string(signer.pubBytes))...)},
				variant{"server-key=base64-text", signedData(sub(1, b64(S.id.pubBytes))...)},
				variant{"hostname=other-valid", signedData(sub(2, other)...)},
				variant{"hostname=uppercase", signedData(sub(2, strings.ToUpper(host))...)},
				variant{"hostname=empty", signedData(sub(2, "")...)},
				variant{"hostname=without-port", signedData(sub(2, strings.SplitN(host, ":", 2)[0]+"x")...)},
				variant{"no-prefix", signedDataOpt("", true, true, full...)},
				variant{"prefix-lowercase", signedDataOpt(strings.ToLower(scheme), true, true, full...)},
				variant{"unsorted", signedDataOpt(scheme, false, true, full[2], full[1], full[0])},
				variant{"no-length-prefixes", signedDataOpt(scheme, true, false, full...)},
				variant{"server-role-keys", signedData(kv{"challenge-server", chC}, kv{"client-public-key", spk}, kv{"hostname", host})},
				variant{"keys-renamed", signedData(kv{"challenge", chC}, kv{"public-key", spk}, kv{"host", host})},
			)
			// every field: empty, first half only, one byte appended
			for i, p := range full {
				vs = append(vs,
					variant{p.k + "=empty-value", signedData(sub(i, "")...)},
					variant{p.k + "=first-half", signedData(sub(i, p.v[:len(p.v)/2])...)},
					variant{p.k + "=second-half", signedData(sub(i, p.v[len(p.v)/2:])...)},
					variant{p.k + "=plus-one-byte", signedData(sub(i, p.v+"\x00")...)})
			}
			for _, v := range vs {
				send("resign:wrong-preimage/"+flow+"/"+who, v.name, host, proof(flow, signer, sign(signer, v.data), opq))
			}
		}

		// key / signature mismatch: who signed is not who is named
		chC, opq := fresh(att, flow, host)
		if chC != "" {
			data := clientProofData(chC, S.id.pubBytes, host)
			attSig, vicSig := sign(att, data), sign(victim, data)
			if flow == flowServer {
				send("resign:key-mismatch/"+flow, "victim-key+attacker-sig", host, proof(flow, victim, attSig, opq))
				send("resign:key-mismatch/"+flow, "attacker-key+random-sig", host, proof(flow, att, b64(rngBytes(sc.rng, 64)), opq))
				send("resign:key-mismatch/"+flow, "both-keys-victim-last", host, append(proof(flow, att, attSig, opq), kv{"public-key", b64(victim.pubBytes)}))
				send("resign:key-mismatch/"+flow, "both-keys-victim-first", host, append([]kv{{"public-key", b64(victim.pubBytes)}}, proof(flow, att, attSig, opq)...))
			} else {
				// challenge bound to the attacker's key at issue time; the request additionally names the victim
				send("resign:key-mismatch/"+flow, "bound-attacker+public-key=victim", host, append(proof(flow, att, attSig, opq), kv{"public-key", b64(victim.pubBytes)}))
				send("resign:key-mismatch/"+flow, "bound-attacker+public-key=victim-first", host, append([]kv{{"public-key", b64(victim.pubBytes)}}, proof(flow, att, attSig, opq)...))
				// statement-wise fine for the VICTIM to prove itself over this challenge; whatever the
				// implementation answers, the oracle judges the reported peer
				send("resign:key-mismatch/"+flow, "bound-attacker+victim-signs+public-key=victim", host, append(proof(flow, att, vicSig, opq), kv{"public-key", b64(victim.pubBytes)}))
			}
		}

		// host re-binding: challenge issued for `host`, presented under `other`
		chC, opq = fresh(att, flow, host)
		if chC != "" {
			send("resign:host-rebind/"+flow, "sig-over-presented-host", other, proof(flow, att, sign(att, clientProofData(chC, S.id.pubBytes, other)), opq))
			send("resign:host-rebind/"+flow, "sig-over-issuing-host", other, proof(flow, att, sign(att, clientProofData(chC, S.id.pubBytes, host)), opq))
			send("resign:host-rebind/"+flow, "invalid-host", "evil.example", proof(flow, att, sign(att, clientProofData(chC, S.id.pubBytes, "evil.example")), opq))
		}

		// challenge minted by another instance (other key+secret; same key, other secret), signed correctly for S
		for _, in := range []*instance{sc.O, sc.T} {
			var c *call
			if flow == flowServer {
				c = in.serve(host)
			} else {
				c = in.serve(host, buildHeader([]kv{{"challenge-server", sc.challenge()}, {"public-key", b64(att.pubBytes)}}))
			}
			sc.eval()
			www := orderedParams(c.respHdr.Get("WWW-Authenticate"))
			if ch := getParam(www, "challenge-client"); ch != "" {
				send("resign:foreign-challenge/"+flow, "minted-by-"+in.name, host, proof(flow, att, sign(att, clientProofData(ch, S.id.pubBytes, host)), getParam(www, "opaque")))
			}
		}
	}

	// a bearer token presented as challenge state: it carries no challenge, so the attacker signs an
	// empty / arbitrary one with his own key
	ownTok := sc.rawSession(S, host, att, flowServer).bearer
	for _, t := range []struct{ n, tok string }{{"own-token", ownTok}, {"victim-token", victimToken}} {
		if t.tok == "" {
			continue
		}
		for _, ch := range []string{"", sc.challenge()} {
			n := "empty-challenge"
			if ch != "" {
				n = "random-challenge"
			}
			sig := sign(att, clientProofData(ch, S.id.pubBytes, host))
			send("resign:token-as-opaque", t.n+"/"+n, host, []kv{{"public-key", b64(att.pubBytes)}, {"challenge-server", sc.challenge()}, {"sig", sig}, {"opaque", t.tok}})
			send("resign:token-as-opaque", t.n+"/"+n+"/no-public-key", host, []kv{{"sig", sig}, {"opaque", t.tok}})
		}
	}
	// reflection: make S sign attacker-chosen data in its server role and present that as a client proof of S
	{
		chC, opq := fresh(att, flowServer, host)
		c := S.serve(host, buildHeader([]kv{{"challenge-server", chC}, {"public-key", b64(S.id.pubBytes)}}))
		sc.eval()
		if sg := getParam(orderedParams(c.respHdr.Get("WWW-Authenticate")), "sig"); sg != "" && chC != "" {
			send("resign:reflection", "server-signature-as-client-proof", host, []kv{{"public-key", b64(S.id.pubBytes)}, {"challenge-server", sc.challenge()}, {"sig", sg}, {"opaque", opq}})
		}
	}
}

// blobEdits: the attacker knows the layout of the state blobs (MAC || JSON) and edits single fields in
// place, keeping the MAC, zeroing it, borrowing the MAC of another genuine blob, or MACing with a secret
// of his own ("state minted under a different server secret").
func (sc *scen) blobEdits(S *instance, host, other string, victim, att *ident) {
	send := func(kind, desc, h string, ps []kv) {
		if !sc.stop() {
			sc.fire(S, attack{kind: kind, desc: desc, host: h, authz: hdr(ps)})
		}
	}
	const macLen = 32
	remac := func(orig []byte, js string, donor []byte, emit func(n string, blob []byte)) {
		emit("mac-kept", append(append([]byte(nil), orig[:macLen]...), js...))
		emit("mac-zero", append(make([]byte, macLen), js...))
		m := hmac.New(sha256.New, []byte("attacker-secret-attacker-secret!"))
		m.Write([]byte(js))
		emit("mac-own-secret", m.Sum(nil))
		emit("mac-own-secret", append(m.Sum(nil), js...))
		if len(donor) >= macLen {
			emit("mac-of-other-genuine-blob", append(append([]byte(nil), donor[:macLen]...), js...))
		}
		emit("no-mac", []byte(js))
	}
	attID, vicID := att.id.String(), victim.id.String()
	stdb := base64.StdEncoding.EncodeToString

	for _, flow := range []string{flowServer, flowClient} {
		// a fresh genuine challenge for the attacker, and a second one as MAC donor
		get := func() (string, []byte) {
			var c *call
			if flow == flowServer {
				c = S.serve(host)
			} else {
				c = S.serve(host, buildHeader([]kv{{"challenge-server", sc.challenge()}, {"public-key", b64(att.pubBytes)}}))
			}
			sc.eval()
			www := orderedParams(c.respHdr.Get("WWW-Authenticate"))
			return getParam(www, "challenge-client"), mustB64(getParam(www, "opaque"))
		}
		chC, blob := get()
		_, donor := get()
		if len(blob) <= macLen || blob[macLen] != '{' {
			sc.count("blob_edit_skipped_unknown_layout")
			continue
		}
		js := string(blob[macLen:])
		proof := func(opq []byte, ch, h string, signer *ident) []kv {
			sig := sign(signer, clientProofData(ch, S.id.pubBytes, h))
			if flow == flowServer {
				return []kv{{"public-key", b64(signer.pubBytes)}, {"challenge-server", sc.challenge()}, {"sig", sig}, {"opaque", b64(opq)}}
			}
			return []kv{{"opaque", b64(opq)}, {"sig", sig}}
		}
		myCh := sc.challenge()
		edits := []struct {
			name   string
			js     string
			ch, h  string
			signer *ident
			bearer bool
		}{
			{"hostname->other", strings.Replace(js, `"hostname":"`+host+`"`, `"hostname":"`+other+`"`, 1), chC, other, att, false},
			{"challenge->chosen", strings.Replace(js, chC, myCh, 1), myCh, host, att, false},
			{"created-time+1y", strings.Replace(js, `"created-time":"2000`, `"created-time":"2001`, 1), chC, host, att, false},
			{"client-key->victim", strings.Replace(js, stdb(att.pubBytes), stdb(victim.pubBytes), 1), chC, host, att, false},
			{"add-client-key-victim", strings.Replace(js, `{`, `{"client-public-key":"`+stdb(victim.pubBytes)+`",`, 1), chC, host, att, false},
			{"to-token-for-victim", strings.Replace(js, `{`, `{"is-token":true,"peer-id":"`+vicID+`",`, 1), chC, host, att, true},
			{"to-token-for-victim-dupkeys", strings.Replace(js, `}`, `,"is-token":true,"peer-id":"`+vicID+`"}`, 1), chC, host, att, true},
			{"rewritten-json", `{"hostname":"` + host + `","challenge-client":"` + myCh + `","created-time":"2000-01-01T00:00:00Z"}`, myCh, host, att, false},
		}
		for _, e := range edits {
			if e.js == js {
				sc.count("blob_edit_not_applicable")
				continue
			}
			remac(blob, e.js, donor, func(n string, b []byte) {
				if e.bearer {
					send("blob-edit/opaque/"+flow, e.name+"/"+n, e.h, []kv{{"bearer", b64(b)}})
				} else {
					send("blob-edit/opaque/"+flow, e.name+"/"+n, e.h, proof(b, e.ch, e.h, e.signer))
				}
			})
		}
	}

	// the attacker's own genuine token, re-labelled
	own := sc.rawSession(S, host, att, flowServer)
	own2 := sc.rawSession(S, host, att, flowClient)
	tb, donor := mustB64(own.bearer), mustB64(own2.bearer)
	if !own.ok || len(tb) <= macLen || tb[macLen] != '{' {
		sc.count("blob_edit_skipped_unknown_layout")
		return
	}
	js := string(tb[macLen:])
	myCh := sc.challenge()
	edits := []struct {
		name, js string
		opaque   bool
		h        string
	}{
		{"peer-id->victim", strings.Replace(js, attID, vicID, 1), false, host},
		{"peer-id->victim+host", strings.Replace(strings.Replace(js, attID, vicID, 1), `"hostname":"`+host+`"`, `"hostname":"`+other+`"`, 1), false, other},
		{"created-time+1y", strings.Replace(js, `"created-time":"2000`, `"created-time":"2001`, 1), false, host},
		{"append-peer-id-victim", strings.Replace(js, `}`, `,"peer-id":"`+vicID+`"}`, 1), false, host},
		{"is-token->false+challenge", strings.Replace(js, `"is-token":true`, `"is-token":false,"challenge-client":"`+myCh+`"`, 1), true, host},
		{"rewritten-json", `{"is-token":true,"peer-id":"` + vicID + `","hostname":"` + host + `","created-time":"2000-01-01T00:00:00Z"}`, false, host},
	}
	for _, e := range edits {
		if e.js == js {
			sc.count("blob_edit_not_applicable")
			continue
		}
		remac(tb, e.js, donor, func(n string, b []byte) {
			if e.opaque {
				sig := sign(att, clientProofData(myCh, S.id.pubBytes, e.h))
				send("blob-edit/token", e.name+"/"+n, e.h, []kv{{"public-key", b64(att.pubBytes)}, {"challenge-server", sc.challenge()}, {"sig", sig}, {"opaque", b64(b)}})
			} else {
				send("blob-edit/token", e.name+"/"+n, e.h, []kv{{"bearer", b64(b)}})
			}
		})
	}
}

// ---------------------------------------------------------------------------------------------

func TestC19(t *testing.T) {
	r := run.New(t, "C19", "exploration")
	defer r.Finish()
	r.Rule("one case = one (server, hostname, client, key type, flow) scenario [srv/ cli/], one (server, key type, TokenTTL) lifetime sweep [ttl/] or one round of concurrent handshakes [conc/], each in its own synctest bubble; every request that reaches the real server's Next callback and every id the real client returns is re-verified by the independent oracle; a case is non-trivial when it contained at least one valid handshake that was accepted AND at least one hostile/mutated request that was rejected; distinct = distinct case ids; evaluations = requests sent to a real server plus client calls judged")
	r.Assume("signature schemes, SHA-256/HMAC and peer-id derivation in core/crypto are trusted (the oracle uses them)",
		"challenge lifetime is the protocol constant 5 min (DESIGN.md C19)",
		"a client call answered from its token cache re-reports the id established by the handshake that produced the token; the oracle justifies it by that earlier handshake",
		"bearer tokens are not hostname-bound by clause (a) of the statement: a token issued under hostname A and accepted under hostname B of the same instance is justified and only counted (token_accepted_under_other_hostname); hostname binding is enforced for the challenge/signature flow and on the client side",
		"replaying an unexpired challenge+signature is allowed by the statement (stateless server) and is counted as justified",
		"requests are handed to ServeHTTP in-process (no net/http server in between), so header bytes a real HTTP stack would refuse are also tried")

	u, err := newUniverse(r)
	if err != nil {
		t.Fatalf("key generation: %v", err)
	}
	selfTest(r, u)
	r.Extra("universe", map[string]any{"server_key_types": len(u.servers), "instances_per_case": "S (attacked), O (other key, other secret, implementation-drawn), T (same key as S, other secret), E (attacker's own real server, client family)",
		"hostnames": u.hosts, "clients": 3, "client_key_types": ktNames, "flows": []string{flowClient, flowServer},
		"tls_mode": "odd server index: TLS mode with fabricated ConnectionState.ServerName; even: NoTLS + ValidHostnameFn"})
	race := os.Getenv("VERIF_RACE") == "1"
	if !race {
		serverFamily(r, t, u)
		ttlFamily(r, t, u)
		clientFamily(r, t, u)
		lifecycleFamily(r, t, u)
	}
	concFamily(r, t, u, race)

	if race {
		r.Require("conc_accepts_justified", 100)
		r.Require("conc_forged_rejected", 100)
		return
	}
	// not vacuous: valid handshakes accepted through every door
	r.Require("valid_accepted:real-client-handshake", 50)
	r.Require("valid_accepted:real-client-token", 50)
	r.Require("valid_accepted:raw-client-init", 50)
	r.Require("valid_accepted:raw-server-init", 50)
	r.Require("valid_accepted_how:sig", 100)
	r.Require("valid_accepted_how:bearer", 50)
	r.Require("real_server_sig_verified_with_own_preimage", 100)
	r.Require("real_client_serverinit_handshakes", 20)
	// mutated requests both rejected and (where equivalent) accepted
	r.Require("srv_mutated_rejected", 10000)
	r.Require("srv_mutated_accepted_justified", 500)
	r.Require("srv_mutated_accepted_justified_by:sig", 100)
	r.Require("srv_mutated_accepted_justified_by:bearer", 100)
	// lifetimes: both sides of both boundaries
	r.Require("ttl_challenge_accepted_at_or_before_expiry", 20)
	r.Require("ttl_challenge_rejected_after_expiry", 20)
	r.Require("ttl_token_accepted_at_or_before_expiry", 20)
	r.Require("ttl_token_rejected_after_expiry", 20)
	r.Require("lifecycle_proof_bound_to_the_new_key_accepted", 2)
	r.Require("lifecycle_long_secret_sessions", 4)
	// client
	r.Require("cli_valid_accepted", 50)
	r.Require("cli_mutated_rejected", 1000)
	r.Require("cli_mutated_accepted_justified", 50)
	r.Require("cli_accepted_attacker_proved_own_identity", 10)
	r.Require("cli_calls_failed_by_a_broken_round_trip", 20)
	r.Require("cli_rejected_family:hostless", 20)
	// concurrency
	r.Require("conc_accepts_justified", 100)
	r.Require("conc_forged_rejected", 100)
}

// selfTest pins the harness's pre-image to the signing example of the libp2p HTTP Peer-ID auth spec
// (Ed25519 key 0x01.., client key 0x02.., challenge 0x11.., hostname example.com) by its structure, and
// checks the deterministic key derivation.
func selfTest(r *run.R, u *universe) {
	d := serverProofData("ERERERERERERERERERERERERERERERERERERERERERE=", []byte{8, 1, 18, 32}, "example.com")
	want := "libp2p-PeerID" + "=" + "challenge-server=ERERERERERERERERERERERERERERERERERERERERERE=" +
		"\x16" + "client-public-key=\x08\x01\x12\x20" + "\x14" + "hostname=example.com"
	if string(d) != want {
		r.T.Fatalf("harness pre-image construction is off:\n got %q\nwant %q", d, want)
	}
	long := signedData(kv{"k", strings.Repeat("x", 298)})
	if string(long[:len(scheme)+2]) != scheme+"\xac\x02" {
		r.T.Fatalf("uvarint length prefix is off: %q", long[:len(scheme)+3])
	}
	seen := map[peer.ID]bool{}
	for _, id := range append(append([]*ident{}, u.servers...), u.attacker[:]...) {
		seen[id.id] = true
	}
	for j := range u.clients {
		for _, id := range u.clients[j] {
			seen[id.id] = true
		}
	}
	if len(seen) != len(u.servers)+4+12 {
		r.T.Fatalf("identities are not distinct: %d", len(seen))
	}
}
