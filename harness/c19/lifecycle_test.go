package c19

import (
	"fmt"
	"testing"
	"testing/synctest"
	"time"

	"verif/harness/rig/run"
)

// lifecycle family: things that change on a LIVE server object.
//
//   - long secrets: two servers with the SAME identity key whose HmacKey values are longer than a hash
//     block input the implementation might clip (48 bytes) and differ only after byte 32: "state minted
//     under a different server secret" must be refused (challenge state and tokens, both directions).
//   - key rotated in place: the exported PrivKey field of a handler that has already served requests is
//     replaced. From then on "the server's public key" is the new one: a client proof that binds the
//     RETIRED key must be refused, one that binds the new key is the positive control.
func lifecycleFamily(r *run.R, t *testing.T, u *universe) {
	for s := range u.servers {
		for kt := 0; kt < 4; kt++ {
			id := fmt.Sprintf("lifecycle/s%d-%s/%s", s, ktNames[u.serverKT[s]], ktNames[kt])
			if !r.Want(id) || r.TooMany() {
				continue
			}
			synctest.Test(t, func(*testing.T) {
				sc := newScen(r, u, id, s, time.Hour, 9, uint64(s), uint64(kt))
				defer sc.flush()
				sc.lifecycleCase(u.hosts[(s+kt)%2], u.clients[(s+kt)%3][kt], s)
			})
		}
	}
}

func (sc *scen) lifecycleCase(host string, cl *ident, sIdx int) {
	u := sc.u
	// ---- long secrets that share their first 32 bytes
	prefix := rngBytes(sc.rng, 32)
	k1 := append(append([]byte(nil), prefix...), []byte("-secret-version-1")...)
	k2 := append(append([]byte(nil), prefix...), []byte("-secret-version-2")...)
	L1 := sc.w.newInstance("L1", u.servers[sIdx], k1, time.Hour, sIdx%2 == 1, u.hosts...)
	L2 := sc.w.newInstance("L2", u.servers[sIdx], k2, time.Hour, sIdx%2 == 1, u.hosts...)
	sc.watch(L1, L2)
	for _, flow := range []string{flowServer, flowClient} {
		s1 := sc.rawSession(L1, host, cl, flow)
		s2 := sc.rawSession(L2, host, cl, flow)
		if !s1.ok || !s2.ok {
			sc.count("lifecycle_long_secret_setup_failed")
			continue
		}
		sc.count("lifecycle_long_secret_sessions")
		sc.fire(L2, attack{kind: "lifecycle/long-secret/token-of-the-other-secret", desc: flow, host: host, authz: hdr([]kv{{"bearer", s1.bearer}})})
		sc.fire(L1, attack{kind: "lifecycle/long-secret/token-of-the-other-secret", desc: flow, host: host, authz: hdr([]kv{{"bearer", s2.bearer}})})
		// challenge state minted by L1, answered (correctly signed) at L2
		first := L1.serve(host)
		sc.eval()
		www := orderedParams(first.respHdr.Get("WWW-Authenticate"))
		if chC, opq := getParam(www, "challenge-client"), getParam(www, "opaque"); chC != "" && opq != "" {
			sig := sign(cl, clientProofData(chC, L2.id.pubBytes, host))
			sc.fire(L2, attack{kind: "lifecycle/long-secret/challenge-of-the-other-secret", desc: flow, host: host,
				authz: hdr([]kv{{"public-key", b64(cl.pubBytes)}, {"challenge-server", sc.challenge()}, {"sig", sig}, {"opaque", opq}})})
		}
	}
	// ---- identity key rotated in place on a handler that has served requests
	R := sc.w.newInstance("R", u.servers[sIdx], rngBytes(sc.rng, 32), time.Hour, sIdx%2 == 1, u.hosts...)
	sc.watch(R)
	if s := sc.rawSession(R, host, cl, flowServer); !s.ok {
		sc.count("lifecycle_rotation_setup_failed")
		return
	}
	old := R.id
	nu := u.servers[(sIdx+1)%len(u.servers)]
	R.auth.PrivKey = nu.priv
	R.mu.Lock()
	R.id = nu
	R.mu.Unlock()
	first := R.serve(host)
	sc.eval()
	www := orderedParams(first.respHdr.Get("WWW-Authenticate"))
	chC, opq := getParam(www, "challenge-client"), getParam(www, "opaque")
	if chC == "" || opq == "" {
		sc.count("lifecycle_rotation_no_challenge")
		return
	}
	stale := sign(cl, clientProofData(chC, old.pubBytes, host))
	sc.fire(R, attack{kind: "lifecycle/key-rotated-in-place/proof-binds-the-retired-server-key", desc: "server-init", host: host,
		authz: hdr([]kv{{"public-key", b64(cl.pubBytes)}, {"challenge-server", sc.challenge()}, {"sig", stale}, {"opaque", opq}})})
	// positive control: a fresh challenge, proof bound to the key the server holds now
	first = R.serve(host)
	sc.eval()
	www = orderedParams(first.respHdr.Get("WWW-Authenticate"))
	if chC, opq = getParam(www, "challenge-client"), getParam(www, "opaque"); chC != "" && opq != "" {
		good := sign(cl, clientProofData(chC, nu.pubBytes, host))
		c := R.serve(host, buildHeader([]kv{{"public-key", b64(cl.pubBytes)}, {"challenge-server", sc.challenge()}, {"sig", good}, {"opaque", opq}}))
		sc.eval()
		if sc.expectValid("lifecycle-after-rotation", R, c, cl) {
			sc.count("lifecycle_proof_bound_to_the_new_key_accepted")
		}
	}
}
