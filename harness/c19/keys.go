package c19

import (
	"crypto/ecdsa"
	"crypto/elliptic"
	"crypto/rsa"
	"crypto/x509"
	"fmt"
	"math/big"
	"math/rand/v2"

	"github.com/libp2p/go-libp2p/core/crypto"
	"github.com/libp2p/go-libp2p/core/peer"
)

// Key material is derived from the run's PRNG only (crypto/rsa and crypto/ecdsa key generation read a
// non-deterministic number of bytes from a custom reader, so RSA primes and the ECDSA scalar are
// derived by hand here).

const (
	ktEd25519 = iota
	ktECDSA
	ktSecp256k1
	ktRSA
)

var ktNames = []string{"ed25519", "ecdsa", "secp256k1", "rsa2048"}

// ident is one key pair whose private half the harness owns (a client, a server, or the attacker).
type ident struct {
	name     string
	kt       int
	priv     crypto.PrivKey
	pub      crypto.PubKey
	pubBytes []byte // protobuf encoding of the public key (what goes on the wire and into pre-images)
	id       peer.ID
}

type rngReader struct{ r *rand.Rand }

func (x rngReader) Read(p []byte) (int, error) {
	for i := range p {
		p[i] = byte(x.r.Uint32())
	}
	return len(p), nil
}

func rngBytes(r *rand.Rand, n int) []byte {
	b := make([]byte, n)
	rngReader{r}.Read(b)
	return b
}

func detPrime(r *rand.Rand, bits int) *big.Int {
	for {
		b := rngBytes(r, bits/8)
		b[0] |= 0xC0
		b[len(b)-1] |= 1
		p := new(big.Int).SetBytes(b)
		if !p.ProbablyPrime(20) {
			continue
		}
		// e = 65537 must be invertible mod p-1
		pm1 := new(big.Int).Sub(p, big.NewInt(1))
		if new(big.Int).GCD(nil, nil, pm1, big.NewInt(65537)).Cmp(big.NewInt(1)) != 0 {
			continue
		}
		return p
	}
}

func detRSA(r *rand.Rand) (crypto.PrivKey, error) {
	for {
		p, q := detPrime(r, 1024), detPrime(r, 1024)
		if p.Cmp(q) == 0 {
			continue
		}
		n := new(big.Int).Mul(p, q)
		if n.BitLen() != 2048 {
			continue
		}
		phi := new(big.Int).Mul(new(big.Int).Sub(p, big.NewInt(1)), new(big.Int).Sub(q, big.NewInt(1)))
		d := new(big.Int).ModInverse(big.NewInt(65537), phi)
		if d == nil {
			continue
		}
		k := &rsa.PrivateKey{PublicKey: rsa.PublicKey{N: n, E: 65537}, D: d, Primes: []*big.Int{p, q}}
		k.Precompute()
		if err := k.Validate(); err != nil {
			return nil, err
		}
		return crypto.UnmarshalRsaPrivateKey(x509.MarshalPKCS1PrivateKey(k))
	}
}

func newIdent(r *rand.Rand, name string, kt int) (*ident, error) {
	var priv crypto.PrivKey
	var err error
	switch kt {
	case ktEd25519:
		priv, _, err = crypto.GenerateEd25519Key(rngReader{r})
	case ktECDSA:
		for {
			var k *ecdsa.PrivateKey
			k, err = ecdsa.ParseRawPrivateKey(elliptic.P256(), rngBytes(r, 32))
			if err != nil {
				continue // scalar out of range: draw again
			}
			priv, _, err = crypto.ECDSAKeyPairFromKey(k)
			break
		}
	case ktSecp256k1:
		for {
			priv, err = crypto.UnmarshalSecp256k1PrivateKey(rngBytes(r, 32))
			if err == nil {
				break
			}
		}
	case ktRSA:
		priv, err = detRSA(r)
	default:
		err = fmt.Errorf("key type %d", kt)
	}
	if err != nil {
		return nil, err
	}
	pub := priv.GetPublic()
	pb, err := crypto.MarshalPublicKey(pub)
	if err != nil {
		return nil, err
	}
	id, err := peer.IDFromPublicKey(pub)
	if err != nil {
		return nil, err
	}
	return &ident{name: name, kt: kt, priv: priv, pub: pub, pubBytes: pb, id: id}, nil
}
