package c19

import (
	"context"
	"crypto/tls"
	"fmt"
	"io"
	"net/http"
	"net/http/httptest"
	"runtime/debug"
	"strings"
	"sync"
	"time"

	"github.com/libp2p/go-libp2p/core/crypto"
	"github.com/libp2p/go-libp2p/core/peer"
	httpauth "github.com/libp2p/go-libp2p/p2p/http/auth"
)

// challengeTTL is the lifetime of a server challenge (DESIGN.md C19: 5 min; a constant of the protocol
// implementation, trusted base of this check).
const challengeTTL = 5 * time.Minute

// issuedOpaque: one challenge state a server instance handed out, as seen ON THE WIRE (response header
// of the real server), with the virtual time and the request hostname it was handed out for.
type issuedOpaque struct {
	host      string
	at        time.Time
	challenge string   // text of the challenge-client parameter issued together with this opaque
	boundKeys [][]byte // client-initiated flow: public keys the eliciting request presented (the challenge is bound to them)
}

// issuedToken: one bearer token a server instance handed out.
type issuedToken struct {
	host    string
	at      time.Time
	peer    peer.ID // the peer whose proof the oracle verified for the request that was answered with this token
	tainted bool    // handed out in answer to a request the oracle could NOT justify (already reported)
}

// instance is one real ServerPeerIDAuth plus everything the harness saw it issue.
type instance struct {
	name     string
	id       *ident
	auth     *httpauth.ServerPeerIDAuth
	tlsMode  bool
	tokenTTL time.Duration
	w        *world

	// viaClient is called for every request that reached this instance through a client's round
	// tripper (the scenario books acceptances of such requests there)
	viaClient func(c *call)
	// onPanic is called when ServeHTTP panicked
	onPanic func(c *call)

	mu      sync.Mutex
	opaques map[string]*issuedOpaque
	tokens  map[string]*issuedToken
}

// world: all instances of one scenario (to tell "minted by another instance" from "never minted").
type world struct {
	insts []*instance
}

func (w *world) newInstance(name string, id *ident, hmacKey []byte, tokenTTL time.Duration, tlsMode bool, hosts ...string) *instance {
	in := &instance{name: name, id: id, tlsMode: tlsMode, tokenTTL: tokenTTL, w: w,
		opaques: map[string]*issuedOpaque{}, tokens: map[string]*issuedToken{}}
	valid := map[string]bool{}
	for _, h := range hosts {
		valid[h] = true
	}
	in.auth = &httpauth.ServerPeerIDAuth{
		PrivKey:         id.priv,
		TokenTTL:        tokenTTL,
		NoTLS:           !tlsMode,
		ValidHostnameFn: func(h string) bool { return valid[h] },
		HmacKey:         hmacKey, // nil: the implementation draws its own secret
		Next:            in.next,
	}
	w.insts = append(w.insts, in)
	return in
}

// verdict of the oracle on one acceptance.
type verdict struct {
	ok        bool
	how       string // "sig" | "bearer" | "tainted-bearer"
	reason    string // when !ok: the furthest clause that failed
	otherHost bool   // justified by a bearer token that was issued under another hostname (observation only)
}

// call is one request that went through ServeHTTP.
type call struct {
	host     string
	sni      string
	authz    []string
	at       time.Time
	status   int
	respHdr  http.Header
	panicked string  // ServeHTTP panicked (value + stack)
	accepted bool    // Next was invoked
	peer     peer.ID // with this peer
	v        verdict
}

type callKey struct{}

// next is the application callback of the real server: the observation point of the property.
func (in *instance) next(p peer.ID, w http.ResponseWriter, r *http.Request) {
	c, _ := r.Context().Value(callKey{}).(*call)
	v := in.judge(p, r, time.Now())
	if c != nil {
		c.accepted, c.peer, c.v = true, p, v
	}
	w.WriteHeader(http.StatusOK)
}

// serve sends one request (possibly mutated Authorization values, any Host) through the real server.
func (in *instance) serve(host string, authz ...string) *call {
	return in.serveSNI(host, host, authz...)
}

func (in *instance) serveSNI(host, sni string, authz ...string) *call {
	req := httptest.NewRequest("POST", "http://placeholder.invalid/", nil)
	req.Host = host
	if len(authz) > 0 {
		req.Header["Authorization"] = authz
	}
	return in.serveReq(req, sni)
}

func (in *instance) serveReq(req *http.Request, sni string) *call {
	c := &call{host: req.Host, sni: sni, authz: append([]string(nil), req.Header.Values("Authorization")...), at: time.Now()}
	if in.tlsMode {
		req.TLS = &tls.ConnectionState{ServerName: sni}
	}
	req = req.WithContext(context.WithValue(req.Context(), callKey{}, c))
	rec := httptest.NewRecorder()
	func() {
		defer func() {
			if p := recover(); p != nil {
				c.panicked = fmt.Sprintf("%v\n%s", p, debug.Stack())
			}
		}()
		in.auth.ServeHTTP(rec, req)
	}()
	if c.panicked != "" && in.onPanic != nil {
		in.onPanic(c)
	}
	c.status = rec.Code
	c.respHdr = rec.Header()
	in.recordIssued(c)
	return c
}

// recordIssued parses what the real server put on the wire and remembers every challenge state and
// token together with the hostname of the request and the (virtual) time.
func (in *instance) recordIssued(c *call) {
	now := time.Now()
	if www := c.respHdr.Values("WWW-Authenticate"); len(www) > 0 {
		pm := looseParams(www)
		var bound [][]byte
		if len(pm["sig"]) > 0 {
			// the server signed => it ran the client-initiated branch and bound the challenge to the key
			// the request presented (all presented values are kept: the oracle does not guess which
			// duplicate the parser picked)
			for _, pk := range looseParams(c.authz)["public-key"] {
				if b, ok := looseB64(pk); ok {
					bound = append(bound, b)
				}
			}
		}
		ch := ""
		if len(pm["challenge-client"]) > 0 {
			ch = pm["challenge-client"][0]
		}
		for _, o := range pm["opaque"] {
			if blob, ok := looseB64(o); ok {
				in.mu.Lock()
				in.opaques[string(blob)] = &issuedOpaque{host: c.host, at: now, challenge: ch, boundKeys: bound}
				in.mu.Unlock()
			}
		}
	}
	if ai := c.respHdr.Values("Authentication-Info"); len(ai) > 0 {
		for _, b := range looseParams(ai)["bearer"] {
			if blob, ok := looseB64(b); ok {
				in.mu.Lock()
				in.tokens[string(blob)] = &issuedToken{host: c.host, at: now, peer: c.peer, tainted: !c.accepted || !c.v.ok}
				in.mu.Unlock()
			}
		}
	}
}

func (in *instance) token(blob []byte) *issuedToken {
	in.mu.Lock()
	defer in.mu.Unlock()
	return in.tokens[string(blob)]
}

func (in *instance) opaque(blob []byte) *issuedOpaque {
	in.mu.Lock()
	defer in.mu.Unlock()
	return in.opaques[string(blob)]
}

// explain lists what the harness knows about every state blob a request carries (for witnesses).
func (in *instance) explain(authz []string, now time.Time) []map[string]any {
	var out []map[string]any
	pm := looseParams(authz)
	for _, k := range []string{"opaque", "bearer"} {
		for _, v := range pm[k] {
			blob, ok := looseB64(v)
			if !ok {
				out = append(out, map[string]any{"param": k, "record": "undecodable"})
				continue
			}
			found := false
			for _, o := range in.w.insts {
				if op := o.opaque(blob); op != nil {
					found = true
					out = append(out, map[string]any{"param": k, "record": "challenge state", "issued_by": o.name, "issued_for_host": op.host,
						"age": now.Sub(op.at).String(), "challenge_client": op.challenge, "bound_client_keys": len(op.boundKeys)})
				}
				if tk := o.token(blob); tk != nil {
					found = true
					out = append(out, map[string]any{"param": k, "record": "bearer token", "issued_by": o.name, "issued_for_host": tk.host,
						"age": now.Sub(tk.at).String(), "issued_for_peer": tk.peer.String(), "tainted": tk.tainted})
				}
			}
			if !found {
				out = append(out, map[string]any{"param": k, "record": "never issued by any instance of this case"})
			}
		}
	}
	return out
}

// origin classifies a blob this instance never issued.
func (in *instance) origin(blob []byte) string {
	for _, o := range in.w.insts {
		if o == in {
			continue
		}
		if o.token(blob) != nil || o.opaque(blob) != nil {
			return "minted-by-other-instance"
		}
	}
	return "never-issued"
}

// judge is the independent re-verifier. Statement: "reports a client peer ID to the application only if
// the request carries either a signature, valid under that peer's public key, over the server's own
// unexpired challenge bound to the server's public key and the request's hostname, or an unexpired
// bearer token the server itself issued for that peer ID."
//
// It looks at the request the server actually received (every Authorization value, every occurrence
// of every parameter) and at nothing the implementation computed.
func (in *instance) judge(p peer.ID, r *http.Request, now time.Time) verdict {
	pm := looseParams(r.Header.Values("Authorization"))
	host := r.Host
	rank, reason := 0, "no-credentials"
	note := func(rk int, s string) {
		if rk > rank {
			rank, reason = rk, s
		}
	}

	// (a) "an unexpired bearer token the server itself issued for that peer ID"
	for _, b := range pm["bearer"] {
		blob, ok := looseB64(b)
		if !ok {
			note(1, "bearer-undecodable")
			continue
		}
		tok := in.token(blob)
		switch {
		case tok == nil && in.opaque(blob) != nil:
			note(2, "bearer-is-challenge-state")
		case tok == nil:
			note(2, "bearer-"+in.origin(blob))
		case tok.peer != p:
			note(3, "bearer-issued-for-other-peer")
		case now.After(tok.at.Add(in.tokenTTL)):
			note(4, "bearer-expired")
		case tok.tainted:
			return verdict{ok: true, how: "tainted-bearer"}
		default:
			// Clause (a) of the statement does not bind a token to the hostname it was issued under
			// (interpretation decision: only the challenge/signature flow is hostname-bound). A token
			// presented under another hostname is therefore justified, but observed separately.
			return verdict{ok: true, how: "bearer", otherHost: tok.host != host}
		}
	}

	// (b) "a signature, valid under that peer's public key, over the server's own unexpired challenge
	// bound to the server's public key and the request's hostname"
	for _, o := range pm["opaque"] {
		blob, ok := looseB64(o)
		if !ok {
			note(1, "opaque-undecodable")
			continue
		}
		op := in.opaque(blob)
		switch {
		case op == nil && in.token(blob) != nil:
			note(2, "opaque-is-bearer-token")
			continue
		case op == nil:
			note(2, "opaque-"+in.origin(blob))
			continue
		case now.After(op.at.Add(challengeTTL)):
			note(4, "challenge-expired")
			continue
		case op.host != host:
			note(5, "challenge-issued-for-other-hostname")
			continue
		}
		// candidate keys: the key(s) the challenge was bound to, and any key the request carries
		cands := append([][]byte(nil), op.boundKeys...)
		for _, pk := range pm["public-key"] {
			if b, ok := looseB64(pk); ok {
				cands = append(cands, b)
			}
		}
		if len(cands) == 0 {
			note(6, "no-public-key")
		}
		data := clientProofData(op.challenge, in.id.pubBytes, host)
		for _, kb := range cands {
			pk, err := crypto.UnmarshalPublicKey(kb)
			if err != nil {
				note(6, "public-key-unparsable")
				continue
			}
			if id, err := peer.IDFromPublicKey(pk); err != nil || id != p {
				note(7, "public-key-does-not-hash-to-reported-peer")
				continue
			}
			if len(pm["sig"]) == 0 {
				note(8, "no-signature")
			}
			for _, s := range pm["sig"] {
				sig, ok := looseB64(s)
				if !ok {
					note(8, "sig-undecodable")
					continue
				}
				if good, err := pk.Verify(data, sig); err == nil && good {
					return verdict{ok: true, how: "sig"}
				}
				note(9, "sig-invalid-over-(challenge,server-key,hostname)")
			}
		}
	}
	return verdict{reason: reason}
}

// ---------------------------------------------------------------------------------------------
// client side

// exchange is one round trip the client under test made through the harness's round tripper.
type exchange struct {
	authz  []string    // Authorization values of the request the client sent
	status int         // what the (possibly malicious) server answered
	hdr    http.Header // headers the client received
	note   string
}

// rtFunc adapts a function to http.RoundTripper.
type rtFunc func(*http.Request) (*http.Response, error)

func (f rtFunc) RoundTrip(r *http.Request) (*http.Response, error) { return f(r) }

// honestRT forwards a client request to a real server instance in-process.
func (in *instance) roundTrip(req *http.Request) (*http.Response, *call) {
	sreq := httptest.NewRequest(req.Method, "http://placeholder.invalid/", nil)
	sreq.Host = req.Host
	if req.Host == "" && req.URL != nil {
		sreq.Host = req.URL.Host
	}
	for k, v := range req.Header {
		sreq.Header[k] = append([]string(nil), v...)
	}
	if req.Body != nil {
		sreq.Body = req.Body
	}
	c := in.serveReq(sreq, sreq.Host)
	if in.viaClient != nil {
		in.viaClient(c)
	}
	resp := &http.Response{StatusCode: c.status, Status: http.StatusText(c.status), Header: c.respHdr.Clone(),
		Body: io.NopCloser(strings.NewReader("")), Request: req, Proto: "HTTP/1.1", ProtoMajor: 1, ProtoMinor: 1}
	return resp, c
}

// judgeClient: "the client reports a server peer ID only if the server's signature over the client's
// own fresh challenge, the client's public key and the hostname verifies under that ID's key."
//
// log holds exactly the round trips of the AuthenticatedDo call that returned s. seen is the set of
// challenge-server values this bubble's clients sent in EARLIER calls (freshness). tokenPeer is the
// server id a previous, justified handshake of the same client object established for this hostname
// ("" if none): a call answered from the client's token cache re-reports that id by design.
func judgeClient(s peer.ID, cl *ident, host string, log []exchange, seen map[string]bool, tokenPeer peer.ID) verdict {
	var challenges, sigs, keys []string
	for _, ex := range log {
		pm := looseParams(ex.authz)
		challenges = append(challenges, pm["challenge-server"]...)
		for _, h := range []string{"WWW-Authenticate", "Authentication-Info"} {
			rp := looseParams(ex.hdr.Values(h))
			sigs = append(sigs, rp["sig"]...)
			keys = append(keys, rp["public-key"]...)
		}
	}
	if len(challenges) == 0 {
		// no handshake in this call: only the client's token cache can have produced the id
		if tokenPeer != "" && s == tokenPeer {
			return verdict{ok: true, how: "token-cache"}
		}
		return verdict{reason: "no-challenge-sent-and-no-established-token"}
	}
	rank, reason := 0, "no-server-key-for-reported-id"
	note := func(rk int, r string) {
		if rk > rank {
			rank, reason = rk, r
		}
	}
	// keys hashing to s: offered in a response, or embedded in the id itself
	var cands []crypto.PubKey
	if pk, err := s.ExtractPublicKey(); err == nil && pk != nil {
		cands = append(cands, pk)
	}
	for _, k := range keys {
		kb, ok := looseB64(k)
		if !ok {
			continue
		}
		pk, err := crypto.UnmarshalPublicKey(kb)
		if err != nil {
			continue
		}
		if id, err := peer.IDFromPublicKey(pk); err == nil && id == s {
			cands = append(cands, pk)
		} else {
			note(1, "offered-key-does-not-hash-to-reported-id")
		}
	}
	for _, pk := range cands {
		if len(sigs) == 0 {
			note(2, "no-server-signature")
		}
		for _, ch := range challenges {
			data := serverProofData(ch, cl.pubBytes, host)
			for _, sg := range sigs {
				sig, ok := looseB64(sg)
				if !ok {
					note(2, "sig-undecodable")
					continue
				}
				if good, err := pk.Verify(data, sig); err == nil && good {
					if seen[ch] {
						note(4, "challenge-not-fresh")
						continue
					}
					return verdict{ok: true, how: "sig"}
				}
				note(3, "sig-invalid-over-(own-challenge,client-key,hostname)")
			}
		}
	}
	return verdict{reason: reason}
}

// provenIn: the server identities PROVEN in one call's log: ids whose key (offered in a response of that
// call) verifies a signature of that call over (a fresh challenge this client sent in it, the client's
// key, the hostname).
func provenIn(log []exchange, cl *ident, host string, seen map[string]bool) (out []peer.ID) {
	var challenges, sigs, keys []string
	for _, ex := range log {
		challenges = append(challenges, looseParams(ex.authz)["challenge-server"]...)
		for _, h := range []string{"WWW-Authenticate", "Authentication-Info"} {
			rp := looseParams(ex.hdr.Values(h))
			sigs = append(sigs, rp["sig"]...)
			keys = append(keys, rp["public-key"]...)
		}
	}
	done := map[peer.ID]bool{}
	for _, k := range keys {
		kb, ok := looseB64(k)
		if !ok {
			continue
		}
		pk, err := crypto.UnmarshalPublicKey(kb)
		if err != nil {
			continue
		}
		id, err := peer.IDFromPublicKey(pk)
		if err != nil || done[id] {
			continue
		}
		for _, ch := range challenges {
			for _, sg := range sigs {
				if sig, ok := looseB64(sg); ok {
					if good, err := pk.Verify(serverProofData(ch, cl.pubBytes, host), sig); err == nil && good && !done[id] {
						done[id] = true
						out = append(out, id)
					}
				}
			}
		}
	}
	return
}
