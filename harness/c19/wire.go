package c19

import (
	"encoding/base64"
	"regexp"
	"sort"
	"strings"
)

// Wire format of the libp2p HTTP Peer-ID auth scheme, written for the harness from the spec as the
// implementation realises it. Nothing here calls into p2p/http/auth: the oracle must not share the
// code it judges.

const scheme = "libp2p-PeerID"

type kv struct{ k, v string }

// signedData is the harness's own construction of the signing pre-image: the scheme string, then the
// parts sorted by key, each written as uvarint(len("key=value")) followed by "key=value".
func signedData(parts ...kv) []byte {
	return signedDataOpt(scheme, true, true, parts...)
}

// signedDataOpt lets the attacker build deliberately wrong pre-images (other prefix, unsorted, no
// length prefixes).
func signedDataOpt(prefix string, sorted, lenPrefix bool, parts ...kv) []byte {
	ps := append([]kv(nil), parts...)
	if sorted {
		sort.SliceStable(ps, func(i, j int) bool { return ps[i].k < ps[j].k })
	}
	out := []byte(prefix)
	for _, p := range ps {
		n := uint64(len(p.k) + 1 + len(p.v))
		if lenPrefix {
			for n >= 0x80 { // unsigned LEB128
				out = append(out, byte(n)|0x80)
				n >>= 7
			}
			out = append(out, byte(n))
		}
		out = append(out, p.k...)
		out = append(out, '=')
		out = append(out, p.v...)
	}
	return out
}

// clientProofData: what a client signs to prove its identity to a server.
func clientProofData(challengeClient string, serverPub []byte, hostname string) []byte {
	return signedData(kv{"challenge-client", challengeClient}, kv{"server-public-key", string(serverPub)}, kv{"hostname", hostname})
}

// serverProofData: what a server signs to prove its identity to a client.
func serverProofData(challengeServer string, clientPub []byte, hostname string) []byte {
	return signedData(kv{"challenge-server", challengeServer}, kv{"client-public-key", string(clientPub)}, kv{"hostname", hostname})
}

var paramRe = regexp.MustCompile(`(bearer|challenge-client|challenge-server|opaque|public-key|sig)="([^"]*)"`)

// looseParams collects EVERY key="value" occurrence of the scheme's parameter names in the given header
// values. It is deliberately more permissive than any reasonable parser: the oracle asks whether the
// request carries a proof at all, whichever occurrence the implementation chose to look at.
func looseParams(headerVals []string) map[string][]string {
	out := map[string][]string{}
	for _, hv := range headerVals {
		for _, m := range paramRe.FindAllStringSubmatch(hv, -1) {
			out[m[1]] = append(out[m[1]], m[2])
		}
	}
	return out
}

// orderedParams parses one well-formed header value (as produced by the real server/client) into its
// parameters in order of appearance.
func orderedParams(hv string) []kv {
	var out []kv
	for _, m := range paramRe.FindAllStringSubmatch(hv, -1) {
		out = append(out, kv{m[1], m[2]})
	}
	return out
}

func getParam(ps []kv, k string) string {
	for _, p := range ps {
		if p.k == k {
			return p.v
		}
	}
	return ""
}

func setParam(ps []kv, k, v string) []kv {
	out := append([]kv(nil), ps...)
	for i := range out {
		if out[i].k == k {
			out[i].v = v
			return out
		}
	}
	return append(out, kv{k, v})
}

func dropParam(ps []kv, k string) []kv {
	var out []kv
	for _, p := range ps {
		if p.k != k {
			out = append(out, p)
		}
	}
	return out
}

// buildHeader writes parameters the way the spec examples do.
func buildHeader(ps []kv) string {
	var sb strings.Builder
	sb.WriteString(scheme)
	sb.WriteByte(' ')
	for i, p := range ps {
		if i > 0 {
			sb.WriteString(", ")
		}
		sb.WriteString(p.k)
		sb.WriteString(`="`)
		sb.WriteString(p.v)
		sb.WriteByte('"')
	}
	return sb.String()
}

func b64(b []byte) string { return base64.URLEncoding.EncodeToString(b) }

// looseB64 decodes base64 text under any alphabet/padding convention, ignoring CR/LF; the oracle only
// needs the bytes the text denotes.
func looseB64(s string) ([]byte, bool) {
	s = strings.NewReplacer("\r", "", "\n", "").Replace(s)
	for _, enc := range []*base64.Encoding{base64.URLEncoding, base64.RawURLEncoding, base64.StdEncoding, base64.RawStdEncoding} {
		if b, err := enc.DecodeString(s); err == nil {
			return b, true
		}
	}
	return nil, false
}

func mustB64(s string) []byte {
	b, _ := looseB64(s)
	return b
}
