package c19

import (
	"fmt"
	"io"
	"net/http"
	"sort"
	"strings"
	"sync"
	"sync/atomic"
	"testing"
	"testing/synctest"
	"time"

	"github.com/libp2p/go-libp2p/core/peer"
	httpauth "github.com/libp2p/go-libp2p/p2p/http/auth"

	"verif/harness/rig/run"
)

// ---------------------------------------------------------------------------------------------
// the REAL client under observation

type realClient struct {
	sc        *scen
	id        *ident
	auth      *httpauth.ClientPeerIDAuth
	tokenPeer map[string]peer.ID // hostname -> server id established by a handshake the oracle justified
	seen      map[string]bool    // challenge-server values this client sent in earlier calls
	calls     int
	// bearer token -> the server identity PROVEN (signature over this client's challenge of that call) in
	// the call in which the token was issued, whether or not that call ended in an error
	tokenIssuedUnder map[string]peer.ID
	hostless         bool // requests are built by hand, without Request.Host (the URL names the host)
}

func newRealClient(sc *scen, id *ident, clientTTL time.Duration) *realClient {
	return &realClient{sc: sc, id: id, auth: &httpauth.ClientPeerIDAuth{PrivKey: id.priv, TokenTTL: clientTTL},
		tokenPeer: map[string]peer.ID{}, seen: map[string]bool{}, tokenIssuedUnder: map[string]peer.ID{}}
}

// wire is the round tripper between the real client and the world. handler produces the response (by
// default: forward to the honest instance); everything the client sends and receives is logged for
// the client-side oracle.
type wire struct {
	log     []exchange
	handler func(step int, req *http.Request) *http.Response
}

func (w *wire) RoundTrip(req *http.Request) (*http.Response, error) {
	authz := append([]string(nil), req.Header.Values("Authorization")...)
	if req.Host == "" && req.URL != nil {
		// what net/http's transport does with a request that carries no explicit Host
		req = req.Clone(req.Context())
		req.Host = req.URL.Host
	}
	resp := w.handler(len(w.log), req)
	if resp == nil {
		// the round trip fails (connection broke): nothing comes back
		w.log = append(w.log, exchange{authz: authz, status: 0, hdr: http.Header{}, note: "round trip failed"})
		return nil, fmt.Errorf("verif wire: connection reset during round trip %d", len(w.log)-1)
	}
	w.log = append(w.log, exchange{authz: authz, status: resp.StatusCode, hdr: resp.Header.Clone()})
	return resp, nil
}

// forward hands the client's request to a real server instance, optionally under another Host and
// with an edited Authorization header; it returns the instance's response and the call record.
func forward(in *instance, req *http.Request, host string, editAuthz func(ps []kv) []kv) (*http.Response, *call) {
	r2 := req.Clone(req.Context())
	if host != "" {
		r2.Host = host
	}
	if editAuthz != nil {
		ps := editAuthz(orderedParams(req.Header.Get("Authorization")))
		if ps == nil {
			r2.Header.Del("Authorization")
		} else {
			r2.Header.Set("Authorization", buildHeader(ps))
		}
	}
	return in.roundTrip(r2)
}

type cliResult struct {
	id  peer.ID
	err error
	v   verdict
	log []exchange
}

// do makes one AuthenticatedDo / AuthenticateWithRoundTripper call and judges the id it returns.
// Statement: "the client reports a server peer ID only if the server's signature over the client's own
// fresh challenge, the client's public key and the hostname verifies under that ID's key."
func (rc *realClient) do(w *wire, host string, getBody bool, kind, desc string) cliResult {
	req, err := http.NewRequest("POST", "http://"+host+"/", nil)
	if err != nil {
		panic(err)
	}
	req.Host = host
	if rc.hostless {
		req.Host = ""
	}
	if getBody {
		req.GetBody = func() (io.ReadCloser, error) { return http.NoBody, nil }
	}
	rc.calls++
	var id peer.ID
	var resp *http.Response
	if rc.calls%2 == 0 {
		id, resp, err = rc.auth.AuthenticatedDo(&http.Client{Transport: w}, req)
	} else {
		id, resp, err = rc.auth.AuthenticateWithRoundTripper(w, req)
	}
	if resp != nil && resp.Body != nil {
		resp.Body.Close()
	}
	res := cliResult{id: id, err: err, log: w.log}
	rc.sc.eval()
	if err == nil {
		res.v = judgeClient(id, rc.id, host, w.log, rc.seen, rc.tokenPeer[host])
		if !res.v.ok {
			rc.sc.bump(&rc.sc.nviol)
			rc.sc.r.Violation("client-accept/"+res.v.reason+"/"+kind, rc.sc.caseID,
				fmt.Sprintf("client %s was told server id %s for %q without proof; oracle: %s [%s %s]", rc.id.name, id, host, res.v.reason, kind, desc),
				map[string]any{"client": rc.id.name, "client_peer": rc.id.id.String(), "hostname": host, "reported_server": id.String(),
					"attack_kind": kind, "attack_variant": desc, "oracle_reason": res.v.reason, "round_trips": logDump(w.log)})
		} else if res.v.how == "sig" {
			rc.tokenPeer[host] = id
		} else if res.v.how == "token-cache" {
			// the token the client presents stands for the handshake in which it was issued: the id
			// reported on its strength is the one proven THEN
			for _, ex := range w.log {
				for _, tok := range looseParams(ex.authz)["bearer"] {
					if under, ok := rc.tokenIssuedUnder[tok]; ok && under != id {
						rc.sc.bump(&rc.sc.nviol)
						rc.sc.r.Violation("client-accept/token-was-issued-under-another-proven-identity/"+kind, rc.sc.caseID,
							fmt.Sprintf("client %s reports server id %s for %q on the strength of a bearer token that was issued in a handshake in which %s proved its identity [%s %s]", rc.id.name, id, host, under, kind, desc),
							map[string]any{"client": rc.id.name, "hostname": host, "reported_server": id.String(), "token_issued_under": under.String(), "attack_kind": kind, "attack_variant": desc, "round_trips": logDump(w.log)})
					}
				}
			}
		}
	}
	if proven := provenIn(w.log, rc.id, host, rc.seen); len(proven) == 1 {
		for _, ex := range w.log {
			for _, tok := range looseParams(ex.hdr.Values("Authentication-Info"))["bearer"] {
				if _, ok := rc.tokenIssuedUnder[tok]; !ok {
					rc.tokenIssuedUnder[tok] = proven[0]
				}
			}
		}
	}
	for _, ex := range w.log {
		for _, ch := range looseParams(ex.authz)["challenge-server"] {
			rc.seen[ch] = true
		}
	}
	return res
}

func logDump(log []exchange) []map[string]any {
	var out []map[string]any
	for i, ex := range log {
		out = append(out, map[string]any{"step": i, "client_sent_authorization": ex.authz, "status": ex.status,
			"www_authenticate": ex.hdr.Values("WWW-Authenticate"), "authentication_info": ex.hdr.Values("Authentication-Info")})
	}
	return out
}

func honest(in *instance) func(int, *http.Request) *http.Response {
	return func(_ int, req *http.Request) *http.Response {
		resp, _ := forward(in, req, "", nil)
		return resp
	}
}

// capture lets the real client make the valid exchange of the given flow against in and returns the
// server-side records of (the request that proved the identity, a request using the bearer token).
func (rc *realClient) capture(in *instance, host, flow string) (proof, bearer *call) {
	sc := rc.sc
	var calls []*call
	rec := func(_ int, req *http.Request) *http.Response {
		resp, c := forward(in, req, "", nil)
		calls = append(calls, c)
		return resp
	}
	res := rc.do(&wire{handler: rec}, host, true, "valid", "first-contact")
	if res.err != nil || len(calls) != 2 {
		sc.count("valid_rejected:real-client-handshake")
		return nil, nil
	}
	sc.count("cli_valid_accepted")
	if flow == flowClient {
		proof = calls[1]
		if !sc.expectValid("real-client-handshake", in, proof, rc.id) {
			return nil, nil
		}
		calls = nil
		res = rc.do(&wire{handler: rec}, host, true, "valid", "token-reuse")
		if res.err != nil || len(calls) != 1 {
			sc.count("valid_rejected:real-client-token")
			return nil, nil
		}
		sc.count("cli_valid_accepted")
		sc.count("cli_valid_accepted_by:" + res.v.how)
		bearer = calls[0]
		if !sc.expectValid("real-client-token", in, bearer, rc.id) {
			return nil, nil
		}
		return proof, bearer
	}
	// server-initiated flow: let the token expire at the server, the client then answers the
	// server's challenge
	time.Sleep(in.tokenTTL + time.Second)
	calls = nil
	res = rc.do(&wire{handler: rec}, host, true, "valid", "after-token-expiry")
	if res.err != nil || len(calls) != 3 {
		sc.count("valid_rejected:real-client-handshake")
		return nil, nil
	}
	sc.count("cli_valid_accepted")
	sc.count("real_client_serverinit_handshakes")
	if calls[0].accepted {
		sc.count("expired_token_accepted_by_server") // judged by the oracle via watch()
	}
	proof, bearer = calls[1], calls[2]
	if !sc.expectValid("real-client-handshake", in, proof, rc.id) || !sc.expectValid("real-client-token", in, bearer, rc.id) {
		return nil, nil
	}
	return proof, bearer
}

// ---------------------------------------------------------------------------------------------
// lifetime family: instants around the challenge lifetime and the token lifetime, virtual time

func ttlFamily(r *run.R, t *testing.T, u *universe) {
	ttls := []time.Duration{0, time.Second, 90 * time.Second, 5 * time.Minute, time.Hour}
	if !r.Quick() {
		ttls = append(ttls, time.Nanosecond, 4*time.Minute+59*time.Second, 5*time.Minute+time.Second, 24*time.Hour, 400*24*time.Hour)
	}
	type cs struct {
		id     string
		s, kt  int
		ttl    time.Duration
		stream uint64
	}
	var cases []cs
	n := uint64(0)
	for s := range u.servers {
		for kt := 0; kt < 4; kt++ {
			for _, ttl := range ttls {
				n++
				cases = append(cases, cs{fmt.Sprintf("ttl/s%d-%s/%s/ttl=%v", s, ktNames[u.serverKT[s]], ktNames[kt], ttl), s, kt, ttl, n})
			}
		}
	}
	run.Parallel(len(cases), 0, func(i int) {
		c := cases[i]
		if !r.Want(c.id) || r.TooMany() {
			return
		}
		synctest.Test(t, func(*testing.T) {
			sc := newScen(r, u, c.id, c.s, c.ttl, 3, c.stream)
			defer sc.flush()
			sc.ttlCase(u.hosts[int(c.stream)%2], u.clients[int(c.stream)%3][c.kt])
		})
	})
}

func (sc *scen) ttlCase(host string, cl *ident) {
	S, T := sc.S, sc.S.tokenTTL
	// everything below is issued at virtual instant t0
	t0 := time.Now()
	s1 := sc.rawSession(S, host, cl, flowServer)
	s2 := sc.rawSession(S, host, cl, flowClient)
	rc := newRealClient(sc, cl, 0)
	first := rc.do(&wire{handler: honest(S)}, host, true, "valid", "first-contact")
	if !s1.ok || !s2.ok || first.err != nil {
		sc.count("ttl_setup_failed")
		return
	}
	sc.count("cli_valid_accepted")
	var observed []string // what the real server answered at each probed instant (for the evidence sample)

	type probe struct {
		what  string // "challenge" | "token"
		label string
		authz []string
		at    time.Time // issue time
		ttl   time.Duration
	}
	probes := []probe{
		{"challenge", "server-init", hdr(s1.proof), t0, challengeTTL},
		{"challenge", "client-init", hdr(s2.proof), t0, challengeTTL},
		{"token", "server-init", hdr([]kv{{"bearer", s1.bearer}}), t0, T},
		{"token", "client-init", hdr([]kv{{"bearer", s2.bearer}}), t0, T},
	}
	// the same credentials DECORATED with parameters of the other credential kind (junk, empty, or a
	// genuine one): which lifetime applies must follow from what is actually proven, not from which
	// parameter names are present. what = "mixed": counted apart from the plain probes.
	junk := b64(rngBytes(sc.rng, 48))
	plus := func(ps []kv, extra ...kv) []string { return hdr(append(append([]kv(nil), ps...), extra...)) }
	front := func(ps []kv, extra ...kv) []string { return hdr(append(append([]kv(nil), extra...), ps...)) }
	for _, s := range []*session{s1, s2} {
		lbl := "server-init"
		if s == s2 {
			lbl = "client-init"
		}
		probes = append(probes,
			probe{"mixed", lbl + "/proof+bearer=junk", plus(s.proof, kv{"bearer", junk}), t0, challengeTTL},
			probe{"mixed", lbl + "/proof+bearer=AAAA", plus(s.proof, kv{"bearer", "AAAA"}), t0, challengeTTL},
			probe{"mixed", lbl + "/proof+bearer=empty", plus(s.proof, kv{"bearer", ""}), t0, challengeTTL},
			probe{"mixed", lbl + "/bearer=junk+proof", front(s.proof, kv{"bearer", junk}), t0, challengeTTL},
			probe{"mixed", lbl + "/proof+bearer=own-opaque", plus(s.proof, kv{"bearer", getParam(s.proof, "opaque")}), t0, challengeTTL},
			probe{"mixed", lbl + "/proof+unknown-param", plus(s.proof, kv{"x-verif", junk}), t0, challengeTTL},
			probe{"mixed", lbl + "/token+sig,opaque=junk", plus([]kv{{"bearer", s.bearer}}, kv{"sig", junk}, kv{"opaque", junk}), t0, T},
			probe{"mixed", lbl + "/token+own-proof", plus([]kv{{"bearer", s.bearer}}, s.proof...), t0, T},
			probe{"mixed", lbl + "/token+challenge-client=junk", plus([]kv{{"bearer", s.bearer}}, kv{"challenge-client", junk}), t0, T},
		)
	}
	offsets := func(ttl time.Duration) []time.Duration {
		return []time.Duration{ttl - time.Second, ttl - time.Nanosecond, ttl, ttl + time.Nanosecond, ttl + time.Second, 2*ttl + time.Minute}
	}
	instants := map[time.Duration]bool{0: true}
	for _, o := range append(offsets(T), offsets(challengeTTL)...) {
		if o >= 0 {
			instants[o] = true
		}
	}
	var order []time.Duration
	for o := range instants {
		order = append(order, o)
	}
	sort.Slice(order, func(i, j int) bool { return order[i] < order[j] })

	sweep := func(ps []probe) (late *probe) {
		for _, p := range ps {
			if sc.stop() {
				return
			}
			age := time.Since(p.at)
			c := sc.fire(S, attack{kind: "lifetime/" + p.what + "/" + p.label, desc: fmt.Sprintf("age=%v ttl=%v", age, p.ttl), host: host, authz: p.authz})
			side := "at_or_before_expiry"
			if age > p.ttl {
				side = "after_expiry"
			}
			observed = append(observed, fmt.Sprintf("t0+%v: %s/%s aged %v (ttl %v) -> accepted=%v", time.Since(t0), p.what, p.label, age, p.ttl, c.accepted))
			if c.accepted {
				sc.count("ttl_" + p.what + "_accepted_" + side)
				if tok := getParam(orderedParams(c.respHdr.Get("Authentication-Info")), "bearer"); tok != "" {
					late = &probe{"token", "issued-late", hdr([]kv{{"bearer", tok}}), time.Now(), T}
				}
			} else {
				sc.count("ttl_" + p.what + "_rejected_" + side)
			}
		}
		return
	}
	var late *probe
	for _, o := range order {
		time.Sleep(time.Until(t0.Add(o)))
		if l := sweep(probes); l != nil {
			late = l
		}
		// the real client across the same instants: token reuse while valid, re-handshake
		// (server-initiated) once the server refuses it
		res := rc.do(&wire{handler: honest(S)}, host, true, "valid", fmt.Sprintf("at t0+%v", o))
		if res.err == nil {
			sc.count("cli_valid_accepted")
			sc.count("cli_valid_accepted_by:" + res.v.how)
			if len(res.log) == 3 {
				sc.count("real_client_serverinit_handshakes")
			}
		} else {
			sc.count("ttl_real_client_error")
		}
	}
	// a token issued by the LAST accepted replay of a challenge has its own lifetime
	if late != nil {
		for _, o := range offsets(T) {
			if d := time.Until(late.at.Add(o)); d >= 0 {
				time.Sleep(d)
				sweep([]probe{*late})
			}
		}
	}
	if sc.r.SampleN() < 3 && T == 90*time.Second {
		sc.r.Sample(map[string]any{"case": sc.caseID, "token_ttl": T.String(), "challenge_ttl": challengeTTL.String(), "observed": observed})
	}
}

// ---------------------------------------------------------------------------------------------
// client family: a malicious server (round tripper) in front of the real client

func clientFamily(r *run.R, t *testing.T, u *universe) {
	type cs struct {
		id          string
		s, h, c, kt int
		flow        string
		stream      uint64
	}
	var cases []cs
	n := uint64(0)
	for s := range u.servers {
		for h := range u.hosts {
			for c := 0; c < 3; c++ {
				for kt := 0; kt < 4; kt++ {
					for _, flow := range []string{flowClient, flowServer} {
						n++
						cases = append(cases, cs{fmt.Sprintf("cli/s%d-%s/h%d/c%d-%s/%s", s, ktNames[u.serverKT[s]], h, c, ktNames[kt], flow), s, h, c, kt, flow, n})
					}
				}
			}
		}
	}
	run.Parallel(len(cases), 0, func(i int) {
		c := cases[i]
		if !r.Want(c.id) || r.TooMany() {
			return
		}
		synctest.Test(t, func(*testing.T) {
			sc := newScen(r, u, c.id, c.s, time.Hour, 4, c.stream)
			defer sc.flush()
			sc.clientCase(u.hosts[c.h], u.clients[c.c][c.kt], u.attacker[(c.kt+c.c+c.h)%4], u.clients[(c.c+1)%3][(c.kt+1)%4], c.flow)
		})
	})
}

// corruptBearer replaces whatever token the client presents by a well-formed one the server never
// issued: the server answers 401 with a fresh challenge (the "token refused" path of the client).
func corruptBearer(ps []kv) []kv {
	if getParam(ps, "bearer") == "" {
		return ps
	}
	return []kv{{"bearer", b64(make([]byte, 96))}}
}

func (sc *scen) clientCase(host string, cl, evilID, otherClient *ident, flow string) {
	H := sc.S
	E := sc.w.newInstance("E", evilID, nil, time.Hour, false, sc.u.hosts...)
	sc.watch(E)
	other := sc.u.hosts[0]
	if other == host {
		other = sc.u.hosts[1]
	}

	// which step carries which header in this flow
	wwwStep, infoStep := 0, 1
	var shared *realClient
	if flow == flowServer {
		// the client already holds a token; the attacker makes the server refuse it so that the
		// server-initiated handshake runs (the client object is reused: a failed attempt keeps the token)
		shared = newRealClient(sc, cl, 0)
		if res := shared.do(&wire{handler: honest(H)}, host, true, "valid", "first-contact"); res.err != nil {
			// no token, no server-initiated flow: run the plans against the client-initiated one instead
			sc.count("valid_rejected:real-client-handshake")
			shared, flow = nil, flowClient
		} else {
			sc.count("cli_valid_accepted")
		}
	}
	client := func() *realClient {
		if shared != nil {
			return shared
		}
		return newRealClient(sc, cl, 0)
	}
	// def is the transparent attacker: it relays to the honest server (refusing the token first)
	def := func(step int, req *http.Request) *http.Response {
		if flow == flowServer && step == 0 {
			resp, _ := forward(H, req, "", corruptBearer)
			return resp
		}
		resp, _ := forward(H, req, "", nil)
		return resp
	}
	book := func(kind string, res cliResult) {
		fam := kind
		if i := strings.IndexByte(fam, '/'); i >= 0 {
			fam = fam[:i]
		}
		switch {
		case res.err != nil:
			sc.bump(&sc.reject)
			sc.count("cli_mutated_rejected")
			sc.count("cli_rejected_family:" + fam)
		case res.v.ok:
			sc.count("cli_mutated_accepted_justified")
			sc.count("cli_mutated_accepted_justified_by:" + res.v.how)
			sc.count("cli_accepted_family:" + fam)
			if res.id == E.id.id {
				sc.count("cli_accepted_attacker_proved_own_identity")
			}
		}
	}
	runPlan := func(kind, desc string, handler func(step int, req *http.Request) *http.Response) {
		if sc.stop() {
			return
		}
		book(kind, client().do(&wire{handler: handler}, host, true, kind, desc))
	}

	// dry run: the unmodified relay must work, and tells us what the headers look like
	dry := client().do(&wire{handler: def}, host, true, "valid", "transparent-relay")
	var www, info []kv
	earlierChallenge := sc.challenge()
	if dry.err != nil || len(dry.log) <= infoStep {
		// keep going: the attacker's own plans below do not need the dry run, and a tree on which the
		// honest exchange fails may still accept a dishonest one
		sc.count("valid_rejected:client-dry-run")
	} else {
		sc.count("cli_valid_accepted")
		sc.bump(&sc.valid)
		if flow == flowServer {
			sc.count("real_client_serverinit_handshakes")
		}
		www = orderedParams(dry.log[wwwStep].hdr.Get("WWW-Authenticate"))
		info = orderedParams(dry.log[infoStep].hdr.Get("Authentication-Info"))
		for _, ex := range dry.log {
			if ch := getParam(orderedParams(strings.Join(ex.authz, ", ")), "challenge-server"); ch != "" {
				earlierChallenge = ch
			}
		}
	}
	if sc.r.SampleN() < 4 && dry.err == nil && flow == flowServer {
		sc.r.Sample(map[string]any{"case": sc.caseID, "honest_round_trips": logDump(dry.log),
			"then": "a malicious round tripper mutates/replays/swaps every parameter of both response headers"})
	}

	editResp := func(step int, header string, op paramOp) func(int, *http.Request) *http.Response {
		return func(s int, req *http.Request) *http.Response {
			resp := def(s, req)
			if s == step {
				ps := op(orderedParams(resp.Header.Get(header)))
				if len(ps) == 0 {
					resp.Header.Del(header)
				} else {
					resp.Header.Set(header, buildHeader(ps))
				}
			}
			return resp
		}
	}

	// 1. single-parameter edits of both response headers. The parameters that carry the server's
	// identity (public-key, sig) are flipped at every position; the others are thinned in the quick tier.
	stride := func(k string) int {
		if k == "sig" || k == "public-key" || !sc.r.Quick() {
			return 1
		}
		return 9
	}
	sc.valueMutations(www, stride, func(kind, desc string, op paramOp) {
		runPlan("www:"+kind, desc, editResp(wwwStep, "WWW-Authenticate", op))
	})
	sc.valueMutations(info, stride, func(kind, desc string, op paramOp) {
		runPlan("info:"+kind, desc, editResp(infoStep, "Authentication-Info", op))
	})

	// 2. replay of an earlier genuine response (stale challenge-server)
	if www != nil {
		runPlan("replay", "whole-www-of-earlier-run", editResp(wwwStep, "WWW-Authenticate", func([]kv) []kv { return www }))
		runPlan("replay", "whole-info-of-earlier-run", editResp(infoStep, "Authentication-Info", func([]kv) []kv { return info }))
		// ... and with the old challenge echoed back, for a client that would trust the echo
		echo := kv{"challenge-server", earlierChallenge}
		runPlan("replay", "whole-www-of-earlier-run+echoed-old-challenge", editResp(wwwStep, "WWW-Authenticate", func([]kv) []kv { return append(append([]kv(nil), www...), echo) }))
		runPlan("replay", "whole-info-of-earlier-run+echoed-old-challenge", editResp(infoStep, "Authentication-Info", func([]kv) []kv { return append(append([]kv(nil), info...), echo) }))
		runPlan("replay", "old-sig+echoed-old-challenge", func(s int, req *http.Request) *http.Response {
			resp := def(s, req)
			for _, h := range []string{"WWW-Authenticate", "Authentication-Info"} {
				if ps := orderedParams(resp.Header.Get(h)); getParam(ps, "sig") != "" {
					old := getParam(www, "sig") + getParam(info, "sig")
					resp.Header.Set(h, buildHeader(append([]kv{echo}, setParam(ps, "sig", old)...)))
				}
			}
			return resp
		})
	}
	for _, k := range []string{"sig", "public-key", "challenge-client", "opaque"} {
		if v := getParam(www, k); v != "" {
			runPlan("replay", "www-"+k+"-of-earlier-run", editResp(wwwStep, "WWW-Authenticate", func(ps []kv) []kv { return setParam(ps, k, v) }))
		}
		if v := getParam(info, k); v != "" {
			runPlan("replay", "info-"+k+"-of-earlier-run", editResp(infoStep, "Authentication-Info", func(ps []kv) []kv { return setParam(ps, k, v) }))
		}
	}

	// 3. the attacker's own server (real code, attacker's key) answers the same requests
	sigStep, sigHeader := wwwStep, "WWW-Authenticate"
	if flow == flowServer {
		sigStep, sigHeader = infoStep, "Authentication-Info"
	}
	// evilAnswer: E's answer to the client's request at the step where the server signs. In the
	// server-initiated flow E cannot verify a proof made for H's challenge, so the attacker makes E sign
	// by replaying the client's challenge-server in a client-initiated request of his own.
	evilSig := func(req *http.Request) (sig string) {
		ps := orderedParams(req.Header.Get("Authorization"))
		r2 := req.Clone(req.Context())
		r2.Header.Set("Authorization", buildHeader([]kv{{"challenge-server", getParam(ps, "challenge-server")}, {"public-key", b64(cl.pubBytes)}}))
		resp, _ := E.roundTrip(r2)
		return getParam(orderedParams(resp.Header.Get("WWW-Authenticate")), "sig")
	}
	evilKey := b64(E.id.pubBytes)
	keyStep := wwwStep // the server's public key always travels in WWW-Authenticate
	for _, v := range []struct {
		name     string
		key, sig bool
	}{{"key=evil,sig=honest", true, false}, {"key=honest,sig=evil", false, true}, {"key=evil,sig=evil", true, true}} {
		runPlan("evil-server", v.name, func(s int, req *http.Request) *http.Response {
			resp := def(s, req)
			if v.key && s == keyStep {
				resp.Header.Set("WWW-Authenticate", buildHeader(setParam(orderedParams(resp.Header.Get("WWW-Authenticate")), "public-key", evilKey)))
			}
			if v.sig && s == sigStep {
				resp.Header.Set(sigHeader, buildHeader(setParam(orderedParams(resp.Header.Get(sigHeader)), "sig", evilSig(req))))
			}
			return resp
		})
	}
	runPlan("evil-server", "key-offered-again-with-sig", func(s int, req *http.Request) *http.Response {
		resp := def(s, req)
		if s == sigStep {
			ps := setParam(orderedParams(resp.Header.Get(sigHeader)), "sig", evilSig(req))
			resp.Header.Set(sigHeader, buildHeader(append(ps, kv{"public-key", evilKey})))
		}
		return resp
	})
	runPlan("evil-server", "takeover-all-steps", func(s int, req *http.Request) *http.Response {
		edit := paramOp(nil)
		if flow == flowServer && s == 0 {
			edit = corruptBearer
		}
		resp, _ := forward(E, req, "", edit)
		return resp
	})

	// 3a'. the attacker's server proves ITS OWN key honestly and names the victim's key in a LATER header
	// (after the step whose signature the client verified): the client must keep reporting the key that signed
	victimKey := b64(H.id.pubBytes)
	for _, how := range []string{"appended", "prepended", "replacing", "appended-to-every-header"} {
		runPlan("evil-server", "takeover-then-victim-key-in-later-header/"+how, func(s int, req *http.Request) *http.Response {
			edit := paramOp(nil)
			if flow == flowServer && s == 0 {
				edit = corruptBearer
			}
			resp, _ := forward(E, req, "", edit)
			if s <= sigStep && how != "appended-to-every-header" {
				return resp
			}
			for _, h := range []string{"Authentication-Info", "WWW-Authenticate"} {
				v := resp.Header.Get(h)
				if v == "" {
					continue
				}
				ps := orderedParams(v)
				switch how {
				case "prepended":
					ps = append([]kv{{"public-key", victimKey}}, ps...)
				case "replacing":
					ps = append(setParam(ps, "public-key", victimKey), kv{"public-key", victimKey})
				default:
					if s <= sigStep { // every-header variant: the victim's key FOLLOWS the attacker's own
						ps = append(ps, kv{"public-key", victimKey})
					} else {
						ps = append(ps, kv{"public-key", victimKey})
					}
				}
				resp.Header.Set(h, buildHeader(ps))
			}
			return resp
		})
	}

	// 3b. the attacker's server proves its own key over deliberately wrong pre-images
	{
		type variant struct {
			name string
			data func(ch string) []byte
		}
		cpk := string(cl.pubBytes)
		full := func(ch string) []kv {
			return []kv{{"challenge-server", ch}, {"client-public-key", cpk}, {"hostname", host}}
		}
		sub := func(ch string, i int, v string) []kv { o := full(ch); o[i].v = v; return o }
		var vs []variant
		for mask := 0; mask < 7; mask++ {
			var nm []string
			for i, k := range []string{"challenge-server", "client-public-key", "hostname"} {
				if mask&(1<<i) != 0 {
					nm = append(nm, k)
				}
			}
			vs = append(vs, variant{"only[" + strings.Join(nm, ",") + "]", func(ch string) []byte {
				var ps []kv
				for i, p := range full(ch) {
					if mask&(1<<i) != 0 {
						ps = append(ps, p)
					}
				}
				return signedData(ps...)
			}})
		}
		vs = append(vs,
			variant{"challenge=decoded-bytes", func(ch string) []byte { return signedData(sub(ch, 0, string(mustB64(ch)))...) }},
			variant{"challenge=other", func(ch string) []byte { return signedData(sub(ch, 0, sc.challenge())...) }},
			variant{"challenge=earlier-run", func(ch string) []byte {
				return signedData(sub(ch, 0, earlierChallenge)...)
			}},
			variant{"client-key=other-client", func(ch string) []byte { return signedData(sub(ch, 1, string(otherClient.pubBytes))...) }},
			variant{"client-key=server-key", func(ch string) []byte { return signedData(sub(ch, 1, string(E.id.pubBytes))...) }},
			variant{"client-key=base64-text", func(ch string) []byte { return signedData(sub(ch, 1, b64(cl.pubBytes))...) }},
			variant{"hostname=other-valid", func(ch string) []byte { return signedData(sub(ch, 2, other)...) }},
			variant{"hostname=uppercase", func(ch string) []byte { return signedData(sub(ch, 2, strings.ToUpper(host))...) }},
			variant{"hostname=empty", func(ch string) []byte { return signedData(sub(ch, 2, "")...) }},
			variant{"no-prefix", func(ch string) []byte { return signedDataOpt("", true, true, full(ch)...) }},
			variant{"unsorted", func(ch string) []byte { f := full(ch); return signedDataOpt(scheme, false, true, f[2], f[1], f[0]) }},
			variant{"no-length-prefixes", func(ch string) []byte { return signedDataOpt(scheme, true, false, full(ch)...) }},
			variant{"client-role-keys", func(ch string) []byte {
				return signedData(kv{"challenge-client", ch}, kv{"server-public-key", cpk}, kv{"hostname", host})
			}},
		)
		for i, k := range []string{"challenge-server", "client-public-key", "hostname"} {
			vs = append(vs,
				variant{k + "=empty-value", func(ch string) []byte { return signedData(sub(ch, i, "")...) }},
				variant{k + "=first-half", func(ch string) []byte { v := full(ch)[i].v; return signedData(sub(ch, i, v[:len(v)/2])...) }},
				variant{k + "=second-half", func(ch string) []byte { v := full(ch)[i].v; return signedData(sub(ch, i, v[len(v)/2:])...) }},
				variant{k + "=plus-one-byte", func(ch string) []byte { return signedData(sub(ch, i, full(ch)[i].v+"\x00")...) }})
		}
		for _, v := range vs {
			runPlan("evil-server:wrong-preimage", v.name, func(s int, req *http.Request) *http.Response {
				resp := def(s, req)
				if s == keyStep {
					resp.Header.Set("WWW-Authenticate", buildHeader(setParam(orderedParams(resp.Header.Get("WWW-Authenticate")), "public-key", evilKey)))
				}
				if s == sigStep {
					ch := getParam(orderedParams(req.Header.Get("Authorization")), "challenge-server")
					resp.Header.Set(sigHeader, buildHeader(setParam(orderedParams(resp.Header.Get(sigHeader)), "sig", sign(E.id, v.data(ch)))))
				}
				return resp
			})
		}
	}

	// 4. relays that make the HONEST server sign something else than what this client must see
	runPlan("relay", "honest-server-under-other-hostname", func(s int, req *http.Request) *http.Response {
		edit := paramOp(nil)
		if flow == flowServer && s == 0 {
			edit = corruptBearer
		}
		resp, _ := forward(H, req, other, edit)
		return resp
	})
	runPlan("relay", "honest-server-signs-for-other-client-key", func(s int, req *http.Request) *http.Response {
		if s != sigStep {
			return def(s, req)
		}
		// the attacker asks H to sign the victim's challenge for ANOTHER client key
		ps := orderedParams(req.Header.Get("Authorization"))
		r2 := req.Clone(req.Context())
		r2.Header.Set("Authorization", buildHeader([]kv{{"challenge-server", getParam(ps, "challenge-server")}, {"public-key", b64(otherClient.pubBytes)}}))
		foreign, _ := H.roundTrip(r2)
		resp := def(s, req)
		fs := getParam(orderedParams(foreign.Header.Get("WWW-Authenticate")), "sig")
		resp.Header.Set(sigHeader, buildHeader(setParam(orderedParams(resp.Header.Get(sigHeader)), "sig", fs)))
		return resp
	})
	runPlan("relay", "honest-server-signs-other-challenge", func(s int, req *http.Request) *http.Response {
		if s != sigStep {
			return def(s, req)
		}
		r2 := req.Clone(req.Context())
		r2.Header.Set("Authorization", buildHeader([]kv{{"challenge-server", sc.challenge()}, {"public-key", b64(cl.pubBytes)}}))
		foreign, _ := H.roundTrip(r2)
		resp := def(s, req)
		fs := getParam(orderedParams(foreign.Header.Get("WWW-Authenticate")), "sig")
		resp.Header.Set(sigHeader, buildHeader(setParam(orderedParams(resp.Header.Get(sigHeader)), "sig", fs)))
		return resp
	})
	runPlan("relay", "client-proof-as-server-signature", func(s int, req *http.Request) *http.Response {
		// reflect the client's own signature (if any in this request) back as the server's
		resp := def(s, req)
		if s == sigStep {
			if cs := getParam(orderedParams(req.Header.Get("Authorization")), "sig"); cs != "" {
				resp.Header.Set(sigHeader, buildHeader(setParam(orderedParams(resp.Header.Get(sigHeader)), "sig", cs)))
			}
		}
		return resp
	})
	runPlan("relay", "server-key=client-key", editResp(keyStep, "WWW-Authenticate", func(ps []kv) []kv { return setParam(ps, "public-key", b64(cl.pubBytes)) }))

	// 5. header placement and status games
	for _, st := range []int{200, 401, 403, 500, 302} {
		for step := 0; step <= infoStep; step++ {
			runPlan("status", fmt.Sprintf("step%d->%d", step, st), func(s int, req *http.Request) *http.Response {
				resp := def(s, req)
				if s == step {
					resp.StatusCode = st
				}
				return resp
			})
		}
	}
	runPlan("placement", "www-under-authentication-info", func(s int, req *http.Request) *http.Response {
		resp := def(s, req)
		if s == wwwStep {
			resp.Header.Set("Authentication-Info", resp.Header.Get("WWW-Authenticate"))
			resp.Header.Del("WWW-Authenticate")
		}
		return resp
	})
	runPlan("placement", "info-under-www-authenticate", func(s int, req *http.Request) *http.Response {
		resp := def(s, req)
		if s == infoStep {
			resp.Header.Set("WWW-Authenticate", resp.Header.Get("Authentication-Info"))
			resp.Header.Del("Authentication-Info")
		}
		return resp
	})
	runPlan("placement", "both-headers-both-steps", func(s int, req *http.Request) *http.Response {
		resp := def(s, req)
		if h := resp.Header.Get("WWW-Authenticate"); h != "" {
			resp.Header.Set("Authentication-Info", h)
		} else if h := resp.Header.Get("Authentication-Info"); h != "" {
			resp.Header.Set("WWW-Authenticate", h)
		}
		return resp
	})
	runPlan("placement", "no-auth-headers-at-all", func(s int, req *http.Request) *http.Response {
		resp := def(s, req)
		resp.Header.Del("WWW-Authenticate")
		resp.Header.Del("Authentication-Info")
		return resp
	})
	runPlan("placement", "empty-200", func(s int, req *http.Request) *http.Response {
		return &http.Response{StatusCode: 200, Header: http.Header{}, Body: io.NopCloser(strings.NewReader("")), Request: req}
	})
	if flow == flowClient {
		// the server declines the client-initiated handshake and challenges instead (documented fallback)
		runPlan("fallback", "server-declines-client-initiated", func(s int, req *http.Request) *http.Response {
			if s == 0 {
				resp, _ := forward(H, req, "", func([]kv) []kv { return nil })
				return resp
			}
			return def(s, req)
		})
		runPlan("fallback", "evil-server-declines-and-challenges", func(s int, req *http.Request) *http.Response {
			if s == 0 {
				resp, _ := forward(E, req, "", func([]kv) []kv { return nil })
				return resp
			}
			resp, _ := forward(E, req, "", nil)
			return resp
		})
		runPlan("fallback", "declined-then-sig-stripped", func(s int, req *http.Request) *http.Response {
			if s == 0 {
				resp, _ := forward(H, req, "", func([]kv) []kv { return nil })
				return resp
			}
			resp := def(s, req)
			resp.Header.Set("Authentication-Info", buildHeader(dropParam(orderedParams(resp.Header.Get("Authentication-Info")), "sig")))
			return resp
		})
	}
	// 6. token cache: a client that holds a token is answered 200 by whoever sits on the path; it
	// re-reports the id its own earlier handshake established
	tc := newRealClient(sc, cl, 0)
	if res := tc.do(&wire{handler: honest(H)}, host, true, "valid", "first-contact"); res.err == nil {
		sc.count("cli_valid_accepted")
		book("token-cache", tc.do(&wire{handler: func(s int, req *http.Request) *http.Response {
			return &http.Response{StatusCode: 200, Header: http.Header{}, Body: io.NopCloser(strings.NewReader("")), Request: req}
		}}, host, true, "token-cache", "stranger-answers-200"))
		// the token belongs to `host`: under another hostname the client must handshake afresh, whoever answers
		book("token-cache", tc.do(&wire{handler: func(s int, req *http.Request) *http.Response {
			return &http.Response{StatusCode: 200, Header: http.Header{}, Body: io.NopCloser(strings.NewReader("")), Request: req}
		}}, other, true, "token-cache", "other-hostname/stranger-answers-200"))
		book("token-cache", tc.do(&wire{handler: honest(H)}, other, true, "token-cache", "other-hostname/honest-server"))
		book("token-cache", tc.do(&wire{handler: honest(E)}, host, true, "token-cache", "evil-server-refuses-token-and-handshakes"))
		book("token-cache", tc.do(&wire{handler: honest(E)}, other, true, "token-cache", "other-hostname/evil-server"))
	}
	// 7. partial failure: the client holds a token of H; then E sits on the path, refuses the token and
	// proves ITS identity - and one round trip of that call breaks. Whatever the call left in the client's
	// token cache, the next call must not report H on the strength of anything E issued.
	for failAt := 1; failAt <= 3; failAt++ {
		pf := newRealClient(sc, cl, 0)
		if res := pf.do(&wire{handler: honest(H)}, host, true, "valid", "first-contact"); res.err != nil {
			break
		}
		res := pf.do(&wire{handler: func(s int, req *http.Request) *http.Response {
			if s == failAt {
				return nil
			}
			resp, _ := forward(E, req, "", nil)
			return resp
		}}, host, true, "broken-round-trip", fmt.Sprintf("evil-server-handshakes/round-trip-%d-fails", failAt))
		if res.err != nil {
			sc.count("cli_calls_failed_by_a_broken_round_trip")
		}
		book("broken-round-trip", res)
		book("broken-round-trip", pf.do(&wire{handler: honest(E)}, host, true, "broken-round-trip", fmt.Sprintf("call-after-round-trip-%d-failed/evil-server", failAt)))
		book("broken-round-trip", pf.do(&wire{handler: honest(H)}, host, true, "broken-round-trip", fmt.Sprintf("call-after-round-trip-%d-failed/honest-server", failAt)))
	}
	// 8. requests built by hand, without Request.Host: whatever name the client then signs for, an id proven
	// for one URL host must not be reported for another
	hl := newRealClient(sc, cl, 0)
	hl.hostless = true
	if res := hl.do(&wire{handler: honest(H)}, host, true, "hostless", "first-contact"); res.err == nil {
		sc.count("cli_hostless_first_contact_accepted")
	} else {
		sc.count("cli_hostless_first_contact_refused")
	}
	book("hostless", hl.do(&wire{handler: func(s int, req *http.Request) *http.Response {
		return &http.Response{StatusCode: 200, Header: http.Header{}, Body: io.NopCloser(strings.NewReader("")), Request: req}
	}}, other, true, "hostless", "other-url-host/stranger-answers-200"))
	book("hostless", hl.do(&wire{handler: honest(E)}, other, true, "hostless", "other-url-host/evil-server"))
	book("hostless", hl.do(&wire{handler: honest(H)}, host, true, "hostless", "same-url-host/honest-server"))
}

// ---------------------------------------------------------------------------------------------
// concurrent family: many handshakes at once on ONE instance (pooled HMAC state, sync.Once init)

func concFamily(r *run.R, t *testing.T, u *universe, race bool) {
	rounds := r.Pick(12, 60)
	iters := r.Pick(40, 80)
	if race {
		rounds, iters = r.Pick(12, 24), r.Pick(40, 60)
	}
	run.Parallel(rounds, 4, func(i int) {
		id := fmt.Sprintf("conc/%d", i)
		if !r.Want(id) || r.TooMany() {
			return
		}
		synctest.Test(t, func(*testing.T) {
			sc := newScen(r, u, id, i%len(u.servers), time.Hour, 5, uint64(i))
			defer sc.flush()
			sc.concCase(i, iters)
		})
	})
}

func (sc *scen) concCase(round, iters int) {
	S := sc.S
	const workers = 16
	const honestWorkers = 12
	// genuine blobs published by the honest workers the moment they exist: raw material for the forgers,
	// who are paced by these channels so that forged and genuine requests for the same MAC overlap
	genuineOpaques := make(chan []byte, honestWorkers*iters*4)
	genuineTokens := make(chan []byte, honestWorkers*iters*4)
	publish := func(dst chan []byte, b64v string) {
		if b, ok := looseB64(b64v); ok && len(b) > 32 {
			dst <- b
		}
	}
	var accepts, forgedRejected atomic.Int64
	var wg, honestWG sync.WaitGroup
	honestWG.Add(honestWorkers)
	go func() {
		honestWG.Wait()
		close(genuineOpaques)
		close(genuineTokens)
	}()
	for w := 0; w < workers; w++ {
		wg.Add(1)
		rng := sc.r.Rand(6, uint64(round), uint64(w))
		host := sc.u.hosts[w%2]
		cl := sc.u.clients[w%3][(w/3)%4]
		if w >= 12 {
			cl = sc.u.clients[w%3][ktEd25519] // keep the forgers fast
		}
		go func() {
			defer wg.Done()
			if w < honestWorkers {
				defer honestWG.Done()
			} else {
				sc.forger(S, host, w, rng, genuineOpaques, genuineTokens, &forgedRejected)
				return
			}
			for it := 0; it < iters && !sc.stop(); it++ {
				switch {
				case w < 6: // real client: handshake + token reuse
					rc := newRealClient(sc, cl, 0)
					for k := 0; k < 2; k++ {
						var last *call
						res := rc.do(&wire{handler: func(_ int, req *http.Request) *http.Response {
							resp, c := forward(S, req, "", nil)
							last = c
							if tok := getParam(orderedParams(c.respHdr.Get("Authentication-Info")), "bearer"); tok != "" {
								publish(genuineTokens, tok)
							}
							return resp
						}}, host, true, "valid", "concurrent")
						if res.err != nil || last == nil || !last.accepted || last.peer != cl.id {
							sc.count("valid_rejected:concurrent-real-client")
						} else {
							sc.count("conc_valid_accepted")
							accepts.Add(1)
						}
					}
				case w < 12: // hand-made handshakes, both flows, then the token
					flow := flowServer
					if (w+it)%2 == 0 {
						flow = flowClient
					}
					s := sc.concSession(S, host, cl, flow, b64(rngBytes(rng, 32)))
					if s == nil {
						sc.count("valid_rejected:concurrent-raw")
						continue
					}
					publish(genuineOpaques, getParam(s.proof, "opaque"))
					publish(genuineTokens, s.bearer)
					accepts.Add(1)
					c := S.serve(host, buildHeader([]kv{{"bearer", s.bearer}}))
					sc.eval()
					if sc.expectValid("concurrent-token", S, c, cl) {
						accepts.Add(1)
					}
				}
			}
		}()
	}
	wg.Wait()
	sc.mu.Lock()
	sc.st["conc_accepts_justified"] += int(accepts.Load())
	sc.st["conc_forged_rejected"] += int(forgedRejected.Load())
	sc.mu.Unlock()
	if accepts.Load() > 0 {
		sc.bump(&sc.valid)
	}
	if sc.r.SampleN() < 5 {
		sc.r.Sample(map[string]any{"case": sc.caseID, "goroutines": workers, "iterations_per_honest_worker": iters,
			"honest":                 "6 real ClientPeerIDAuth (handshake + token reuse), 6 hand-made handshakes (both flows) + token",
			"forgers":                "4, each takes every genuine blob the moment it is issued and sends its MAC glued to forged fields, next to a replay of the genuine blob",
			"accepted_and_justified": accepts.Load(), "forged_rejected": forgedRejected.Load()})
	}
}

// forger: the MAC of a genuine blob that is in flight right now, glued to other fields; the genuine blob
// is replayed next to it so that the very same MAC is being computed by another request at the same time.
func (sc *scen) forger(S *instance, host string, w int, rng interface{ Uint32() uint32 }, opaques, tokens chan []byte, rejected *atomic.Int64) {
	att := sc.u.attacker[ktEd25519]
	rb := func() string {
		b := make([]byte, 32)
		for i := range b {
			b[i] = byte(rng.Uint32())
		}
		return b64(b)
	}
	for it := 0; opaques != nil || tokens != nil; it++ {
		var g []byte
		var ok, isTok bool
		select {
		case g, ok = <-tokens:
			isTok = true
			if !ok {
				tokens = nil
				continue
			}
		case g, ok = <-opaques:
			if !ok {
				opaques = nil
				continue
			}
		}
		if sc.stop() {
			continue // drain
		}
		victim := sc.u.clients[(w+1)%3][it%4]
		if isTok {
			js := fmt.Sprintf(`{"is-token":true,"peer-id":"%s","hostname":"%s","created-time":"2000-01-01T00:00:00Z"}`, victim.id, host)
			for k := 0; k < 3; k++ {
				if c := sc.fire(S, attack{kind: "concurrent-forgery/token-mac-glued", desc: "victim token under a genuine MAC", host: host,
					authz: hdr([]kv{{"bearer", b64(append(append([]byte(nil), g[:32]...), js...))}})}); !c.accepted {
					rejected.Add(1)
				}
				sc.fire(S, attack{kind: "concurrent-forgery/genuine-token-of-other-client", desc: "replayed by the forger", host: host,
					authz: hdr([]kv{{"bearer", b64(g)}})})
			}
		} else {
			ch := rb()
			js := fmt.Sprintf(`{"challenge-client":"%s","hostname":"%s","created-time":"2000-01-01T00:00:00Z"}`, ch, host)
			sig := sign(att, clientProofData(ch, S.id.pubBytes, host))
			if c := sc.fire(S, attack{kind: "concurrent-forgery/opaque-mac-glued", desc: "own challenge under a genuine MAC", host: host,
				authz: hdr([]kv{{"public-key", b64(att.pubBytes)}, {"challenge-server", ch}, {"sig", sig}, {"opaque", b64(append(append([]byte(nil), g[:32]...), js...))}})}); !c.accepted {
				rejected.Add(1)
			}
		}
	}
}

// concSession is rawSession without the shared PRNG (each worker brings its own challenge).
func (sc *scen) concSession(in *instance, host string, cl *ident, flow, chS string) *session {
	s := &session{in: in, host: host, cl: cl, flow: flow, chS: chS}
	var first *call
	if flow == flowServer {
		first = in.serve(host)
	} else {
		first = in.serve(host, buildHeader([]kv{{"challenge-server", chS}, {"public-key", b64(cl.pubBytes)}}))
	}
	sc.eval()
	s.www = orderedParams(first.respHdr.Get("WWW-Authenticate"))
	chC, opq := getParam(s.www, "challenge-client"), getParam(s.www, "opaque")
	if chC == "" || opq == "" {
		return nil
	}
	sig := sign(cl, clientProofData(chC, in.id.pubBytes, host))
	if flow == flowServer {
		s.proof = []kv{{"public-key", b64(cl.pubBytes)}, {"challenge-server", chS}, {"sig", sig}, {"opaque", opq}}
	} else {
		s.proof = []kv{{"opaque", opq}, {"sig", sig}}
	}
	c := in.serve(host, buildHeader(s.proof))
	sc.eval()
	s.bearer = getParam(orderedParams(c.respHdr.Get("Authentication-Info")), "bearer")
	if !sc.expectValid("concurrent-"+flow, in, c, cl) {
		return nil
	}
	return s
}

var _ = run.Parallel
