package c03

import (
	"fmt"
	"sort"
	"strings"

	"github.com/libp2p/go-libp2p/core/network"
	"github.com/libp2p/go-libp2p/core/peer"
	rcmgr "github.com/libp2p/go-libp2p/p2p/host/resource-manager"
)

// observation of the real manager, keyed by the model's scope names.
type observation struct {
	use  map[string]*usage
	lim  map[string]rcmgr.VerifLimit
	done map[string]bool
	ref  map[string]int
	dump *rcmgr.VerifState
}

func peerKey(p peer.ID) string {
	if i := peerIndex(p); i >= 0 {
		return fmt.Sprint(i)
	}
	return "?" + p.String()
}

func observe(mgr network.ResourceManager) *observation {
	d, ok := rcmgr.VerifDump(mgr)
	if !ok {
		panic("not the rcmgr resource manager")
	}
	o := &observation{use: map[string]*usage{}, lim: map[string]rcmgr.VerifLimit{}, done: map[string]bool{}, ref: map[string]int{}, dump: d}
	put := func(k string, s rcmgr.VerifScope) {
		o.use[k] = usageOfStat(s.Stat)
		o.lim[k] = s.Limit
		o.done[k] = s.Done
		o.ref[k] = s.RefCnt
	}
	put("system", d.System)
	put("transient", d.Transient)
	put("alsystem", d.AllowlistedSystem)
	put("altransient", d.AllowlistedTransient)
	for p, s := range d.Peers {
		put("peer/"+peerKey(p), s)
	}
	for x, s := range d.Protocols {
		k := "?" + string(x)
		if i := protoIndex(x); i >= 0 {
			k = fmt.Sprint(i)
		}
		put("proto/"+k, s)
		for p, ps := range d.ProtocolPeers[x] {
			put("proto/"+k+"/peer/"+peerKey(p), ps)
		}
	}
	for x, s := range d.Services {
		k := "?" + x
		if i := svcIndex(x); i >= 0 {
			k = fmt.Sprint(i)
		}
		put("svc/"+k, s)
		for p, ps := range d.ServicePeers[x] {
			put("svc/"+k+"/peer/"+peerKey(p), ps)
		}
	}
	return o
}

type mismatch struct {
	Scope    string `json:"scope"`
	Expected string `json:"expected"`
	Observed string `json:"observed"`
	fields   string
}

func diffFields(a, b *usage) string {
	var f []string
	if a.CI != b.CI || a.CO != b.CO {
		f = append(f, "conns")
	}
	if a.FD != b.FD {
		f = append(f, "fd")
	}
	if a.SI != b.SI || a.SO != b.SO {
		f = append(f, "streams")
	}
	if a.Mem.Cmp(b.Mem) != 0 {
		f = append(f, "mem")
	}
	return strings.Join(f, "+")
}

// diff compares the usage of EVERY scope (those the manager knows, those the model expects, and
// the connection/stream/span scopes behind the live handles) with the sum over the holders.
func (c *seqCase) diff(o *observation) []mismatch {
	exp := c.m.expected()
	// scopes behind the handles
	for _, h := range c.m.holders {
		if h.Kind == kDirect {
			continue
		}
		x := c.real[h.ID]
		if x == nil {
			continue
		}
		switch {
		case h.Done:
			// a closed scope holds nothing
			o.use[h.selfScope()] = usageOfStat(x.scope().Stat())
		case h.dead():
			// open span of a closed owner: nothing is specified about its own stat
		default:
			o.use[h.selfScope()] = usageOfStat(x.scope().Stat())
		}
	}
	keys := map[string]bool{}
	for k := range exp {
		if strings.HasPrefix(k, "conn/") || strings.HasPrefix(k, "stream/") || strings.HasPrefix(k, "span/") {
			if _, ok := o.use[k]; !ok {
				continue
			}
		}
		keys[k] = true
	}
	for k := range o.use {
		keys[k] = true
	}
	var out []mismatch
	zero := newUsage()
	for _, k := range sortedKeys(keys) {
		e, g := exp[k], o.use[k]
		if e == nil {
			e = zero
		}
		if g == nil {
			g = zero // a scope the manager does not have holds nothing
		}
		if !e.equal(g) {
			out = append(out, mismatch{Scope: k, Expected: e.String(), Observed: g.String(), fields: diffFields(e, g)})
		}
	}
	return out
}

func (c *seqCase) stateMatches() bool { return len(c.diff(observe(c.mgr))) == 0 }

// matchesUncharged: does the real state equal "connection h is open but charged in no scope"?
func (c *seqCase) matchesUncharged(h *holder) bool {
	if c.stateMatches() {
		return false
	}
	h.Uncharged = true
	defer func() { h.Uncharged = false }()
	return c.stateMatches()
}

func limitOfTable(l rcmgr.BaseLimit) rcmgr.VerifLimit {
	return rcmgr.VerifLimit{Memory: l.Memory, StreamsIn: l.StreamsInbound, StreamsOut: l.StreamsOutbound, Streams: l.Streams,
		ConnsIn: l.ConnsInbound, ConnsOut: l.ConnsOutbound, Conns: l.Conns, FD: l.FD}
}

// boundsViolation: "never less than zero and never more than the scope's configured limit".
func boundsViolation(u *usage, l rcmgr.VerifLimit) string {
	if u.CI < 0 || u.CO < 0 || u.SI < 0 || u.SO < 0 || u.FD < 0 || u.Mem.Sign() < 0 {
		return "negative"
	}
	if u.CI > int64(l.ConnsIn) || u.CO > int64(l.ConnsOut) || u.CI+u.CO > int64(l.Conns) || u.FD > int64(l.FD) ||
		u.SI > int64(l.StreamsIn) || u.SO > int64(l.StreamsOut) || u.SI+u.SO > int64(l.Streams) || !u.Mem.IsInt64() || u.Mem.Int64() > l.Memory {
		return "above-limit"
	}
	return ""
}

// checkState is run after every operation.
func (c *seqCase) checkState(opKind string, refused bool) {
	if c.stop {
		return
	}
	o := observe(c.mgr)
	if d := c.diff(o); len(d) > 0 {
		clause := "usage-not-sum-of-holders"
		msg := "after an accepted " + opKind + " a scope's usage differs from the sum over the holders charged to it"
		if refused {
			clause = "usage-changed-by-refused-call"
			msg = "a refused " + opKind + " changed a scope's usage"
		}
		if opKind == "final" {
			clause = "residue-after-last-release"
			msg = "usage left after the last holder was released"
		}
		c.violate(fmt.Sprintf("%s:%s:%s:%s", opKind, clause, scopeKind(d[0].Scope), d[0].fields),
			fmt.Sprintf("%s: scope %s expected %s observed %s", msg, d[0].Scope, d[0].Expected, d[0].Observed), map[string]any{"mismatches": d})
		return
	}
	for _, k := range sortedKeys(o.use) {
		var l rcmgr.VerifLimit
		if dl, ok := o.lim[k]; ok {
			// the limit the manager applies must be the configured one
			if want := limitOfTable(c.m.limitOf(k)); dl != want && !strings.Contains(k, "?") {
				c.violate("config:scope-limit-differs-from-table:"+scopeKind(k), fmt.Sprintf("scope %s runs with limit %+v, configured %+v", k, dl, want), nil)
				return
			}
			l = dl
		} else {
			l = limitOfTable(c.m.limitOf(k))
		}
		if b := boundsViolation(o.use[k], l); b != "" {
			c.violate(fmt.Sprintf("%s:%s:%s", opKind, b, scopeKind(k)), fmt.Sprintf("scope %s usage %s, limit %+v", k, o.use[k], l), nil)
			return
		}
	}
	// a peer/protocol scope somebody is attached to must exist and be open
	for _, s := range collectable() {
		if !c.m.referenced(s) {
			continue
		}
		if _, ok := o.lim[s]; !ok || o.done[s] {
			c.violate(opKind+":referenced-scope-missing-or-closed:"+scopeKind(s), fmt.Sprintf("scope %s has live holders attached but is absent from the manager or closed", s), nil)
			return
		}
	}
	c.checkConnLimiter(opKind, o)
	if c.stop {
		return
	}
	// the public read-only API must tell the same
	if st, ok := c.mgr.(rcmgr.ResourceManagerState); ok {
		pub := st.Stat()
		cmp := func(name string, got network.ScopeStat, want network.ScopeStat) bool {
			if got != want {
				c.violate("View:public-stat-differs-from-scope:"+scopeKind(name), fmt.Sprintf("ResourceManagerState.Stat() %s = %+v, scope holds %+v", name, got, want), nil)
				return false
			}
			return true
		}
		if !cmp("system", pub.System, o.dump.System.Stat) || !cmp("transient", pub.Transient, o.dump.Transient.Stat) {
			return
		}
		for p, s := range pub.Peers {
			if !cmp("peer", s, o.dump.Peers[p].Stat) {
				return
			}
		}
		for p, s := range pub.Protocols {
			if !cmp("proto", s, o.dump.Protocols[p].Stat) {
				return
			}
		}
		for p, s := range pub.Services {
			if !cmp("svc", s, o.dump.Services[p].Stat) {
				return
			}
		}
		if len(pub.Peers) != len(o.dump.Peers) || len(pub.Protocols) != len(o.dump.Protocols) || len(pub.Services) != len(o.dump.Services) {
			c.violate("View:public-stat-scope-set-differs", "ResourceManagerState.Stat() lists a different set of scopes", nil)
			return
		}
	}
	c.count("state_comparisons")
	c.cnt["scopes_compared"] += len(o.use)
}

// checkConnLimiter: "the number of simultaneously open connections from one IP subnet never
// exceeds the configured per-subnet cap", and the limiter's counters equal the open connections.
func (c *seqCase) checkConnLimiter(opKind string, o *observation) {
	want := c.m.connCounts()
	got := map[string]int{}
	caps := map[string]int{}
	for _, l := range [][]rcmgr.VerifPrefixCount{o.dump.NetworkPrefixV4, o.dump.NetworkPrefixV6} {
		for _, e := range l {
			got["np:"+e.Prefix.String()] += e.Count
			caps["np:"+e.Prefix.String()] = e.Cap
		}
	}
	for _, l := range [][]rcmgr.VerifPrefixCount{o.dump.SubnetV4, o.dump.SubnetV6} {
		for _, e := range l {
			k := fmt.Sprintf("sn:%d:%s", e.Prefix.Bits(), e.Prefix)
			got[k] += e.Count
			caps[k] = e.Cap
		}
	}
	keys := map[string]bool{}
	for k := range want {
		keys[k] = true
	}
	for k := range got {
		keys[k] = true
	}
	for _, k := range sortedKeys(keys) {
		if want[k] != got[k] {
			c.violate(opKind+":subnet-counter-differs-from-open-conns", fmt.Sprintf("%s: %d connections open from that subnet, the limiter counts %d", k, want[k], got[k]),
				map[string]any{"expected": want, "observed": got})
			return
		}
		if cp, ok := caps[k]; ok && (got[k] > cp || got[k] < 0) {
			c.violate(opKind+":subnet-cap-exceeded", fmt.Sprintf("%s: %d connections counted, cap %d", k, got[k], cp), nil)
			return
		}
	}
	// black-box form of the same clause: open connections per cap never above the cap
	for _, h := range c.m.holders {
		if h.Kind == kConn && !h.Done {
			for _, ck := range c.m.capKeys(endpoints[h.EP].IP) {
				if want[ck.key] > ck.cap {
					c.violate(opKind+":subnet-cap-exceeded", fmt.Sprintf("%s: %d connections open, cap %d", ck.key, want[ck.key], ck.cap), nil)
					return
				}
			}
		}
	}
}

// checkCaps: the caps the limiter runs with are the configured ones (start of a case).
func (c *seqCase) checkCaps() {
	d, _ := rcmgr.VerifDump(c.mgr)
	cmp := func(name string, got []rcmgr.VerifPrefixCount, want []prefixCap) {
		a := []string{}
		for _, e := range got {
			a = append(a, fmt.Sprintf("%s=%d", e.Prefix, e.Cap))
		}
		b := []string{}
		for _, e := range want {
			b = append(b, fmt.Sprintf("%s=%d", e.Prefix, e.Cap))
		}
		// order among equally specific prefixes is irrelevant (they cannot overlap)
		sort.Strings(a)
		sort.Strings(b)
		if strings.Join(a, ",") != strings.Join(b, ",") {
			c.violate("config:subnet-caps-differ:"+name, fmt.Sprintf("%s network prefix caps in use %v, configured %v", name, a, b), nil)
		}
	}
	cmp("v4", d.NetworkPrefixV4, c.cfg.effNP4)
	if !c.stop {
		cmp("v6", d.NetworkPrefixV6, c.cfg.effNP6)
	}
}

// checkCollected: after a collector tick the unused peer and protocol scopes (and the per-peer
// scopes of collected peers) are gone from the manager.
func (c *seqCase) checkCollected(gone []string) bool {
	o := observe(c.mgr)
	for _, s := range gone {
		if _, ok := o.lim[s]; ok {
			c.violate("GC:unused-scope-not-collected:"+scopeKind(s), fmt.Sprintf("scope %s has no holder attached but survived the collector tick (refcount %d)", s, o.ref[s]), nil)
			return false
		}
		if scopeKind(s) == "peer" {
			for k := range o.lim {
				if (strings.HasPrefix(k, "svc/") || strings.HasPrefix(k, "proto/")) && strings.HasSuffix(k, "/"+s) {
					c.violate("GC:per-peer-scope-of-collected-peer-survives:"+scopeKind(k), fmt.Sprintf("%s was collected but %s still exists", s, k), nil)
					return false
				}
			}
		}
	}
	return true
}

// viewRead reads every top-level scope through the public View* functions and compares with the
// expectation (black-box form of the usage clause).
func (c *seqCase) viewRead() bool {
	exp := c.m.expected()
	scopes := []string{"system", "transient"}
	for i := 0; i < nSvcs; i++ {
		scopes = append(scopes, svcScope(i))
	}
	for i := 0; i < nProtos; i++ {
		scopes = append(scopes, protoScope(i))
	}
	for i := 0; i < nPeers; i++ {
		scopes = append(scopes, peerScope(i))
	}
	ok := true
	for _, s := range scopes {
		if c.rng.IntN(2) == 0 {
			continue
		}
		c.view(s, false, func(sc network.ResourceScope) {
			e := exp[s]
			if e == nil {
				e = newUsage()
			}
			if g := usageOfStat(sc.Stat()); !e.equal(g) {
				c.violate("View:usage-not-sum-of-holders:"+scopeKind(s)+":"+diffFields(e, g), fmt.Sprintf("View of %s reads %s, holders sum to %s", s, g, e), nil)
				ok = false
			}
		})
		c.count("view_reads")
		if !ok {
			return false
		}
	}
	return true
}
