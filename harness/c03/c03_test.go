// C03 — Resource manager: usage equals the sum of holders and never exceeds limits.
//
// Oracle: a reference model written from the property statement (set of holders + "which scopes does
// holder h charge", expected usage of every scope recomputed from scratch after every operation,
// accept/refuse predicted with math/big), stepped in lock-step with the REAL resource manager inside
// testing/synctest bubbles (virtual time drives the real one-minute scope collector). All scopes are
// read through the public API and the verif white-box dump. A concurrent workload audits
// conservation at quiescence while a sampler checks 0 <= usage <= limit continuously.
package c03

import (
	"os"
	"runtime"
	"sync"
	"testing"

	"verif/harness/rig/run"
)

func TestC03(t *testing.T) {
	r := run.New(t, "C03", "exploration")
	defer r.Finish()
	r.Rule("sequential: generated histories (30-200 ops, 3 peers, 2 protocols, 2 services, 14 endpoints incl. allow-listed/IPv6/no-IP, random limit tables from {0,1,2,3,MaxInt} x memory {0,1,255,256,4096,2^62,MaxInt64}, random per-subnet caps) run against the real manager in a synctest bubble; after EVERY op every scope's usage (public API + white-box dump incl. allow-listed and per-peer scopes, conn/stream/span scopes, connLimiter counters) is compared with the from-scratch sum over the model's holders and accept/refuse with the model's prediction; a history is non-trivial if it contains >=1 refusal and >=1 successful re-parenting; distinct = distinct (case, op list). concurrent: 16-64 goroutines on one manager, continuous bounds sampler, conservation audit at every quiescent point")
	r.Assume("the Go runtime's testing/synctest virtual clock drives time.NewTicker as real time would",
		"x/rate.Limiter{} (zero value) never refuses: the time-based connection rate limiter is configured out",
		"peer/protocol scopes made sticky through SetLimit are not exercised")

	race := os.Getenv("VERIF_RACE") == "1"
	only := os.Getenv("C03_ONLY") // trials only: seq | conc | lin
	var mu sync.Mutex
	merge := func(m map[string]int) {
		mu.Lock()
		for k, v := range m {
			r.Count(k, v)
		}
		mu.Unlock()
	}
	defer func() {
		r.Count("implementation_selfcheck_logs", int(bugLogs.Load()))
		if n := bugLogs.Load(); n > 0 && !r.Replaying() {
			r.Violation("selfcheck:implementation-logged-over-release", "global", "the resource manager logged that more was released than had been charged (it then clamps the counter at zero)", map[string]any{"count": n, "first": bugLogFirst})
		}
	}()

	// 1. sequential histories against the reference model (virtual time)
	if !race && (only == "" || only == "seq") {
		n := r.Pick(2000, 40000)
		run.Parallel(n, 0, func(i int) {
			if r.TooMany() {
				return
			}
			runSeqCase(t, r, i, merge)
		})
		for _, k := range requiredSeqClasses {
			r.Require("class/"+k, 1)
		}
		r.Require("f4_shape_reached", 1)
		r.Require("gc_ticks", 100)
		r.Require("gc_scopes_predicted_collected", 100)
		r.Require("final_direct_reservation_left_to_gc", 10)
		r.Require("seq_histories_completed_zero", r.Pick(600, 12000))
		r.Require("view_reads", 100)
	}

	// 2. concurrent workload: sampler + conservation audits; in the thorough tier crossed with GOMAXPROCS
	if !r.TooMany() && (only == "" || only == "conc") {
		nc := r.Pick(50, 1000)
		if race {
			nc = r.Pick(40, 200)
		}
		procs := []int{0}
		if !r.Quick() && !race {
			procs = []int{1, 2, 4, 0}
		}
		old := runtime.GOMAXPROCS(0)
		for pi, p := range procs {
			if p > 0 {
				runtime.GOMAXPROCS(p)
			}
			lo, hi := pi*nc/len(procs), (pi+1)*nc/len(procs)
			run.Parallel(hi-lo, 2, func(i int) {
				if r.TooMany() {
					return
				}
				runConcCase(r, lo+i, race, merge)
			})
			runtime.GOMAXPROCS(old)
		}
		r.Require("conc_audits", 4*nc/2)
		r.Require("conc_sampler_snapshots", nc)
		r.Require("conc_gc_runs_during_workload", nc)
		r.Require("conc_reparented", nc)
		r.Require("conc_refused", nc)
		r.Require("conc_accepted", nc)
		r.Require("conc_allowlisted_conns", 1)
	}

	// 2b. a peer that comes back while the collector runs (exact audit of scopes only one goroutine uses)
	if !r.TooMany() && (only == "" || only == "gcrace") {
		ng := r.Pick(16, 120)
		if race {
			ng = r.Pick(8, 40)
		}
		run.Parallel(ng, 4, func(i int) {
			if r.TooMany() {
				return
			}
			runGCRaceCase(r, i, race, merge)
		})
		r.Require("gcrace_audits", ng*1000)
		r.Require("gcrace_gc_runs", ng*100)
	}

	// 3. single-scope linearizability (porcupine)
	if !r.TooMany() && (only == "" || only == "lin") {
		nl := r.Pick(150, 3000)
		if race {
			nl = r.Pick(60, 300)
		}
		run.Parallel(nl, 4, func(i int) {
			if r.TooMany() {
				return
			}
			runPorcCase(r, i, merge)
		})
		r.Require("lin_ok", nl/2)
	}
}

// requiredSeqClasses: every (operation, refusing scope) position the check exists to exercise:
// each scope of every reservation chain must have been THE refusing one (so the undo of the already
// charged prefix ran), every re-parenting refusal, every Done flavour. A run that misses one fails
// itself as INCONCLUSIVE.
var requiredSeqClasses = []string{
	"OpenConnection.refuse@conn", "OpenConnection.refuse@transient", "OpenConnection.refuse@system", "OpenConnection.refuse@subnet-cap",
	"OpenConnection.refuse/al@altransient", "OpenConnection.refuse/al@alsystem",
	"OpenConnection.accept-allowlisted/std@transient", "OpenConnection.accept-allowlisted/std@system",
	"OpenStream.refuse@stream", "OpenStream.refuse@peer", "OpenStream.refuse@transient", "OpenStream.refuse@system",
	"ReserveMemory.conn.refuse@conn", "ReserveMemory.conn.refuse@transient", "ReserveMemory.conn.refuse@system",
	"ReserveMemory.conn+peer.refuse@conn", "ReserveMemory.conn+peer.refuse@peer", "ReserveMemory.conn+peer.refuse@system",
	"ReserveMemory.alconn.refuse@conn", "ReserveMemory.alconn.refuse@altransient", "ReserveMemory.alconn.refuse@alsystem",
	"ReserveMemory.alconn+peer.refuse@conn", "ReserveMemory.alconn+peer.refuse@peer", "ReserveMemory.alconn+peer.refuse@alsystem",
	"ReserveMemory.stream.refuse@stream", "ReserveMemory.stream.refuse@peer", "ReserveMemory.stream.refuse@transient", "ReserveMemory.stream.refuse@system",
	"ReserveMemory.stream+proto.refuse@stream", "ReserveMemory.stream+proto.refuse@peer", "ReserveMemory.stream+proto.refuse@proto.peer",
	"ReserveMemory.stream+proto.refuse@proto", "ReserveMemory.stream+proto.refuse@system",
	"ReserveMemory.stream+proto+svc.refuse@stream", "ReserveMemory.stream+proto+svc.refuse@peer", "ReserveMemory.stream+proto+svc.refuse@proto.peer",
	"ReserveMemory.stream+proto+svc.refuse@svc.peer", "ReserveMemory.stream+proto+svc.refuse@proto", "ReserveMemory.stream+proto+svc.refuse@svc",
	"ReserveMemory.stream+proto+svc.refuse@system",
	"ReserveMemory.span:conn.refuse@transient", "ReserveMemory.span:conn+peer.refuse@peer", "ReserveMemory.span:stream.refuse@peer",
	"ReserveMemory.span:stream+proto+svc.refuse@svc", "ReserveMemory.span:view.peer.refuse@system",
	"ReserveMemory.view.system.refuse@system", "ReserveMemory.view.transient.refuse@transient", "ReserveMemory.view.transient.refuse@system",
	"ReserveMemory.view.svc.refuse@svc", "ReserveMemory.view.svc.refuse@system", "ReserveMemory.view.proto.refuse@proto", "ReserveMemory.view.proto.refuse@system",
	"ReserveMemory.view.peer.refuse@peer", "ReserveMemory.view.peer.refuse@system", "ReserveMemory.refuse@closed",
	"SetPeer.accept", "SetPeer.accept-allowlisted", "SetPeer.accept-after-transfer", "SetPeer.refuse@peer", "SetPeer.refuse@already-attached",
	"SetPeer.transfer-ok-refuse@peer",
	"SetProtocol.accept", "SetProtocol.refuse@proto", "SetProtocol.refuse@proto.peer", "SetProtocol.refuse@already-attached",
	"SetService.accept", "SetService.refuse@svc", "SetService.refuse@svc.peer", "SetService.refuse@no-protocol", "SetService.refuse@already-attached",
	"BeginSpan.refuse@closed", "BeginSpan.on-orphan", "BeginSpan.span:conn", "BeginSpan.view.peer",
	"Done.conn.repeated", "Done.stream.repeated", "Done.span.repeated", "Done.conn.with-open-spans", "Done.stream.with-open-spans",
	"Done.span.with-open-spans", "Done.span.owner-already-closed",
	"ReleaseMemory.conn", "ReleaseMemory.stream+proto+svc", "ReleaseMemory.span:conn", "ReleaseMemory.view.peer",
}
