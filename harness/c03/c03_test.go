// C03 — Resource manager: usage equals the sum of holders and never exceeds limits.
//
// Oracle: a reference model written from the property statement (set of holders + "which scopes does
// holder h charge", expected usage of every scope recomputed from scratch after every operation,
// accept/refuse predicted with math/big), stepped in lock-step with the REAL resource manager inside
// testing/synctest bubbles (virtual time drives the real one-minute scope collector). All scopes are
// read through the public API and the verif white-box dump. A concurrent workload audits
// conservation at quiescence while a sampler checks 0 <= usage <= limit continuously.
package c03

import (
	"os"
	"sync"
	"testing"

	"verif/harness/rig/run"
)

func TestC03(t *testing.T) {
	r := run.New(t, "C03", "exploration")
	defer r.Finish()
	r.Rule("sequential: generated histories (30-200 ops, 3 peers, 2 protocols, 2 services, 14 endpoints incl. allow-listed/IPv6/no-IP, random limit tables from {0,1,2,3,MaxInt} x memory {0,1,255,256,4096,2^62,MaxInt64}, random per-subnet caps) run against the real manager in a synctest bubble; after EVERY op every scope's usage (public API + white-box dump incl. allow-listed and per-peer scopes, conn/stream/span scopes, connLimiter counters) is compared with the from-scratch sum over the model's holders and accept/refuse with the model's prediction; a history is non-trivial if it contains >=1 refusal and >=1 successful re-parenting; distinct = distinct (case, op list). concurrent: 16-64 goroutines on one manager, continuous bounds sampler, conservation audit at every quiescent point")
	r.Assume("the Go runtime's testing/synctest virtual clock drives time.NewTicker as real time would",
		"x/rate.Limiter{} (zero value) never refuses: the time-based connection rate limiter is configured out",
		"peer/protocol scopes made sticky through SetLimit are not exercised")

	race := os.Getenv("VERIF_RACE") == "1"
	var mu sync.Mutex
	merge := func(m map[string]int) {
		mu.Lock()
		for k, v := range m {
			r.Count(k, v)
		}
		mu.Unlock()
	}
	defer func() {
		r.Count("implementation_selfcheck_logs", int(bugLogs.Load()))
		if n := bugLogs.Load(); n > 0 && !r.Replaying() {
			r.Violation("selfcheck:implementation-logged-over-release", "global", "the resource manager logged that more was released than had been charged (it then clamps the counter at zero)", map[string]any{"count": n, "first": bugLogFirst})
		}
	}()
	nc := r.Pick(50, 2000)
	if race {
		nc = r.Pick(12, 150)
	}
	run.Parallel(nc, 2, func(i int) {
		if r.TooMany() {
			return
		}
		runConcCase(r, i, race, merge)
	})
	if !race {
		n := r.Pick(2000, 100000)
		run.Parallel(n, 0, func(i int) {
			if r.TooMany() {
				return
			}
			runSeqCase(t, r, i, merge)
		})
	}
}
