package c03

import (
	"errors"
	"fmt"
	"math/big"
	"sync"
	"sync/atomic"
	"time"

	"github.com/anishathalye/porcupine"
	"github.com/libp2p/go-libp2p/core/network"
	rcmgr "github.com/libp2p/go-libp2p/p2p/host/resource-manager"

	"verif/harness/rig/run"
)

// Single-scope linearizability: reservations and releases made concurrently on ONE scope without
// parents (the system scope through ViewSystem) must be explainable by some sequential order in
// which every reservation is accepted iff usage+size <= limit*(1+prio)/256 at its turn. (For chains
// of several scopes this is deliberately not asserted, see DESIGN.md.)

type memIn struct {
	release bool
	size    int64
	prio    int
}

func memModel(limit int64) porcupine.Model {
	return porcupine.Model{
		Init: func() any { return int64(0) },
		Step: func(state, input, output any) (bool, any) {
			st, in := state.(int64), input.(memIn)
			if in.release {
				return true, st - in.size
			}
			nm := new(big.Int).Add(big.NewInt(st), big.NewInt(in.size))
			fits := nm.Cmp(memThreshold(limit, in.prio)) <= 0
			if fits != output.(bool) {
				return false, st
			}
			if fits {
				return true, st + in.size
			}
			return true, st
		},
		DescribeOperation: func(input, output any) string {
			in := input.(memIn)
			if in.release {
				return fmt.Sprintf("release(%d)", in.size)
			}
			return fmt.Sprintf("reserve(%d,prio=%d) -> %v", in.size, in.prio, output)
		},
	}
}

func runPorcCase(r *run.R, idx int, merge func(map[string]int)) {
	caseID := fmt.Sprintf("lin/%d", idx)
	if !r.Want(caseID) {
		return
	}
	rng := r.Rand(11, uint64(idx))
	cfg := &config{Table: &table{}}
	t := cfg.Table
	*t = table{System: unlimited, Transient: unlimited, AlSystem: unlimited, AlTransient: unlimited, Stream: unlimited, Conn: unlimited}
	limit := []int64{256, 1000, 4096, 1 << 62}[rng.IntN(4)]
	t.System.Memory = limit
	cfg.effectiveCaps()
	mgr, err := rcmgr.NewResourceManager(&tableLimiter{t}, cfg.options()...)
	if err != nil {
		r.Inconclusive(caseID, err.Error())
		return
	}
	defer mgr.Close()
	nw, nops := 3+rng.IntN(6), 12+rng.IntN(20)
	unitSz := limit / 8
	var clock atomic.Int64
	var mu sync.Mutex
	var hist []porcupine.Operation
	var wrongErr atomic.Int64
	var wg sync.WaitGroup
	for w := 0; w < nw; w++ {
		wg.Add(1)
		wr := r.Rand(12, uint64(idx), uint64(w))
		go func(w int) {
			defer wg.Done()
			var held []int64
			for i := 0; i < nops; i++ {
				var in memIn
				if len(held) > 0 && wr.IntN(3) == 0 {
					k := wr.IntN(len(held))
					in = memIn{release: true, size: held[k]}
					held = append(held[:k], held[k+1:]...)
				} else {
					in = memIn{size: unitSz*int64(wr.IntN(4)) + int64(wr.IntN(3)), prio: []int{255, 254, 191, 127, 63, 0}[wr.IntN(6)]}
				}
				var out bool
				call := clock.Add(1)
				mgr.ViewSystem(func(s network.ResourceScope) error {
					if in.release {
						s.ReleaseMemory(int(in.size))
						return nil
					}
					e := s.ReserveMemory(int(in.size), uint8(in.prio))
					out = e == nil
					if e != nil && !errors.Is(e, network.ErrResourceLimitExceeded) {
						wrongErr.Add(1)
					}
					return nil
				})
				ret := clock.Add(1)
				if out {
					held = append(held, in.size)
				}
				mu.Lock()
				hist = append(hist, porcupine.Operation{ClientId: w, Input: in, Call: call, Output: out, Return: ret})
				mu.Unlock()
			}
			// give everything back
			for _, sz := range held {
				call := clock.Add(1)
				mgr.ViewSystem(func(s network.ResourceScope) error { s.ReleaseMemory(int(sz)); return nil })
				ret := clock.Add(1)
				mu.Lock()
				hist = append(hist, porcupine.Operation{ClientId: w, Input: memIn{release: true, size: sz}, Call: call, Output: false, Return: ret})
				mu.Unlock()
			}
		}(w)
	}
	wg.Wait()
	cnt := map[string]int{"lin_histories": 1, "lin_operations": len(hist)}
	res := porcupine.CheckOperationsTimeout(memModel(limit), hist, 20*time.Second)
	switch res {
	case porcupine.Ok:
		cnt["lin_ok"]++
	case porcupine.Illegal:
		var ops []string
		for _, o := range hist {
			ops = append(ops, fmt.Sprintf("c%d [%d,%d] %s", o.ClientId, o.Call, o.Return, memModel(limit).DescribeOperation(o.Input, o.Output)))
		}
		r.Violation("linearizability:single-scope-reserve-release", caseID, "concurrent ReserveMemory/ReleaseMemory history on the system scope has no sequential explanation",
			map[string]any{"limit": limit, "operations": ops})
	default:
		cnt["lin_unknown"]++
		r.Inconclusive(caseID, "porcupine timed out")
	}
	if wrongErr.Load() > 0 {
		r.Violation("linearizability:refusal-does-not-wrap-ErrResourceLimitExceeded", caseID, "ReserveMemory refusal without the sentinel", nil)
	}
	var left int64
	mgr.ViewSystem(func(s network.ResourceScope) error { left = s.Stat().Memory; return nil })
	if left != 0 {
		r.Violation("linearizability:residue-after-last-release", caseID, fmt.Sprintf("system memory %d after every reservation was released", left), nil)
	}
	r.Eval(1)
	r.Nontrivial(caseID)
	merge(cnt)
	if idx == 0 {
		var ops []string
		for i, o := range hist {
			if i >= 12 {
				break
			}
			ops = append(ops, fmt.Sprintf("c%d [%d,%d] %s", o.ClientId, o.Call, o.Return, memModel(limit).DescribeOperation(o.Input, o.Output)))
		}
		r.Sample(map[string]any{"case": caseID, "kind": "single-scope linearizability", "system_memory_limit": limit, "clients": nw, "operations": len(hist), "first_ops": ops, "result": string(res)})
	}
}
