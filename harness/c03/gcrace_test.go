package c03

import (
	"errors"
	"fmt"
	"runtime"
	"sync"
	"sync/atomic"
	"time"

	"github.com/libp2p/go-libp2p/core/network"
	"github.com/libp2p/go-libp2p/core/peer"
	"github.com/libp2p/go-libp2p/core/protocol"
	rcmgr "github.com/libp2p/go-libp2p/p2p/host/resource-manager"

	"verif/harness/rig/run"
)

// "A peer that comes back while the collector runs". Each worker OWNS one peer id (no other goroutine
// ever names it) and loops: OpenStream(peer) -> SetProtocol(X) [-> SetService(S)] -> ReserveMemory ->
// OpenStream again -> ... -> audit -> Done of everything. Between two iterations the peer holds
// nothing, so the collector - looping concurrently on the same manager - takes its peer scope and its
// per-(protocol, peer) and per-(service, peer) scopes again and again, while protocol X and service S
// themselves stay alive through an anchor stream of another peer. Because nobody else touches the
// worker's peer, the usage of the peer scope and of the (X, peer) / (S, peer) scopes must equal EXACTLY
// what the worker holds at that moment ("usage equals the sum of what its holders have charged"), and
// with infinite limits no call on an open stream may be refused (a scope closed under an open stream
// answers ErrResourceScopeClosed).
func runGCRaceCase(r *run.R, idx int, race bool, merge func(map[string]int)) {
	caseID := fmt.Sprintf("gcrace/%d", idx)
	if !r.Want(caseID) {
		return
	}
	rng := r.Rand(9, uint64(idx))
	nw := 4 + rng.IntN(9)
	iters := r.Pick(1500, 8000)
	if race {
		iters /= 4
	}
	cnt := map[string]int{}
	var cmu sync.Mutex
	var stop atomic.Bool
	violate := func(sig, msg string, detail map[string]any) {
		if stop.CompareAndSwap(false, true) {
			r.Violation(sig, caseID, msg, detail)
		}
	}
	ok := run.Watchdog(5*time.Minute, func() {
		mgr, err := rcmgr.NewResourceManager(rcmgr.NewFixedLimiter(rcmgr.InfiniteLimits))
		if err != nil {
			r.Inconclusive(caseID, "NewResourceManager: "+err.Error())
			return
		}
		defer mgr.Close()
		protos := []protocol.ID{"/verif/gc/x", "/verif/gc/y"}
		svcs := []string{"verif-gc-s", "verif-gc-t"}
		// anchors keep the protocol and service scopes themselves referenced for the whole case
		var anchors []network.StreamManagementScope
		for i, p := range protos {
			as, err := mgr.OpenStream(peerIDs[0], network.DirInbound)
			if err == nil {
				err = as.SetProtocol(p)
			}
			if err == nil {
				err = as.SetService(svcs[i])
			}
			if err != nil {
				r.Inconclusive(caseID, "anchor: "+err.Error())
				return
			}
			anchors = append(anchors, as)
		}
		stopGC := make(chan struct{})
		var bg sync.WaitGroup
		bg.Add(1)
		go func() {
			defer bg.Done()
			n := 0
			for {
				select {
				case <-stopGC:
					cmu.Lock()
					cnt["gcrace_gc_runs"] += n
					cmu.Unlock()
					return
				default:
				}
				rcmgr.VerifGC(mgr)
				n++
				if n%4 == 0 {
					runtime.Gosched()
				}
			}
		}()
		var wg sync.WaitGroup
		for w := 0; w < nw; w++ {
			wg.Add(1)
			go func(w int) {
				defer wg.Done()
				wr := r.Rand(10, uint64(idx), uint64(w))
				// the worker's own peer: derived ids beyond the ones every other family uses
				me := peer.ID(fmt.Sprintf("verif-gcrace-peer-%d-%d", idx, w))
				local := map[string]int{}
				defer func() {
					cmu.Lock()
					for k, v := range local {
						cnt[k] += v
					}
					cmu.Unlock()
				}()
				for it := 0; it < iters && !stop.Load(); it++ {
					x := wr.IntN(len(protos))
					withSvc := wr.IntN(2) == 0
					k := 1 + wr.IntN(3)
					var held []network.StreamManagementScope
					var mem int64
					var log []string
					fail := func(sig, msg string) {
						violate(sig, msg, map[string]any{"worker": w, "peer": string(me), "iteration": it, "protocol": string(protos[x]), "with_service": withSvc, "ops": log})
					}
					for j := 0; j < k && !stop.Load(); j++ {
						s, err := mgr.OpenStream(me, network.DirOutbound)
						log = append(log, fmt.Sprintf("OpenStream -> %v", err))
						if err != nil {
							fail("gcrace:refused-although-within-limits:OpenStream", fmt.Sprintf("OpenStream under infinite limits failed: %v", err))
							break
						}
						held = append(held, s)
						if err := s.SetProtocol(protos[x]); err != nil {
							log = append(log, fmt.Sprintf("SetProtocol -> %v", err))
							fail("gcrace:refused-although-within-limits:SetProtocol", fmt.Sprintf("SetProtocol under infinite limits failed: %v", err))
							break
						}
						log = append(log, "SetProtocol ok")
						if withSvc {
							if err := s.SetService(svcs[x]); err != nil {
								log = append(log, fmt.Sprintf("SetService -> %v", err))
								fail("gcrace:refused-although-within-limits:SetService", fmt.Sprintf("SetService under infinite limits failed: %v", err))
								break
							}
							log = append(log, "SetService ok")
						}
						if wr.IntN(3) == 0 {
							runtime.Gosched() // let the collector in between two streams of the same peer
						}
						sz := int64(1 + wr.IntN(4096))
						if err := s.ReserveMemory(int(sz), 255); err != nil {
							log = append(log, fmt.Sprintf("ReserveMemory(%d) -> %v", sz, err))
							sig := "gcrace:refused-although-within-limits:ReserveMemory"
							if errors.Is(err, network.ErrResourceScopeClosed) {
								sig = "gcrace:scope-closed-under-an-open-stream:ReserveMemory"
							}
							fail(sig, fmt.Sprintf("ReserveMemory on an open stream under infinite limits failed: %v", err))
							break
						}
						mem += sz
						log = append(log, fmt.Sprintf("ReserveMemory(%d) ok", sz))
					}
					if stop.Load() {
						for _, s := range held {
							s.Done()
						}
						return
					}
					// audit: nobody else names this peer
					d, _ := rcmgr.VerifDump(mgr)
					want := network.ScopeStat{NumStreamsOutbound: len(held), Memory: mem}
					chk := func(what string, got rcmgr.VerifScope, present bool) bool {
						if !present {
							fail("gcrace:usage-not-sum-of-holders:"+what+":scope-missing", fmt.Sprintf("%s does not exist while the peer holds %d open streams attached to it", what, len(held)))
							return false
						}
						if got.Stat != want {
							fail("gcrace:usage-not-sum-of-holders:"+what, fmt.Sprintf("%s reads %+v while its only user holds %+v", what, got.Stat, want))
							return false
						}
						return true
					}
					ps, okp := d.Peers[me]
					good := chk("peer-scope", ps, okp)
					if good {
						pp, okpp := d.ProtocolPeers[protos[x]][me]
						good = chk("protocol-peer-scope", pp, okpp)
					}
					if good && withSvc {
						sp, oksp := d.ServicePeers[svcs[x]][me]
						good = chk("service-peer-scope", sp, oksp)
					}
					for _, s := range held {
						s.Done()
					}
					if !good {
						return
					}
					local["gcrace_audits"]++
					local["gcrace_streams"] += len(held)
					if wr.IntN(2) == 0 {
						runtime.Gosched()
					}
				}
			}(w)
		}
		wg.Wait()
		close(stopGC)
		bg.Wait()
		for _, a := range anchors {
			a.Done()
		}
		// everything released: after one more collection nothing of the workers' peers is left and system is zero
		rcmgr.VerifGC(mgr)
		d, _ := rcmgr.VerifDump(mgr)
		if !stop.Load() && d.System.Stat != (network.ScopeStat{}) {
			violate("gcrace:residue-after-last-release:system", fmt.Sprintf("system scope reads %+v after everything was released", d.System.Stat), nil)
		}
	})
	if !ok {
		r.Inconclusive(caseID, "watchdog: the gc-race case did not finish in 5 minutes")
		return
	}
	r.Eval(1)
	if cnt["gcrace_audits"] > 0 {
		r.Nontrivial(caseID)
	}
	merge(cnt)
}
