package c03

import (
	"fmt"
	"math"
	"math/big"
	"net/netip"
	"sort"
	"strings"

	"github.com/libp2p/go-libp2p/core/network"
	rcmgr "github.com/libp2p/go-libp2p/p2p/host/resource-manager"
)

// Reference model of the resource manager, written from the property statement and the documented
// scope DAG (core/network/rcmgr.go, resource-manager/README.md, docs/allowlist.md):
//
//   * the state is nothing but the SET OF HOLDERS (open connections, streams, spans, direct
//     reservations) with their attributes;
//   * charges(h) says which scopes holder h is accounted in;
//   * the expected usage of every scope is recomputed from scratch as the sum over the holders
//     (no incremental counters that could share a bug with the implementation);
//   * a reservation is refused iff some scope it would be charged to would exceed its limit
//     (memory: new usage <= limit*(1+prio)/256, decided with math/big).

type hkind int

const (
	kConn hkind = iota
	kStream
	kSpan
	kDirect // direct reservations made on a View* scope (one pseudo holder per scope and generation)
)

// usage of one scope / resources of one holder.
type usage struct {
	CI, CO, SI, SO, FD int64
	Mem                *big.Int
}

func newUsage() *usage { return &usage{Mem: new(big.Int)} }

func (u *usage) add(d *usage) {
	u.CI += d.CI
	u.CO += d.CO
	u.SI += d.SI
	u.SO += d.SO
	u.FD += d.FD
	u.Mem.Add(u.Mem, d.Mem)
}

func (u *usage) equal(v *usage) bool {
	return u.CI == v.CI && u.CO == v.CO && u.SI == v.SI && u.SO == v.SO && u.FD == v.FD && u.Mem.Cmp(v.Mem) == 0
}

func (u *usage) isZero() bool { return u.equal(newUsage()) }

func (u *usage) String() string {
	return fmt.Sprintf("{conns in=%d out=%d fd=%d streams in=%d out=%d mem=%s}", u.CI, u.CO, u.FD, u.SI, u.SO, u.Mem.String())
}

func usageOfStat(s network.ScopeStat) *usage {
	return &usage{CI: int64(s.NumConnsInbound), CO: int64(s.NumConnsOutbound), SI: int64(s.NumStreamsInbound), SO: int64(s.NumStreamsOutbound),
		FD: int64(s.NumFD), Mem: big.NewInt(s.Memory)}
}

type holder struct {
	ID   int
	Kind hkind

	// conn
	Dir   network.Direction
	FD    bool
	EP    int  // endpoint index
	Allow bool // accounted in the allow-listed scope set
	// conn + stream
	Peer int // -1: none
	// stream
	Proto, Svc int // -1: none
	// span
	Parent *holder
	// direct
	Scope string
	Gen   int

	Mem  int64 // bytes reserved directly through this handle and not yet released
	Done bool  // Done() was called (direct: the scope was collected)

	// Uncharged is only used to recognise the known finding F4: the connection is open but
	// accounted in no scope besides its own.
	Uncharged bool
}

// dead: the holder itself or an owner up the span tree was closed; a dead holder holds nothing.
func (h *holder) dead() bool {
	for x := h; x != nil; x = x.Parent {
		if x.Done {
			return true
		}
	}
	return false
}

func (h *holder) root() *holder {
	x := h
	for x.Parent != nil {
		x = x.Parent
	}
	return x
}

func (h *holder) depth() int {
	d := 0
	for x := h; x.Parent != nil; x = x.Parent {
		d++
	}
	return d
}

func (h *holder) selfScope() string {
	switch h.Kind {
	case kConn:
		return fmt.Sprintf("conn/%d", h.ID)
	case kStream:
		return fmt.Sprintf("stream/%d", h.ID)
	case kSpan:
		return fmt.Sprintf("span/%d", h.ID)
	}
	return h.Scope
}

func peerScope(p int) string         { return fmt.Sprintf("peer/%d", p) }
func protoScope(x int) string        { return fmt.Sprintf("proto/%d", x) }
func svcScope(s int) string          { return fmt.Sprintf("svc/%d", s) }
func protoPeerScope(x, p int) string { return fmt.Sprintf("proto/%d/peer/%d", x, p) }
func svcPeerScope(s, p int) string   { return fmt.Sprintf("svc/%d/peer/%d", s, p) }

// scopeKind strips the indices: the structural name used in signatures and evidence classes.
func scopeKind(s string) string {
	parts := strings.Split(s, "/")
	var out []string
	for i := 0; i < len(parts); i += 2 {
		out = append(out, parts[i])
	}
	return strings.Join(out, ".")
}

// charges lists the scopes holder h is accounted in, its own scope first. This is the documented DAG:
//
//	connection:  transient + system                      (allow-listed: their allow-listed twins)
//	  after SetPeer: peer + system                       (the transient constraint is dropped)
//	stream:      peer + transient + system
//	  after SetProtocol: peer + protocol + the protocol's per-peer scope + system (transient dropped)
//	  after SetService:  additionally service + the service's per-peer scope
//	direct reservation on a View* scope: that scope + system
//	span: its own scope, then everything its owner is accounted in
//
// The order within the list is the one in which the implementation asks the scopes; the verdict
// does not depend on it, it is only used to name which scope refused (evidence classes).
func (m *model) charges(h *holder) []string {
	switch h.Kind {
	case kConn:
		if h.Uncharged {
			return []string{h.selfScope()}
		}
		sys, tr := "system", "transient"
		if h.Allow {
			sys, tr = "alsystem", "altransient"
		}
		if h.Peer >= 0 {
			return []string{h.selfScope(), peerScope(h.Peer), sys}
		}
		return []string{h.selfScope(), tr, sys}
	case kStream:
		switch {
		case h.Svc >= 0:
			return []string{h.selfScope(), peerScope(h.Peer), protoPeerScope(h.Proto, h.Peer), svcPeerScope(h.Svc, h.Peer), protoScope(h.Proto), svcScope(h.Svc), "system"}
		case h.Proto >= 0:
			return []string{h.selfScope(), peerScope(h.Peer), protoPeerScope(h.Proto, h.Peer), protoScope(h.Proto), "system"}
		}
		return []string{h.selfScope(), peerScope(h.Peer), "transient", "system"}
	case kSpan:
		return append([]string{h.selfScope()}, m.charges(h.Parent)...)
	case kDirect:
		if h.Scope == "system" {
			return []string{"system"}
		}
		return []string{h.Scope, "system"}
	}
	return nil
}

// shape names the holder's position in the DAG (for evidence classes).
func (m *model) shape(h *holder) string {
	r := h.root()
	s := ""
	switch r.Kind {
	case kConn:
		s = "conn"
		if r.Allow {
			s = "alconn"
		}
		if r.Peer >= 0 {
			s += "+peer"
		}
	case kStream:
		s = "stream"
		if r.Proto >= 0 {
			s += "+proto"
		}
		if r.Svc >= 0 {
			s += "+svc"
		}
	case kDirect:
		s = "view." + scopeKind(r.Scope)
	}
	if h.Kind == kSpan {
		s = "span:" + s
	}
	return s
}

// own: what the holder itself holds (a connection slot, maybe a descriptor, a stream slot, memory).
func (h *holder) own() *usage {
	u := newUsage()
	switch h.Kind {
	case kConn:
		if h.Dir == network.DirInbound {
			u.CI = 1
		} else {
			u.CO = 1
		}
		if h.FD {
			u.FD = 1
		}
	case kStream:
		if h.Dir == network.DirInbound {
			u.SI = 1
		} else {
			u.SO = 1
		}
	}
	u.Mem.SetInt64(h.Mem)
	return u
}

type model struct {
	cfg     *config
	holders []*holder
	direct  map[string]*holder // current-generation direct holder per View* scope
	gen     map[string]int
}

func newModel(cfg *config) *model {
	return &model{cfg: cfg, direct: map[string]*holder{}, gen: map[string]int{}}
}

func (m *model) newHolder(k hkind) *holder {
	h := &holder{ID: len(m.holders), Kind: k, Peer: -1, Proto: -1, Svc: -1}
	m.holders = append(m.holders, h)
	return h
}

// directHolder returns the pseudo holder that carries the direct reservations of a View* scope.
func (m *model) directHolder(scope string) *holder {
	if h, ok := m.direct[scope]; ok && !h.Done {
		return h
	}
	h := m.newHolder(kDirect)
	h.Scope = scope
	h.Gen = m.gen[scope]
	m.direct[scope] = h
	return h
}

// expected recomputes the usage of every scope from the holders. A span's memory is part of its
// owner's usage, so the whole stat of a holder = own() + everything its live spans hold.
func (m *model) expected() map[string]*usage {
	exp := map[string]*usage{}
	for _, h := range m.holders {
		if h.dead() {
			continue
		}
		o := h.own()
		for _, s := range m.charges(h) {
			u := exp[s]
			if u == nil {
				u = newUsage()
				exp[s] = u
			}
			u.add(o)
		}
	}
	return exp
}

// total is the whole stat of holder h: what it holds itself plus what its live spans hold.
func (m *model) total(h *holder) *usage {
	u := newUsage()
	for _, x := range m.holders {
		if x.dead() {
			continue
		}
		for y := x; y != nil; y = y.Parent {
			if y == h {
				u.add(x.own())
				break
			}
		}
	}
	return u
}

func (m *model) limitOf(scope string) rcmgr.BaseLimit {
	t := m.cfg.Table
	var a, b int
	switch scopeKind(scope) {
	case "system":
		return t.System
	case "transient":
		return t.Transient
	case "alsystem":
		return t.AlSystem
	case "altransient":
		return t.AlTransient
	case "peer":
		fmt.Sscanf(scope, "peer/%d", &a)
		return t.Peer[a]
	case "proto":
		fmt.Sscanf(scope, "proto/%d", &a)
		return t.Proto[a]
	case "proto.peer":
		fmt.Sscanf(scope, "proto/%d/peer/%d", &a, &b)
		return t.ProtoPeer[a]
	case "svc":
		fmt.Sscanf(scope, "svc/%d", &a)
		return t.Svc[a]
	case "svc.peer":
		fmt.Sscanf(scope, "svc/%d/peer/%d", &a, &b)
		return t.SvcPeer[a]
	case "conn":
		return t.Conn
	case "stream":
		return t.Stream
	case "span":
		fmt.Sscanf(scope, "span/%d", &a)
		return m.limitOf(m.holders[a].Parent.selfScope())
	}
	panic("limitOf " + scope)
}

var big256 = big.NewInt(256)

// memThreshold: largest usage a reservation of priority prio may lead to: limit*(1+prio)/256.
// A MaxInt64 limit means "unlimited" (documented: rcmgr.Unlimited), which is not scaled; the usage
// still may not exceed it.
func memThreshold(limit int64, prio int) *big.Int {
	if limit == math.MaxInt64 {
		return big.NewInt(math.MaxInt64)
	}
	t := big.NewInt(limit)
	t.Mul(t, big.NewInt(int64(1+prio)))
	return t.Quo(t, big256)
}

// exceeds: would adding d to a scope with usage cur break one of its limits?
// prio >= 0: d.Mem is a memory reservation of that priority (checked even when it is 0 bytes);
// prio == -1: no memory is being reserved by this operation (opening a conn/stream);
// prio == -2: d is the whole stat of a holder that is being re-parented; memory counts in full.
func exceeds(l rcmgr.BaseLimit, cur, d *usage, prio int) bool {
	if d.CI > 0 && cur.CI+d.CI > int64(l.ConnsInbound) {
		return true
	}
	if d.CO > 0 && cur.CO+d.CO > int64(l.ConnsOutbound) {
		return true
	}
	if d.CI+d.CO > 0 && cur.CI+cur.CO+d.CI+d.CO > int64(l.Conns) {
		return true
	}
	if d.FD > 0 && cur.FD+d.FD > int64(l.FD) {
		return true
	}
	if d.SI > 0 && cur.SI+d.SI > int64(l.StreamsInbound) {
		return true
	}
	if d.SO > 0 && cur.SO+d.SO > int64(l.StreamsOutbound) {
		return true
	}
	if d.SI+d.SO > 0 && cur.SI+cur.SO+d.SI+d.SO > int64(l.Streams) {
		return true
	}
	switch {
	case prio >= 0:
		nm := new(big.Int).Add(cur.Mem, d.Mem)
		if nm.Cmp(memThreshold(l.Memory, prio)) > 0 {
			return true
		}
	case prio == -2:
		nm := new(big.Int).Add(cur.Mem, d.Mem)
		if nm.Cmp(big.NewInt(l.Memory)) > 0 {
			return true
		}
	}
	return false
}

// firstRefusing returns the index of the first scope of the list that would exceed, or -1.
func (m *model) firstRefusing(exp map[string]*usage, scopes []string, d *usage, prio int) int {
	for i, s := range scopes {
		cur := exp[s]
		if cur == nil {
			cur = newUsage()
		}
		if strings.HasPrefix(s, "span/") {
			continue // a span has its owner's limit and never holds more than the owner: implied
		}
		if exceeds(m.limitOf(s), cur, d, prio) {
			return i
		}
	}
	return -1
}

// ---- per-subnet connection caps -------------------------------------------------------------

// connCounts recomputes, from the open connections, how many count against every cap:
// key "np:<prefix>" for an explicit network prefix, "sn:<bits>:<subnet>" for a per-subnet limit.
func (m *model) connCounts() map[string]int {
	out := map[string]int{}
	for _, h := range m.holders {
		if h.Kind != kConn || h.Done {
			continue
		}
		for _, k := range m.capKeys(endpoints[h.EP].IP) {
			out[k.key]++
		}
	}
	return out
}

type capKey struct {
	key string
	cap int
}

// capKeys: the caps an address counts against. An explicit network prefix (most specific first)
// takes precedence over the general per-subnet limits.
func (m *model) capKeys(ip netip.Addr) []capKey {
	if !ip.IsValid() {
		return nil
	}
	np, sn := m.cfg.effNP4, m.cfg.eff4
	if ip.Is6() {
		np, sn = m.cfg.effNP6, m.cfg.eff6
	}
	for _, e := range np {
		if e.Prefix.Contains(ip) {
			return []capKey{{"np:" + e.Prefix.String(), e.Cap}}
		}
	}
	var out []capKey
	for _, e := range sn {
		p, err := ip.Prefix(e.Bits)
		if err != nil {
			continue
		}
		out = append(out, capKey{fmt.Sprintf("sn:%d:%s", e.Bits, p), e.Cap})
	}
	return out
}

// subnetFull: opening one more connection from ip would exceed a per-subnet cap.
func (m *model) subnetFull(ip netip.Addr) bool {
	counts := m.connCounts()
	for _, k := range m.capKeys(ip) {
		if counts[k.key]+1 > k.cap {
			return true
		}
	}
	return false
}

// ---- garbage collection ---------------------------------------------------------------------

// referenced: a peer or protocol scope is in use while a live connection or stream is attached to
// it or a span rooted directly at it has not been closed.
func (m *model) referenced(scope string) bool {
	for _, h := range m.holders {
		if h.Done {
			continue
		}
		switch h.Kind {
		case kConn:
			if h.Peer >= 0 && peerScope(h.Peer) == scope {
				return true
			}
		case kStream:
			if peerScope(h.Peer) == scope || (h.Proto >= 0 && protoScope(h.Proto) == scope) {
				return true
			}
		case kSpan:
			if h.Parent.Kind == kDirect && h.Parent.Scope == scope && !h.Parent.Done {
				return true
			}
		}
	}
	return false
}

func collectable() []string {
	var out []string
	for p := 0; p < nPeers; p++ {
		out = append(out, peerScope(p))
	}
	for x := 0; x < nProtos; x++ {
		out = append(out, protoScope(x))
	}
	return out
}

// gcTick: unused peer and protocol scopes are collected; whatever was still reserved directly on
// them (memory only, by definition of unused) is released, and handles to them become stale.
// Returns the collected scopes.
func (m *model) gcTick() []string {
	var gone []string
	for _, s := range collectable() {
		if m.referenced(s) {
			continue
		}
		gone = append(gone, s)
		if h, ok := m.direct[s]; ok {
			h.Done = true
			h.Mem = 0
			delete(m.direct, s)
		}
		m.gen[s]++
	}
	return gone
}

// ---- helpers --------------------------------------------------------------------------------

func (m *model) live(k hkind) []*holder {
	var out []*holder
	for _, h := range m.holders {
		if h.Kind == k && !h.dead() {
			out = append(out, h)
		}
	}
	return out
}

func sortedKeys[V any](m map[string]V) []string {
	out := make([]string, 0, len(m))
	for k := range m {
		out = append(out, k)
	}
	sort.Strings(out)
	return out
}

// describeHolders renders the model state (the live holders and where each is charged) for witnesses.
func (m *model) describeHolders() []string {
	var out []string
	for _, h := range m.holders {
		if h.dead() {
			continue
		}
		if h.Kind == kDirect && h.Mem == 0 {
			continue
		}
		d := fmt.Sprintf("h%d %s holds %s charged to %v", h.ID, m.shape(h), h.own(), m.charges(h))
		if h.Kind == kConn {
			d += " endpoint " + endpoints[h.EP].Addr
		}
		out = append(out, d)
	}
	return out
}
