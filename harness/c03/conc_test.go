package c03

import (
	"context"
	"errors"
	"fmt"
	"log/slog"
	"math"
	"math/rand/v2"
	"runtime"
	"sync"
	"sync/atomic"
	"time"

	"github.com/libp2p/go-libp2p/core/network"
	"github.com/libp2p/go-libp2p/gologshim"
	rcmgr "github.com/libp2p/go-libp2p/p2p/host/resource-manager"

	"verif/harness/rig/run"
)

// ---- the implementation's own self-checks as an extra monitor ---------------------------------
//
// resources.release* and connLimiter.rmConn log "BUG: too much ... released" / "unexpected conn
// count" when something is released that was never charged, and then clamp the counter at zero
// (which would hide the over-release from a later comparison). The workloads never release more
// than they reserved, so any such line means some scope held less than the sum of its holders.

type bugLogHandler struct{}

var (
	bugLogs     atomic.Int64
	bugLogMu    sync.Mutex
	bugLogFirst []string
)

func (bugLogHandler) Enabled(_ context.Context, l slog.Level) bool { return l >= slog.LevelWarn }
func (bugLogHandler) Handle(_ context.Context, r slog.Record) error {
	m := r.Message
	if len(m) >= 4 && m[:4] == "BUG:" || len(m) >= 10 && m[:10] == "unexpected" {
		bugLogs.Add(1)
		bugLogMu.Lock()
		if len(bugLogFirst) < 5 {
			bugLogFirst = append(bugLogFirst, m)
		}
		bugLogMu.Unlock()
	}
	return nil
}
func (h bugLogHandler) WithAttrs([]slog.Attr) slog.Handler { return h }
func (h bugLogHandler) WithGroup(string) slog.Handler      { return h }

func init() { gologshim.SetDefaultHandler(bugLogHandler{}) }

// ---- concurrent workload ----------------------------------------------------------------------

// genConcConfig: limits tight enough that refusals are frequent with dozens of workers, but not
// so tight that nothing is ever held.
func genConcConfig(rng *rand.Rand) *config {
	c := genConfig(rng)
	cv := func() int { return pickW(rng, []int{2, 3, 5, 8, 20, 50, math.MaxInt}, []int{4, 8, 10, 14, 18, 20, 26}) }
	mv := func() int64 {
		return pickW(rng, []int64{256, 4096, 65536, 1 << 20, 1 << 62, math.MaxInt64}, []int{6, 16, 22, 22, 8, 26})
	}
	lim := func() rcmgr.BaseLimit {
		return rcmgr.BaseLimit{Streams: cv(), StreamsInbound: cv(), StreamsOutbound: cv(), Conns: cv(), ConnsInbound: cv(), ConnsOutbound: cv(), FD: cv(), Memory: mv()}
	}
	t := c.Table
	t.System, t.Transient, t.AlSystem, t.AlTransient = lim(), lim(), lim(), lim()
	for i := range t.Svc {
		t.Svc[i], t.SvcPeer[i] = lim(), lim()
	}
	for i := range t.Proto {
		t.Proto[i], t.ProtoPeer[i] = lim(), lim()
	}
	for i := range t.Peer {
		t.Peer[i] = lim()
	}
	t.Conn, t.Stream = unlimited, unlimited
	t.Conn.Memory, t.Stream.Memory = mv(), mv()
	// system/transient a bit wider so inner scopes get their share of refusals
	if rng.IntN(2) == 0 {
		t.System.Conns, t.System.ConnsInbound, t.System.ConnsOutbound, t.System.Streams, t.System.StreamsInbound, t.System.StreamsOutbound, t.System.FD = 40, 30, 30, 60, 40, 40, 30
	}
	c.effectiveCaps() // the allow-listed system limit feeds the caps
	return c
}

type concRun struct {
	r      *run.R
	caseID string
	cfg    *config
	mgr    network.ResourceManager

	mu    sync.Mutex
	viols []concViol
	cnt   map[string]int
	stop  atomic.Bool
}

type concViol struct {
	sig, msg string
	detail   map[string]any
}

func (c *concRun) violate(sig, msg string, detail map[string]any) {
	c.mu.Lock()
	if len(c.viols) < 3 {
		c.viols = append(c.viols, concViol{sig, msg, detail})
	}
	c.mu.Unlock()
	c.stop.Store(true)
}

// worker: owns its connections, streams, spans and direct reservations; mirrors them in a private
// model (same charges() function as the sequential oracle, no predictions).
type worker struct {
	c    *concRun
	id   int
	rng  *rand.Rand
	m    *model
	real map[int]*realH
	log  []string // last operations (witness)
	cnt  map[string]int
}

func (w *worker) note(s string) {
	if len(w.log) >= 40 {
		w.log = w.log[1:]
	}
	w.log = append(w.log, s)
}

func (w *worker) fail(sig, msg string) {
	w.c.violate(sig, fmt.Sprintf("worker %d: %s", w.id, msg), map[string]any{"worker": w.id, "last_ops": append([]string{}, w.log...), "config": w.c.cfg.describe()})
}

// checkErr: under concurrency "refused iff would exceed" is not asserted (an in-flight reservation
// of another goroutine may legitimately cause a refusal); the error of a refused reservation on a
// live handle must still wrap the sentinel.
func (w *worker) checkErr(op string, err error, anyErrOK bool) {
	if err == nil {
		w.cnt["conc_accepted"]++
		return
	}
	w.cnt["conc_refused"]++
	if !anyErrOK && !errors.Is(err, network.ErrResourceLimitExceeded) {
		w.fail("concurrent:"+op+":refusal-does-not-wrap-ErrResourceLimitExceeded", fmt.Sprintf("%s on a live handle failed with %v", op, err))
	}
}

// checkOwn: atomicity as seen through the worker's own holdings: the scope behind a handle is only
// touched by its owner, so after every call it must hold exactly what the owner put there.
func (w *worker) checkOwn(op string, h *holder) {
	root := h.root()
	for _, x := range []*holder{h, root} {
		if x.Kind == kDirect || x.dead() {
			continue
		}
		want := w.m.total(x)
		got := usageOfStat(w.real[x.ID].scope().Stat())
		if !want.equal(got) {
			w.fail("concurrent:"+op+":own-scope-usage-differs", fmt.Sprintf("after %s the %s scope reads %s, its owner holds %s", op, scopeKind(x.selfScope()), got, want))
			return
		}
	}
}

var concSizes = []int64{1, 100, 255, 4096, 65536, 1 << 20}

func (w *worker) step() {
	m, rng := w.m, w.rng
	liveOf := func(k hkind) []*holder { return m.live(k) }
	pick := func(l []*holder) *holder { return l[rng.IntN(len(l))] }
	viewScope := func() string {
		switch rng.IntN(5) {
		case 0:
			return "system"
		case 1:
			return "transient"
		case 2:
			return svcScope(rng.IntN(nSvcs))
		case 3:
			return protoScope(rng.IntN(nProtos))
		}
		return peerScope(rng.IntN(nPeers))
	}
	sc := &seqCase{mgr: w.c.mgr, m: m, rng: rng} // only for its view() helper
	switch k := rng.IntN(100); {
	case k < 14:
		if len(liveOf(kConn)) >= 4 {
			return
		}
		ep := rng.IntN(len(endpoints))
		dir, fd := netDir([]string{"in", "out"}[rng.IntN(2)]), rng.IntN(2) == 0
		cs, err := w.c.mgr.OpenConnection(dir, fd, endpoints[ep].maddr)
		w.note(fmt.Sprintf("OpenConnection(%s,%v,%s) -> %s", dirName(dir), fd, endpoints[ep].Addr, errStr(err)))
		w.checkErr("OpenConnection", err, endpoints[ep].IP.IsValid())
		if err != nil {
			return
		}
		h := m.newHolder(kConn)
		h.Dir, h.FD, h.EP = dir, fd, ep
		h.Allow, _ = rcmgr.VerifConnAllowlisted(cs)
		if h.Allow {
			w.cnt["conc_allowlisted_conns"]++
		}
		w.real[h.ID] = &realH{conn: cs}
		w.checkOwn("OpenConnection", h)
	case k < 24:
		l := liveOf(kConn)
		if len(l) == 0 {
			return
		}
		h := pick(l)
		p := rng.IntN(nPeers)
		err := w.real[h.ID].conn.SetPeer(peerIDs[p])
		w.note(fmt.Sprintf("h%d.SetPeer(peer%d) -> %s", h.ID, p, errStr(err)))
		if h.Peer >= 0 {
			if err == nil {
				w.fail("concurrent:SetPeer:accepted-although-would-exceed:already-attached", "second SetPeer accepted")
			}
			return
		}
		wasAllow := h.Allow
		h.Allow, _ = rcmgr.VerifConnAllowlisted(w.real[h.ID].conn)
		if err == nil {
			h.Peer = p
			w.cnt["conc_reparented"]++
		} else if wasAllow && !h.Allow {
			// refused while/after being moved out of the allow-listed set
			w.cnt["conc_allowlist_transfer_refused"]++
			if edges, _ := rcmgr.VerifEdges(w.real[h.ID].conn); len(edges) == 0 {
				// Known finding F4: the open connection is charged to no scope at all. It is
				// reported under its signature, taken out of the audit and closed right away
				// (closing a connection that holds nothing releases nothing).
				w.cnt["conc_f4_seen"]++
				w.c.r.Violation(sigF4, w.c.caseID, "concurrent workload: refused SetPeer left an allow-listed connection charged in no scope", map[string]any{"last_ops": append([]string{}, w.log...)})
				w.checkErr("SetPeer", err, false)
				w.real[h.ID].done()
				h.Done = true
				return
			}
		}
		w.checkErr("SetPeer", err, false)
		w.checkOwn("SetPeer", h)
	case k < 36:
		if len(liveOf(kStream)) >= 5 {
			return
		}
		p, dir := rng.IntN(nPeers), netDir([]string{"in", "out"}[rng.IntN(2)])
		ss, err := w.c.mgr.OpenStream(peerIDs[p], dir)
		w.note(fmt.Sprintf("OpenStream(peer%d,%s) -> %s", p, dirName(dir), errStr(err)))
		w.checkErr("OpenStream", err, false)
		if err != nil {
			return
		}
		h := m.newHolder(kStream)
		h.Dir, h.Peer = dir, p
		w.real[h.ID] = &realH{stream: ss}
		w.checkOwn("OpenStream", h)
	case k < 44:
		l := liveOf(kStream)
		if len(l) == 0 {
			return
		}
		h := pick(l)
		x := rng.IntN(nProtos)
		err := w.real[h.ID].stream.SetProtocol(protoIDs[x])
		w.note(fmt.Sprintf("h%d.SetProtocol(proto%d) -> %s", h.ID, x, errStr(err)))
		if h.Proto >= 0 {
			if err == nil {
				w.fail("concurrent:SetProtocol:accepted-although-would-exceed:already-attached", "second SetProtocol accepted")
			}
			return
		}
		if err == nil {
			h.Proto = x
			w.cnt["conc_reparented"]++
		}
		w.checkErr("SetProtocol", err, false)
		w.checkOwn("SetProtocol", h)
	case k < 51:
		l := liveOf(kStream)
		if len(l) == 0 {
			return
		}
		h := pick(l)
		sv := rng.IntN(nSvcs)
		err := w.real[h.ID].stream.SetService(svcNames[sv])
		w.note(fmt.Sprintf("h%d.SetService(svc%d) -> %s", h.ID, sv, errStr(err)))
		if h.Svc >= 0 || h.Proto < 0 {
			if err == nil {
				w.fail("concurrent:SetService:accepted-although-would-exceed:misuse", "SetService accepted on a stream without protocol / with a service")
			}
			return
		}
		if err == nil {
			h.Svc = sv
			w.cnt["conc_reparented"]++
		}
		w.checkErr("SetService", err, false)
		w.checkOwn("SetService", h)
	case k < 70:
		// reserve on an own handle, or directly on a never-collected View* scope
		size, prio := concSizes[rng.IntN(len(concSizes))], uint8(rng.IntN(256))
		if rng.IntN(4) == 0 {
			s := viewScope()
			if k := scopeKind(s); k == "peer" || k == "proto" {
				return // peer/protocol scopes only through spans (a span keeps the scope referenced)
			}
			var err error
			sc.view(s, false, func(rs network.ResourceScope) { err = rs.ReserveMemory(int(size), prio) })
			w.note(fmt.Sprintf("view:%s.ReserveMemory(%d,%d) -> %s", s, size, prio, errStr(err)))
			w.checkErr("ReserveMemory", err, false)
			if err == nil {
				m.directHolder(s).Mem += size
			}
			return
		}
		var l []*holder
		for _, h := range m.holders {
			if h.Kind != kDirect && !h.dead() {
				l = append(l, h)
			}
		}
		if len(l) == 0 {
			return
		}
		h := pick(l)
		err := w.real[h.ID].scope().ReserveMemory(int(size), prio)
		w.note(fmt.Sprintf("h%d.ReserveMemory(%d,%d) -> %s", h.ID, size, prio, errStr(err)))
		w.checkErr("ReserveMemory", err, false)
		if err == nil {
			h.Mem += size
		}
		w.checkOwn("ReserveMemory", h)
	case k < 78:
		var l []*holder
		for _, h := range m.holders {
			if !h.dead() && h.Mem > 0 {
				l = append(l, h)
			}
		}
		if len(l) == 0 {
			return
		}
		h := pick(l)
		size := h.Mem
		if rng.IntN(2) == 0 {
			size = rng.Int64N(h.Mem) + 1
		}
		if h.Kind == kDirect {
			sc.view(h.Scope, false, func(rs network.ResourceScope) { rs.ReleaseMemory(int(size)) })
		} else {
			w.real[h.ID].scope().ReleaseMemory(int(size))
		}
		h.Mem -= size
		w.note(fmt.Sprintf("%s.ReleaseMemory(%d)", h.selfScope(), size))
		w.checkOwn("ReleaseMemory", h)
	case k < 87:
		// span on an own handle or on a View* scope (incl. peer/protocol)
		var parent *holder
		var sp network.ResourceScopeSpan
		var err error
		if rng.IntN(3) == 0 {
			s := viewScope()
			parent = m.directHolder(s)
			sc.view(s, false, func(rs network.ResourceScope) { sp, err = rs.BeginSpan() })
		} else {
			var l []*holder
			for _, h := range m.holders {
				if h.Kind != kDirect && !h.dead() && h.depth() < 2 {
					l = append(l, h)
				}
			}
			if len(l) == 0 || len(liveOf(kSpan)) >= 6 {
				return
			}
			parent = pick(l)
			sp, err = w.real[parent.ID].scope().BeginSpan()
		}
		w.note(fmt.Sprintf("%s.BeginSpan() -> %s", parent.selfScope(), errStr(err)))
		if err != nil {
			w.fail("concurrent:BeginSpan:refused-although-within-limits", fmt.Sprintf("BeginSpan on a live scope failed: %v", err))
			return
		}
		h := m.newHolder(kSpan)
		h.Parent = parent
		w.real[h.ID] = &realH{span: sp}
	default:
		var l []*holder
		for _, h := range m.holders {
			if h.Kind != kDirect && (!h.Done || rng.IntN(8) == 0) {
				l = append(l, h)
			}
		}
		if len(l) == 0 {
			return
		}
		h := pick(l)
		w.real[h.ID].done()
		if h.Done {
			w.cnt["conc_repeated_done"]++
		}
		h.Done = true
		w.note(fmt.Sprintf("%s.Done()", h.selfScope()))
		if p := h.Parent; p != nil && !p.dead() && p.Kind != kDirect {
			w.checkOwn("Done", p)
		}
	}
}

// releaseAll closes and releases everything the worker still holds.
func (w *worker) releaseAll() {
	sc := &seqCase{mgr: w.c.mgr, m: w.m, rng: w.rng}
	var open []*holder
	for _, h := range w.m.holders {
		if h.Kind != kDirect && !h.Done {
			open = append(open, h)
		}
	}
	w.rng.Shuffle(len(open), func(i, j int) { open[i], open[j] = open[j], open[i] })
	for _, h := range open {
		w.real[h.ID].done()
		h.Done = true
	}
	for s, h := range w.m.direct {
		if h.Mem > 0 {
			sc.view(s, false, func(rs network.ResourceScope) { rs.ReleaseMemory(int(h.Mem)) })
			h.Mem = 0
		}
	}
}

// audit at a quiescent point: the manager's totals equal the sum of what the workers hold.
func (c *concRun) audit(ws []*worker, phase string) {
	exp := map[string]*usage{}
	counts := map[string]int{}
	for _, w := range ws {
		for k, u := range w.m.expected() {
			if sk := scopeKind(k); sk == "conn" || sk == "stream" || sk == "span" {
				continue // worker-local scopes are checked by their owners
			}
			if exp[k] == nil {
				exp[k] = newUsage()
			}
			exp[k].add(u)
		}
		for k, n := range w.m.connCounts() {
			counts[k] += n
		}
	}
	o := observe(c.mgr)
	zero := newUsage()
	keys := map[string]bool{}
	for k := range exp {
		keys[k] = true
	}
	for k := range o.use {
		keys[k] = true
	}
	var mm []mismatch
	for _, k := range sortedKeys(keys) {
		e, g := exp[k], o.use[k]
		if e == nil {
			e = zero
		}
		if g == nil {
			g = zero
		}
		if !e.equal(g) {
			mm = append(mm, mismatch{Scope: k, Expected: e.String(), Observed: g.String(), fields: diffFields(e, g)})
		}
	}
	if len(mm) > 0 {
		clause := "totals-differ-from-sum-of-holders"
		if phase == "final" {
			clause = "residue-after-last-release"
		}
		c.violate(fmt.Sprintf("concurrent:%s:%s:%s", clause, scopeKind(mm[0].Scope), mm[0].fields),
			fmt.Sprintf("at quiescence (%s) scope %s holds %s, the workers hold %s", phase, mm[0].Scope, mm[0].Observed, mm[0].Expected),
			map[string]any{"mismatches": mm, "config": c.cfg.describe(), "workers": len(ws)})
		return
	}
	// per-subnet counters
	got := map[string]int{}
	for _, l := range [][]rcmgr.VerifPrefixCount{o.dump.NetworkPrefixV4, o.dump.NetworkPrefixV6} {
		for _, e := range l {
			got["np:"+e.Prefix.String()] += e.Count
		}
	}
	for _, l := range [][]rcmgr.VerifPrefixCount{o.dump.SubnetV4, o.dump.SubnetV6} {
		for _, e := range l {
			got[fmt.Sprintf("sn:%d:%s", e.Prefix.Bits(), e.Prefix)] += e.Count
		}
	}
	for k := range got {
		if got[k] != counts[k] {
			c.violate("concurrent:subnet-counter-differs-from-open-conns", fmt.Sprintf("at quiescence (%s) %s: limiter counts %d, %d connections open", phase, k, got[k], counts[k]),
				map[string]any{"config": c.cfg.describe()})
			return
		}
	}
	for k := range counts {
		if got[k] != counts[k] {
			c.violate("concurrent:subnet-counter-differs-from-open-conns", fmt.Sprintf("at quiescence (%s) %s: limiter counts %d, %d connections open", phase, k, got[k], counts[k]),
				map[string]any{"config": c.cfg.describe()})
			return
		}
	}
	c.mu.Lock()
	c.cnt["conc_audits"]++
	c.cnt["conc_audit_scopes"] += len(keys)
	c.mu.Unlock()
}

// sampler: 0 <= usage <= limit for every scope, continuously, and no subnet above its cap.
func (c *concRun) sampler(stop <-chan struct{}, done *sync.WaitGroup) {
	defer done.Done()
	n := 0
	for {
		select {
		case <-stop:
			c.mu.Lock()
			c.cnt["conc_sampler_snapshots"] += n
			c.mu.Unlock()
			return
		default:
		}
		d, _ := rcmgr.VerifDump(c.mgr)
		chk := func(s rcmgr.VerifScope) {
			if b := boundsViolation(usageOfStat(s.Stat), s.Limit); b != "" {
				c.violate("concurrent:sampler:"+b, fmt.Sprintf("scope %s read %+v with limit %+v while the workload was running", s.Name, s.Stat, s.Limit), map[string]any{"config": c.cfg.describe()})
			}
		}
		chk(d.System)
		chk(d.Transient)
		chk(d.AllowlistedSystem)
		chk(d.AllowlistedTransient)
		for _, s := range d.Peers {
			chk(s)
		}
		for _, s := range d.Protocols {
			chk(s)
		}
		for _, s := range d.Services {
			chk(s)
		}
		for _, mm := range d.ProtocolPeers {
			for _, s := range mm {
				chk(s)
			}
		}
		for _, mm := range d.ServicePeers {
			for _, s := range mm {
				chk(s)
			}
		}
		for _, l := range [][]rcmgr.VerifPrefixCount{d.NetworkPrefixV4, d.NetworkPrefixV6, d.SubnetV4, d.SubnetV6} {
			for _, e := range l {
				if e.Count > e.Cap || e.Count < 0 {
					c.violate("concurrent:sampler:subnet-cap-exceeded", fmt.Sprintf("%s: %d connections counted, cap %d", e.Prefix, e.Count, e.Cap), map[string]any{"config": c.cfg.describe()})
				}
			}
		}
		// public API
		if st, ok := c.mgr.(rcmgr.ResourceManagerState); ok {
			pub := st.Stat()
			for _, s := range []network.ScopeStat{pub.System, pub.Transient} {
				if s.Memory < 0 || s.NumConnsInbound < 0 || s.NumConnsOutbound < 0 || s.NumStreamsInbound < 0 || s.NumStreamsOutbound < 0 || s.NumFD < 0 {
					c.violate("concurrent:sampler:negative", fmt.Sprintf("public Stat() read %+v", s), nil)
				}
			}
		}
		n++
		runtime.Gosched()
	}
}

func runConcCase(r *run.R, idx int, race bool, merge func(map[string]int)) {
	caseID := fmt.Sprintf("conc/%d", idx)
	if !r.Want(caseID) {
		return
	}
	rng := r.Rand(7, uint64(idx))
	c := &concRun{r: r, caseID: caseID, cfg: genConcConfig(rng), cnt: map[string]int{}}
	nw := 16 + rng.IntN(49)
	phases := 3
	opsPerPhase := 120 + rng.IntN(200)
	if race {
		opsPerPhase /= 2
	}
	ok := run.Watchdog(5*time.Minute, func() {
		mgr, err := rcmgr.NewResourceManager(&tableLimiter{c.cfg.Table}, c.cfg.options()...)
		if err != nil {
			r.Inconclusive(caseID, "NewResourceManager: "+err.Error())
			return
		}
		c.mgr = mgr
		defer mgr.Close()
		ws := make([]*worker, nw)
		for i := range ws {
			ws[i] = &worker{c: c, id: i, rng: r.Rand(8, uint64(idx), uint64(i)), m: newModel(c.cfg), real: map[int]*realH{}, cnt: map[string]int{}}
		}
		stopBg := make(chan struct{})
		var bg sync.WaitGroup
		bg.Add(2)
		go c.sampler(stopBg, &bg)
		// the collector runs concurrently with the workload (it must never take a scope that is referenced)
		go func() {
			defer bg.Done()
			n := 0
			for {
				select {
				case <-stopBg:
					c.mu.Lock()
					c.cnt["conc_gc_runs_during_workload"] += n
					c.mu.Unlock()
					return
				default:
				}
				rcmgr.VerifGC(mgr)
				n++
				runtime.Gosched()
			}
		}()
		for ph := 0; ph < phases && !c.stop.Load(); ph++ {
			var wg sync.WaitGroup
			for _, w := range ws {
				wg.Add(1)
				go func(w *worker) {
					defer wg.Done()
					defer func() {
						if p := recover(); p != nil {
							w.fail("concurrent:panic", fmt.Sprintf("panic: %v", p))
						}
					}()
					for i := 0; i < opsPerPhase && !c.stop.Load(); i++ {
						w.step()
						w.cnt["conc_ops"]++
					}
				}(w)
			}
			wg.Wait()
			if !c.stop.Load() {
				c.audit(ws, fmt.Sprintf("phase %d", ph))
			}
		}
		if !c.stop.Load() {
			var wg sync.WaitGroup
			for _, w := range ws {
				wg.Add(1)
				go func(w *worker) { defer wg.Done(); w.releaseAll() }(w)
			}
			wg.Wait()
		}
		close(stopBg)
		bg.Wait()
		if !c.stop.Load() {
			c.audit(ws, "final")
		}
		if !c.stop.Load() {
			// with nothing held, the collector takes every peer and protocol scope
			rcmgr.VerifGC(mgr)
			d, _ := rcmgr.VerifDump(mgr)
			if len(d.Peers) != 0 || len(d.Protocols) != 0 {
				c.violate("concurrent:GC:unused-scope-not-collected", fmt.Sprintf("after everything was released the collector left %d peer and %d protocol scopes", len(d.Peers), len(d.Protocols)),
					map[string]any{"config": c.cfg.describe()})
			}
		}
		for _, w := range ws {
			merge(w.cnt)
		}
	})
	if !ok {
		r.Inconclusive(caseID, "watchdog: concurrent run did not finish within 5 min of real time\n"+run.Stacks())
		return
	}
	for _, v := range c.viols {
		r.Violation(v.sig, caseID, v.msg, v.detail)
	}
	r.Eval(1)
	c.cnt["conc_runs"]++
	c.cnt["conc_workers"] += nw
	merge(c.cnt)
	if len(c.viols) == 0 {
		r.Nontrivial(caseID)
	}
	if idx == 0 {
		r.Sample(map[string]any{"case": caseID, "kind": "concurrent", "workers": nw, "phases": phases, "ops_per_worker_and_phase": opsPerPhase,
			"config": c.cfg.describe(), "counters": c.cnt})
	}
}
