package c03

import (
	"errors"
	"fmt"
	"math"
	"math/big"
	"math/rand/v2"
	"runtime/debug"
	"strings"
	"testing"
	"testing/synctest"
	"time"

	"github.com/libp2p/go-libp2p/core/network"
	rcmgr "github.com/libp2p/go-libp2p/p2p/host/resource-manager"

	"verif/harness/rig/run"
)

const sigF4 = "F4:refused-allowlist-transfer-leaves-conn-uncharged"

// op is one generated operation of a history.
type op struct {
	K     string `json:"op"`              // open_conn set_peer open_stream set_proto set_svc reserve release span done advance view_read
	H     int    `json:"h,omitempty"`     // holder the op acts on
	Via   string `json:"via,omitempty"`   // direct scopes: view (fresh View* call) | stored (handle kept from an earlier View*) | derived (conn.PeerScope() etc. of holder D)
	D     int    `json:"d,omitempty"`     // deriving holder
	Scope string `json:"scope,omitempty"` // direct scope
	SH    int    `json:"sh,omitempty"`    // stored handle index
	Dir   string `json:"dir,omitempty"`
	FD    bool   `json:"fd,omitempty"`
	EP    string `json:"ep,omitempty"`
	ep    int
	Peer  int   `json:"peer"`
	Proto int   `json:"proto"`
	Svc   int   `json:"svc"`
	Size  int64 `json:"size,omitempty"`
	Prio  int   `json:"prio,omitempty"`
	Secs  int   `json:"secs,omitempty"`
}

func (o op) String() string {
	tgt := fmt.Sprintf("h%d", o.H)
	if o.H < 0 {
		switch o.Via {
		case "view":
			tgt = "view:" + o.Scope
		case "stored":
			tgt = fmt.Sprintf("stored#%d:%s", o.SH, o.Scope)
		case "derived":
			tgt = fmt.Sprintf("h%d->%s", o.D, o.Scope)
		}
	}
	switch o.K {
	case "open_conn":
		fd := "nofd"
		if o.FD {
			fd = "fd"
		}
		return fmt.Sprintf("OpenConnection(%s,%s,%s)", o.Dir, fd, o.EP)
	case "open_stream":
		return fmt.Sprintf("OpenStream(peer%d,%s)", o.Peer, o.Dir)
	case "set_peer":
		return fmt.Sprintf("%s.SetPeer(peer%d)", tgt, o.Peer)
	case "set_proto":
		return fmt.Sprintf("%s.SetProtocol(proto%d)", tgt, o.Proto)
	case "set_svc":
		return fmt.Sprintf("%s.SetService(svc%d)", tgt, o.Svc)
	case "reserve":
		return fmt.Sprintf("%s.ReserveMemory(%d,prio=%d)", tgt, o.Size, o.Prio)
	case "release":
		return fmt.Sprintf("%s.ReleaseMemory(%d)", tgt, o.Size)
	case "span":
		return tgt + ".BeginSpan()"
	case "done":
		return tgt + ".Done()"
	case "advance":
		return fmt.Sprintf("advance(%ds)", o.Secs)
	}
	return o.K
}

type step struct {
	I    int    `json:"i"`
	Op   string `json:"op"`
	Pred string `json:"predicted"`
	Got  string `json:"got"`
	New  int    `json:"new_holder,omitempty"`
}

// realH is the real object behind a model holder.
type realH struct {
	conn   network.ConnManagementScope
	stream network.StreamManagementScope
	span   network.ResourceScopeSpan
}

func (x *realH) scope() network.ResourceScope {
	switch {
	case x.conn != nil:
		return x.conn
	case x.stream != nil:
		return x.stream
	}
	return x.span
}

func (x *realH) done() {
	switch {
	case x.conn != nil:
		x.conn.Done()
	case x.stream != nil:
		x.stream.Done()
	case x.span != nil:
		x.span.Done()
	}
}

type storedH struct {
	scope string
	gen   int
	real  network.ResourceScope
}

// prediction of the model for one operation.
type prediction struct {
	accept   bool
	limitErr bool   // the refusal must wrap network.ErrResourceLimitExceeded
	either   bool   // statement leaves it open (BeginSpan on a span whose owner was closed)
	class    string // evidence class
	refuser  string // scope kind that refuses first
	f4shape  bool
	apply    func() // model transition on acceptance
	// re-parenting refusal after a successful allow-list transfer: the conn may legitimately stay
	// where it was or have been moved to the standard scopes
	altApply func()
}

func (p prediction) String() string {
	switch {
	case p.either:
		return "either"
	case p.accept:
		return "accept"
	case p.limitErr:
		return "refuse(limit@" + p.refuser + ")"
	}
	return "refuse(" + p.refuser + ")"
}

type seqCase struct {
	r                   *run.R
	caseID              string
	rng                 *rand.Rand
	cfg                 *config
	m                   *model
	mgr                 network.ResourceManager
	real                map[int]*realH
	stored              []storedH
	steps               []step
	cnt                 map[string]int
	start               time.Time
	ticks               int64
	stop                bool // history ended (violation or known finding)
	curOp               string
	refusals, reparents int
}

func (c *seqCase) count(k string) { c.cnt[k]++ }

func (c *seqCase) detail(extra map[string]any) map[string]any {
	d := map[string]any{"config": c.cfg.describe(), "history": c.steps, "model_holders": c.m.describeHolders(),
		"peers": []string{peerIDs[0].String(), peerIDs[1].String(), peerIDs[2].String()}}
	for k, v := range extra {
		d[k] = v
	}
	return d
}

func (c *seqCase) violate(sig, msg string, extra map[string]any) {
	c.stop = true
	c.r.Violation(sig, c.caseID, msg, c.detail(extra))
}

// ---- one case ------------------------------------------------------------------------------

func runSeqCase(t *testing.T, r *run.R, idx int, merge func(map[string]int)) {
	caseID := fmt.Sprintf("seq/%d", idx)
	if !r.Want(caseID) {
		return
	}
	c := &seqCase{r: r, caseID: caseID, rng: r.Rand(3, uint64(idx)), real: map[int]*realH{}, cnt: map[string]int{}}
	c.cfg = genConfig(c.rng)
	c.m = newModel(c.cfg)
	n := 30 + c.rng.IntN(171)
	synctest.Test(t, func(t *testing.T) {
		defer func() {
			if p := recover(); p != nil {
				c.violate("panic:"+c.curOp, fmt.Sprintf("panic during %s: %v", c.curOp, p), map[string]any{"stack": string(debug.Stack())})
			}
		}()
		mgr, err := rcmgr.NewResourceManager(&tableLimiter{c.cfg.Table}, c.cfg.options()...)
		if err != nil {
			c.r.Inconclusive(caseID, "NewResourceManager: "+err.Error())
			return
		}
		c.mgr = mgr
		defer mgr.Close()
		c.start = time.Now()
		// move off the tick grid: all later advances are whole seconds, GC ticks are at start+k*60s
		time.Sleep(500 * time.Millisecond)
		c.curOp = "init"
		c.checkCaps()
		c.checkState("init", false)
		for i := 0; i < n && !c.stop; i++ {
			o := c.genOp()
			c.exec(o)
		}
		if !c.stop {
			c.finish()
		}
	})
	r.Eval(1)
	c.count("seq_histories")
	c.cnt["seq_ops"] += len(c.steps)
	if c.refusals > 0 && c.reparents > 0 {
		r.Nontrivial(caseID + "/" + fmt.Sprint(c.steps))
		c.count("seq_histories_nontrivial")
	}
	if idx < 3 && !c.stop {
		s := c.steps
		if len(s) > 25 {
			s = s[:25]
		}
		r.Sample(map[string]any{"case": caseID, "config": c.cfg.describe(), "first_ops": s, "ops_total": len(c.steps)})
	}
	merge(c.cnt)
}

// ---- generator -----------------------------------------------------------------------------

var sizeVals = []int64{0, 1, 2, 100, 255, 256, 257, 4095, 4096, 4097, 1 << 20, 1 << 61, 1 << 62, 1<<62 + 1, math.MaxInt64 - 4096, math.MaxInt64}
var prioVals = []int{0, 1, 100, 101, 127, 128, 152, 203, 254, 255}

func (c *seqCase) pickPrio() int {
	if c.rng.IntN(3) == 0 {
		return c.rng.IntN(256)
	}
	return prioVals[c.rng.IntN(len(prioVals))]
}

func dirName(d network.Direction) string {
	if d == network.DirInbound {
		return "in"
	}
	return "out"
}

func (c *seqCase) randDir() string {
	if c.rng.IntN(2) == 0 {
		return "in"
	}
	return "out"
}

// target of a memory/span operation
type target struct {
	h     *holder // model holder (direct holder for View* scopes)
	o     op      // partially filled
	stale bool    // stored handle of a collected scope generation
}

// pickTarget chooses a scope to reserve on / begin a span on.
func (c *seqCase) pickTarget(allowDead bool) (target, bool) {
	m := c.m
	for try := 0; try < 8; try++ {
		switch k := c.rng.IntN(100); {
		case k < 50: // conn / stream / span handle
			var cand []*holder
			for _, h := range m.holders {
				if h.Kind == kDirect {
					continue
				}
				if h.dead() && !allowDead {
					continue
				}
				cand = append(cand, h)
			}
			if len(cand) == 0 {
				continue
			}
			// prefer live ones
			h := cand[c.rng.IntN(len(cand))]
			if h.dead() && c.rng.IntN(4) != 0 {
				continue
			}
			return target{h: h, o: op{H: h.ID}}, true
		case k < 75: // fresh View*
			s := c.randViewScope()
			return target{h: m.directHolder(s), o: op{Via: "view", Scope: s, H: -1}}, true
		case k < 85: // stored handle
			if len(c.stored) == 0 {
				continue
			}
			i := c.rng.IntN(len(c.stored))
			sh := c.stored[i]
			stale := sh.gen != m.gen[sh.scope]
			if stale && !allowDead {
				continue
			}
			var h *holder
			if !stale {
				h = m.directHolder(sh.scope)
			}
			return target{h: h, o: op{Via: "stored", Scope: sh.scope, SH: i, H: -1}, stale: stale}, true
		default: // derived from a live conn / stream
			var cand []*holder
			for _, h := range m.holders {
				if h.Done || h.Kind == kSpan || h.Kind == kDirect {
					continue
				}
				if h.Kind == kConn && h.Peer < 0 {
					continue
				}
				cand = append(cand, h)
			}
			if len(cand) == 0 {
				continue
			}
			h := cand[c.rng.IntN(len(cand))]
			s := peerScope(h.Peer)
			if h.Kind == kStream {
				switch x := c.rng.IntN(3); {
				case x == 1 && h.Proto >= 0:
					s = protoScope(h.Proto)
				case x == 2 && h.Svc >= 0:
					s = svcScope(h.Svc)
				}
			}
			return target{h: m.directHolder(s), o: op{Via: "derived", D: h.ID, Scope: s, H: -1}}, true
		}
	}
	return target{}, false
}

func (c *seqCase) randViewScope() string {
	switch k := c.rng.IntN(10); {
	case k < 2:
		return "system"
	case k < 4:
		return "transient"
	case k < 6:
		return svcScope(c.rng.IntN(nSvcs))
	case k < 8:
		return protoScope(c.rng.IntN(nProtos))
	}
	return peerScope(c.rng.IntN(nPeers))
}

// boundarySize: a size that lands at or next to the priority threshold of one constraining scope.
func (c *seqCase) boundarySize(h *holder, prio int) (int64, bool) {
	scopes := c.m.charges(h)
	exp := c.m.expected()
	s := scopes[c.rng.IntN(len(scopes))]
	if strings.HasPrefix(s, "span/") {
		return 0, false
	}
	cur := exp[s]
	if cur == nil {
		cur = newUsage()
	}
	thr := memThreshold(c.m.limitOf(s).Memory, prio)
	sz := new(big.Int).Sub(thr, cur.Mem)
	sz.Add(sz, big.NewInt(int64(c.rng.IntN(3)-1)))
	if sz.Sign() < 0 || !sz.IsInt64() {
		return 0, false
	}
	return sz.Int64(), true
}

func (c *seqCase) genOp() op {
	m := c.m
	for {
		switch k := c.rng.IntN(100); {
		case k < 17:
			ep := c.rng.IntN(len(endpoints))
			return op{K: "open_conn", Dir: c.randDir(), FD: c.rng.IntN(5) < 3, ep: ep, EP: endpoints[ep].Addr, H: -1}
		case k < 27:
			var cand []*holder
			for _, h := range m.holders {
				if h.Kind == kConn && !h.Done && (h.Peer < 0 || c.rng.IntN(6) == 0) {
					cand = append(cand, h)
				}
			}
			if len(cand) == 0 {
				continue
			}
			h := cand[c.rng.IntN(len(cand))]
			p := c.rng.IntN(nPeers)
			// for a peer-bound allow-listed endpoint choose the right peer half of the time
			if h.Allow && c.rng.IntN(2) == 0 {
				for q := 0; q < nPeers; q++ {
					if c.cfg.allowedPeer(q, endpoints[h.EP].IP) {
						p = q
					}
				}
			}
			o := op{K: "set_peer", H: h.ID, Peer: p}
			// The known finding F4 ends a history; keep most histories running past that shape.
			if pr := c.predictSetPeer(h, p); pr.f4shape && c.rng.IntN(4) != 0 {
				continue
			}
			return o
		case k < 41:
			return op{K: "open_stream", Peer: c.rng.IntN(nPeers), Dir: c.randDir(), H: -1}
		case k < 49:
			var cand []*holder
			for _, h := range m.holders {
				if h.Kind == kStream && !h.Done && (h.Proto < 0 || c.rng.IntN(6) == 0) {
					cand = append(cand, h)
				}
			}
			if len(cand) == 0 {
				continue
			}
			return op{K: "set_proto", H: cand[c.rng.IntN(len(cand))].ID, Proto: c.rng.IntN(nProtos)}
		case k < 56:
			var cand []*holder
			for _, h := range m.holders {
				if h.Kind == kStream && !h.Done && ((h.Proto >= 0 && h.Svc < 0) || c.rng.IntN(6) == 0) {
					cand = append(cand, h)
				}
			}
			if len(cand) == 0 {
				continue
			}
			return op{K: "set_svc", H: cand[c.rng.IntN(len(cand))].ID, Svc: c.rng.IntN(nSvcs)}
		case k < 60:
			// steer towards the rare re-parenting shapes: an allow-listed connection whose peer
			// turns out not to be allow-listed is moved to the standard scopes; when those are
			// still full, free something there first.
			var cand []*holder
			for _, h := range m.holders {
				if h.Kind == kConn && !h.Done && h.Allow && h.Peer < 0 {
					cand = append(cand, h)
				}
			}
			if len(cand) == 0 {
				continue
			}
			h := cand[c.rng.IntN(len(cand))]
			p := -1
			for q := 0; q < nPeers; q++ {
				if !c.cfg.allowedPeer(q, endpoints[h.EP].IP) && (p < 0 || c.rng.IntN(2) == 0) {
					p = q
				}
			}
			if p < 0 {
				continue
			}
			if pr := c.predictSetPeer(h, p); !pr.f4shape {
				return op{K: "set_peer", H: h.ID, Peer: p}
			}
			var free []*holder
			for _, x := range m.holders {
				if !x.Done && ((x.Kind == kConn && !x.Allow) || x.Kind == kStream) {
					free = append(free, x)
				}
			}
			if len(free) == 0 {
				continue
			}
			return op{K: "done", H: free[c.rng.IntN(len(free))].ID}
		case k < 74:
			tg, ok := c.pickTarget(true)
			if !ok {
				continue
			}
			o := tg.o
			o.K = "reserve"
			o.Prio = c.pickPrio()
			o.Size = sizeVals[c.rng.IntN(len(sizeVals))]
			if tg.h != nil && !tg.h.dead() && c.rng.IntN(2) == 0 {
				if sz, ok := c.boundarySize(tg.h, o.Prio); ok {
					o.Size = sz
				}
			}
			return o
		case k < 82:
			// release <= what was reserved through that handle
			var cand []*holder
			for _, h := range m.holders {
				if !h.dead() && h.Mem > 0 {
					cand = append(cand, h)
				}
			}
			if len(cand) == 0 {
				continue
			}
			h := cand[c.rng.IntN(len(cand))]
			o := op{K: "release", H: h.ID}
			if h.Kind == kDirect {
				o.H, o.Via, o.Scope = -1, "view", h.Scope
			}
			switch c.rng.IntN(3) {
			case 0:
				o.Size = h.Mem
			case 1:
				o.Size = 1
			default:
				o.Size = c.rng.Int64N(h.Mem) + 1
			}
			return o
		case k < 89:
			tg, ok := c.pickTarget(true)
			if !ok {
				continue
			}
			if tg.h != nil && tg.h.depth() >= 3 {
				continue
			}
			o := tg.o
			o.K = "span"
			return o
		case k < 96:
			var cand []*holder
			for _, h := range m.holders {
				if h.Kind != kDirect {
					cand = append(cand, h)
				}
			}
			if len(cand) == 0 {
				continue
			}
			h := cand[c.rng.IntN(len(cand))]
			if h.Done && c.rng.IntN(3) != 0 {
				continue
			}
			return op{K: "done", H: h.ID}
		case k < 98:
			return op{K: "advance", Secs: []int{3, 30, 61, 125}[c.rng.IntN(4)], H: -1}
		default:
			return op{K: "view_read", H: -1}
		}
	}
}

// ---- predictions ---------------------------------------------------------------------------

func unit(kind hkind, dir string, fd bool) *usage {
	u := newUsage()
	switch {
	case kind == kConn && dir == "in":
		u.CI = 1
	case kind == kConn:
		u.CO = 1
	case dir == "in":
		u.SI = 1
	default:
		u.SO = 1
	}
	if kind == kConn && fd {
		u.FD = 1
	}
	return u
}

func netDir(d string) network.Direction {
	if d == "in" {
		return network.DirInbound
	}
	return network.DirOutbound
}

// OpenConnection: refused when the per-subnet cap is reached; otherwise accounted in transient and
// system; when those refuse and the endpoint is allow-listed, in their allow-listed twins instead.
func (c *seqCase) predictOpenConn(o op) prediction {
	m := c.m
	ep := endpoints[o.ep]
	if ep.IP.IsValid() && m.subnetFull(ep.IP) {
		return prediction{class: "OpenConnection.refuse@subnet-cap", refuser: "subnet-cap"}
	}
	exp := m.expected()
	d := unit(kConn, o.Dir, o.FD)
	mk := func(allow bool) func() {
		return func() {
			h := m.newHolder(kConn)
			h.Dir, h.FD, h.EP, h.Allow = netDir(o.Dir), o.FD, o.ep, allow
		}
	}
	std := []string{"conn/new", "transient", "system"}
	k := m.firstRefusing(exp, std, d, -1)
	if k < 0 {
		return prediction{accept: true, class: "OpenConnection.accept", apply: mk(false)}
	}
	if ep.IP.IsValid() && c.cfg.allowed(ep.IP) {
		al := []string{"conn/new", "altransient", "alsystem"}
		k2 := m.firstRefusing(exp, al, d, -1)
		if k2 < 0 {
			return prediction{accept: true, class: "OpenConnection.accept-allowlisted/std@" + scopeKind(std[k]), apply: mk(true)}
		}
		return prediction{limitErr: true, class: "OpenConnection.refuse/al@" + scopeKind(al[k2]), refuser: scopeKind(al[k2])}
	}
	return prediction{limitErr: true, class: "OpenConnection.refuse@" + scopeKind(std[k]), refuser: scopeKind(std[k])}
}

func (c *seqCase) predictOpenStream(o op) prediction {
	m := c.m
	scopes := []string{"stream/new", peerScope(o.Peer), "transient", "system"}
	k := m.firstRefusing(m.expected(), scopes, unit(kStream, o.Dir, false), -1)
	if k >= 0 {
		return prediction{limitErr: true, class: "OpenStream.refuse@" + scopeKind(scopes[k]), refuser: scopeKind(scopes[k])}
	}
	return prediction{accept: true, class: "OpenStream.accept", apply: func() {
		h := m.newHolder(kStream)
		h.Dir, h.Peer = netDir(o.Dir), o.Peer
	}}
}

// SetPeer: the connection's whole stat moves from the transient scope to the peer scope. An
// allow-listed connection whose (peer, address) is not on the allow list is first moved to the
// standard transient and system scopes. A refused step leaves it charged exactly once.
func (c *seqCase) predictSetPeer(h *holder, p int) prediction {
	m := c.m
	if h.Peer >= 0 {
		return prediction{class: "SetPeer.refuse@already-attached", refuser: "already-attached"}
	}
	exp := m.expected()
	get := func(s string) *usage {
		if u := exp[s]; u != nil {
			return u
		}
		return newUsage()
	}
	S := m.total(h)
	transfer := h.Allow && !c.cfg.allowedPeer(p, endpoints[h.EP].IP)
	if transfer {
		for _, s := range []string{"system", "transient"} {
			if exceeds(m.limitOf(s), get(s), S, -2) {
				return prediction{limitErr: true, f4shape: true, class: "SetPeer.transfer-refused@" + s, refuser: s}
			}
		}
	}
	ps := peerScope(p)
	if exceeds(m.limitOf(ps), get(ps), S, -2) {
		pr := prediction{limitErr: true, class: "SetPeer.refuse@peer", refuser: "peer"}
		if transfer {
			pr.class = "SetPeer.transfer-ok-refuse@peer"
			pr.altApply = func() { h.Allow = false }
		}
		return pr
	}
	cl := "SetPeer.accept"
	if transfer {
		cl = "SetPeer.accept-after-transfer"
	} else if h.Allow {
		cl = "SetPeer.accept-allowlisted"
	}
	return prediction{accept: true, class: cl, apply: func() {
		if transfer {
			h.Allow = false
		}
		h.Peer = p
	}}
}

// SetProtocol: the stream's whole stat is additionally charged to the protocol scope and to the
// protocol's per-peer scope; the transient constraint is dropped.
func (c *seqCase) predictSetProto(h *holder, x int) prediction {
	m := c.m
	if h.Proto >= 0 {
		return prediction{class: "SetProtocol.refuse@already-attached", refuser: "already-attached"}
	}
	exp := m.expected()
	S := m.total(h)
	for _, s := range []string{protoScope(x), protoPeerScope(x, h.Peer)} {
		cur := exp[s]
		if cur == nil {
			cur = newUsage()
		}
		if exceeds(m.limitOf(s), cur, S, -2) {
			return prediction{limitErr: true, class: "SetProtocol.refuse@" + scopeKind(s), refuser: scopeKind(s)}
		}
	}
	return prediction{accept: true, class: "SetProtocol.accept", apply: func() { h.Proto = x }}
}

// SetService: additionally charged to the service scope and the service's per-peer scope.
func (c *seqCase) predictSetSvc(h *holder, sv int) prediction {
	m := c.m
	if h.Svc >= 0 {
		return prediction{class: "SetService.refuse@already-attached", refuser: "already-attached"}
	}
	if h.Proto < 0 {
		return prediction{class: "SetService.refuse@no-protocol", refuser: "no-protocol"}
	}
	exp := m.expected()
	S := m.total(h)
	for _, s := range []string{svcScope(sv), svcPeerScope(sv, h.Peer)} {
		cur := exp[s]
		if cur == nil {
			cur = newUsage()
		}
		if exceeds(m.limitOf(s), cur, S, -2) {
			return prediction{limitErr: true, class: "SetService.refuse@" + scopeKind(s), refuser: scopeKind(s)}
		}
	}
	return prediction{accept: true, class: "SetService.accept", apply: func() { h.Svc = sv }}
}

// ReserveMemory: takes effect in every scope the holder is charged to, or in none.
func (c *seqCase) predictReserve(tg target, size int64, prio int) prediction {
	m := c.m
	if tg.stale || tg.h.dead() {
		return prediction{class: "ReserveMemory.refuse@closed", refuser: "closed"}
	}
	h := tg.h
	scopes := m.charges(h)
	d := newUsage()
	d.Mem.SetInt64(size)
	k := m.firstRefusing(m.expected(), scopes, d, prio)
	if k >= 0 {
		return prediction{limitErr: true, class: "ReserveMemory." + m.shape(h) + ".refuse@" + scopeKind(scopes[k]), refuser: scopeKind(scopes[k])}
	}
	return prediction{accept: true, class: "ReserveMemory." + m.shape(h) + ".accept", apply: func() { h.Mem += size }}
}

// ---- execution -----------------------------------------------------------------------------

func errStr(err error) string {
	if err == nil {
		return "ok"
	}
	s := "error: " + err.Error()
	if errors.Is(err, network.ErrResourceLimitExceeded) {
		s += " [limit-exceeded]"
	}
	return s
}

// resolve returns the real scope for a direct-scope operation and runs f on it (inside the View*
// callback for via=view).
func (c *seqCase) withDirect(o op, f func(s network.ResourceScope)) {
	switch o.Via {
	case "view":
		c.view(o.Scope, true, f)
	case "stored":
		f(c.stored[o.SH].real)
	case "derived":
		x := c.real[o.D]
		var s network.ResourceScope
		switch scopeKind(o.Scope) {
		case "peer":
			if x.conn != nil {
				s = x.conn.PeerScope()
			} else {
				s = x.stream.PeerScope()
			}
		case "proto":
			s = x.stream.ProtocolScope()
		case "svc":
			s = x.stream.ServiceScope()
		}
		f(s)
	}
}

// view calls the public View* function for a model scope name. keep stores the handle for later
// (possibly stale) use now and then.
func (c *seqCase) view(scope string, keep bool, f func(s network.ResourceScope)) {
	var a int
	g := func(s network.ResourceScope) error {
		if keep && c.rng.IntN(4) == 0 && len(c.stored) < 12 {
			c.stored = append(c.stored, storedH{scope: scope, gen: c.m.gen[scope], real: s})
		}
		f(s)
		return nil
	}
	switch scopeKind(scope) {
	case "system":
		c.mgr.ViewSystem(g)
	case "transient":
		c.mgr.ViewTransient(g)
	case "svc":
		fmt.Sscanf(scope, "svc/%d", &a)
		c.mgr.ViewService(svcNames[a], func(s network.ServiceScope) error { return g(s) })
	case "proto":
		fmt.Sscanf(scope, "proto/%d", &a)
		c.mgr.ViewProtocol(protoIDs[a], func(s network.ProtocolScope) error { return g(s) })
	case "peer":
		fmt.Sscanf(scope, "peer/%d", &a)
		c.mgr.ViewPeer(peerIDs[a], func(s network.PeerScope) error { return g(s) })
	default:
		panic("view " + scope)
	}
}

// judge compares the outcome with the prediction; returns false when the history must stop.
func (c *seqCase) judge(o op, pr prediction, err error) bool {
	kind := opName(o)
	c.count("class/" + pr.class)
	switch {
	case pr.either:
		return true
	case pr.accept && err != nil:
		c.violate(kind+":refused-although-within-limits", fmt.Sprintf("%s was refused (%v) although no constraining scope would exceed its limit", kind, err), nil)
		return false
	case !pr.accept && err == nil:
		sig := kind + ":accepted-although-would-exceed:" + pr.refuser
		if pr.refuser == "subnet-cap" {
			sig = kind + ":accepted-above-subnet-cap"
		}
		c.violate(sig, fmt.Sprintf("%s was accepted although %s refuses it", kind, pr.refuser), nil)
		return false
	case pr.limitErr && !errors.Is(err, network.ErrResourceLimitExceeded):
		c.violate(kind+":refusal-does-not-wrap-ErrResourceLimitExceeded:"+pr.refuser, fmt.Sprintf("%s refused by the limit of %s with an error that does not wrap the sentinel: %v", kind, pr.refuser, err), nil)
		return false
	}
	if !pr.accept {
		c.refusals++
		if pr.limitErr {
			c.count("refusals_limit")
		} else {
			c.count("refusals_other")
		}
	}
	return true
}

func opName(o op) string {
	switch o.K {
	case "open_conn":
		return "OpenConnection"
	case "set_peer":
		return "SetPeer"
	case "open_stream":
		return "OpenStream"
	case "set_proto":
		return "SetProtocol"
	case "set_svc":
		return "SetService"
	case "reserve":
		return "ReserveMemory"
	case "release":
		return "ReleaseMemory"
	case "span":
		return "BeginSpan"
	case "done":
		return "Done"
	case "advance":
		return "GC"
	case "view_read":
		return "View"
	}
	return o.K
}

func (c *seqCase) exec(o op) {
	m := c.m
	c.curOp = opName(o)
	st := step{I: len(c.steps), Op: o.String()}
	nHolders := len(m.holders)
	record := func(pr prediction, err error) {
		st.Pred, st.Got = pr.String(), errStr(err)
		if len(m.holders) > nHolders {
			st.New = len(m.holders) - 1
		}
		c.steps = append(c.steps, st)
	}
	refused := false
	switch o.K {
	case "open_conn":
		pr := c.predictOpenConn(o)
		cs, err := c.mgr.OpenConnection(netDir(o.Dir), o.FD, endpoints[o.ep].maddr)
		if pr.accept && err == nil {
			pr.apply()
			c.real[len(m.holders)-1] = &realH{conn: cs}
		}
		record(pr, err)
		if !c.judge(o, pr, err) {
			return
		}
		refused = err != nil
	case "open_stream":
		pr := c.predictOpenStream(o)
		ss, err := c.mgr.OpenStream(peerIDs[o.Peer], netDir(o.Dir))
		if pr.accept && err == nil {
			pr.apply()
			c.real[len(m.holders)-1] = &realH{stream: ss}
		}
		record(pr, err)
		if !c.judge(o, pr, err) {
			return
		}
		refused = err != nil
	case "set_peer":
		h := m.holders[o.H]
		pr := c.predictSetPeer(h, o.Peer)
		err := c.real[o.H].conn.SetPeer(peerIDs[o.Peer])
		if pr.accept && err == nil {
			pr.apply()
			c.reparents++
		}
		record(pr, err)
		if !c.judge(o, pr, err) {
			return
		}
		refused = err != nil
		if pr.f4shape {
			c.count("f4_shape_reached")
			// Known finding F4: the refused transfer released the allow-listed scopes without
			// charging the standard ones: the open connection is charged nowhere.
			if c.matchesUncharged(h) {
				c.count("f4_seen")
				c.r.Violation(sigF4, c.caseID, "SetPeer on an allow-listed connection with a peer that is not allow-listed for its address was refused by the standard "+pr.refuser+" scope and left the open connection charged in no scope", c.detail(nil))
				c.stop = true // the real connection now holds nothing anywhere: end this history
				return
			}
		}
		if pr.altApply != nil && err != nil {
			// statement: "charged exactly once in a consistent set of scopes": either still in
			// the allow-listed pair or moved to the standard pair. Adopt the one observed.
			if !c.stateMatches() {
				pr.altApply()
				if c.stateMatches() {
					c.count("setpeer_refused_conn_moved_to_standard")
				}
			}
		}
	case "set_proto":
		h := m.holders[o.H]
		pr := c.predictSetProto(h, o.Proto)
		err := c.real[o.H].stream.SetProtocol(protoIDs[o.Proto])
		if pr.accept && err == nil {
			pr.apply()
			c.reparents++
		}
		record(pr, err)
		if !c.judge(o, pr, err) {
			return
		}
		refused = err != nil
	case "set_svc":
		h := m.holders[o.H]
		pr := c.predictSetSvc(h, o.Svc)
		err := c.real[o.H].stream.SetService(svcNames[o.Svc])
		if pr.accept && err == nil {
			pr.apply()
			c.reparents++
		}
		record(pr, err)
		if !c.judge(o, pr, err) {
			return
		}
		refused = err != nil
	case "reserve":
		tg := c.targetOf(o)
		pr := c.predictReserve(tg, o.Size, o.Prio)
		var err error
		if o.H >= 0 {
			err = c.real[o.H].scope().ReserveMemory(int(o.Size), uint8(o.Prio))
		} else {
			c.withDirect(o, func(s network.ResourceScope) { err = s.ReserveMemory(int(o.Size), uint8(o.Prio)) })
		}
		if pr.accept && err == nil {
			pr.apply()
		}
		record(pr, err)
		if !c.judge(o, pr, err) {
			return
		}
		refused = err != nil
	case "release":
		var h *holder
		if o.H >= 0 {
			h = m.holders[o.H]
			c.real[o.H].scope().ReleaseMemory(int(o.Size))
		} else {
			h = m.directHolder(o.Scope)
			c.withDirect(o, func(s network.ResourceScope) { s.ReleaseMemory(int(o.Size)) })
		}
		h.Mem -= o.Size
		c.count("class/ReleaseMemory." + m.shape(h))
		record(prediction{accept: true}, nil)
	case "span":
		tg := c.targetOf(o)
		var sp network.ResourceScopeSpan
		var err error
		if o.H >= 0 {
			sp, err = c.real[o.H].scope().BeginSpan()
		} else {
			c.withDirect(o, func(s network.ResourceScope) { sp, err = s.BeginSpan() })
		}
		var pr prediction
		switch {
		case tg.stale || tg.h.Done:
			pr = prediction{class: "BeginSpan.refuse@closed", refuser: "closed"}
		case tg.h.dead():
			// the span itself is open but its owner is gone: the statement does not say
			pr = prediction{either: true, class: "BeginSpan.on-orphan"}
		default:
			pr = prediction{accept: true, class: "BeginSpan." + m.shape(tg.h)}
		}
		if err == nil && (pr.accept || pr.either) {
			h := m.newHolder(kSpan)
			h.Parent = tg.h
			c.real[h.ID] = &realH{span: sp}
		}
		record(pr, err)
		if !c.judge(o, pr, err) {
			return
		}
		refused = err != nil
	case "done":
		h := m.holders[o.H]
		c.real[o.H].done()
		cl := "Done." + []string{"conn", "stream", "span"}[h.Kind]
		switch {
		case h.Done:
			cl += ".repeated"
		case h.dead():
			cl += ".owner-already-closed"
		default:
			if len(c.liveChildren(h)) > 0 {
				cl += ".with-open-spans"
			}
		}
		c.count("class/" + cl)
		h.Done = true
		record(prediction{accept: true}, nil)
	case "advance":
		time.Sleep(time.Duration(o.Secs) * time.Second)
		synctest.Wait()
		record(prediction{accept: true}, nil)
		t := int64(time.Since(c.start) / time.Minute)
		if t > c.ticks {
			c.ticks = t
			gone := m.gcTick()
			c.count("gc_ticks")
			c.cnt["gc_scopes_predicted_collected"] += len(gone)
			if !c.checkCollected(gone) {
				return
			}
		}
	case "view_read":
		record(prediction{accept: true}, nil)
		if !c.viewRead() {
			return
		}
	}
	c.checkState(opName(o), refused)
}

func (c *seqCase) liveChildren(h *holder) []*holder {
	var out []*holder
	for _, x := range c.m.holders {
		if x.Kind == kSpan && x.Parent == h && !x.dead() {
			out = append(out, x)
		}
	}
	return out
}

func (c *seqCase) targetOf(o op) target {
	if o.H >= 0 {
		return target{h: c.m.holders[o.H]}
	}
	if o.Via == "stored" {
		sh := c.stored[o.SH]
		if sh.gen != c.m.gen[sh.scope] {
			return target{stale: true}
		}
	}
	return target{h: c.m.directHolder(o.Scope)}
}

// ---- end of history ------------------------------------------------------------------------

// finish releases everything in random order: "when the last holder is released every scope reads
// zero", then lets the collector run: unused peer and protocol scopes are gone.
func (c *seqCase) finish() {
	m := c.m
	var open []*holder
	for _, h := range m.holders {
		if h.Kind != kDirect && !h.Done {
			open = append(open, h)
		}
	}
	c.rng.Shuffle(len(open), func(i, j int) { open[i], open[j] = open[j], open[i] })
	for _, h := range open {
		if c.stop {
			return
		}
		c.exec(op{K: "done", H: h.ID})
	}
	for _, s := range sortedKeys(m.direct) {
		h := m.direct[s]
		if c.stop {
			return
		}
		if h.Done || h.Mem == 0 {
			continue
		}
		// reservations on peer/protocol scopes are left to the collector half of the time
		if k := scopeKind(s); (k == "peer" || k == "proto") && c.rng.IntN(2) == 0 {
			c.count("final_direct_reservation_left_to_gc")
			continue
		}
		c.exec(op{K: "release", H: -1, Via: "view", Scope: s, Size: h.Mem})
	}
	if c.stop {
		return
	}
	c.curOp = "final"
	c.exec(op{K: "advance", Secs: 61, H: -1})
	if c.stop {
		return
	}
	// nothing is held any more
	for s, u := range m.expected() {
		if !u.isZero() {
			panic("model residue in " + s + ": " + u.String())
		}
	}
	c.checkState("final", false)
	if !c.stop {
		c.count("seq_histories_completed_zero")
	}
}
