package c03

import (
	"fmt"
	"math"
	"sync"
	"testing"
	"testing/synctest"
	"time"

	"github.com/libp2p/go-libp2p/core/network"
	"github.com/libp2p/go-libp2p/core/peer"
	"github.com/libp2p/go-libp2p/core/protocol"
	rcmgr "github.com/libp2p/go-libp2p/p2p/host/resource-manager"
	"github.com/libp2p/go-libp2p/x/rate"
	ma "github.com/multiformats/go-multiaddr"
)

type lim struct{ all rcmgr.BaseLimit }

func (l *lim) GetSystemLimits() rcmgr.Limit                   { return l.all }
func (l *lim) GetTransientLimits() rcmgr.Limit                { return l.all }
func (l *lim) GetAllowlistedSystemLimits() rcmgr.Limit        { return l.all }
func (l *lim) GetAllowlistedTransientLimits() rcmgr.Limit     { return l.all }
func (l *lim) GetServiceLimits(string) rcmgr.Limit            { return l.all }
func (l *lim) GetServicePeerLimits(string) rcmgr.Limit        { return l.all }
func (l *lim) GetProtocolLimits(protocol.ID) rcmgr.Limit      { return l.all }
func (l *lim) GetProtocolPeerLimits(protocol.ID) rcmgr.Limit  { return l.all }
func (l *lim) GetPeerLimits(peer.ID) rcmgr.Limit              { return l.all }
func (l *lim) GetStreamLimits(peer.ID) rcmgr.Limit            { return l.all }
func (l *lim) GetConnLimits() rcmgr.Limit                     { return l.all }

func TestProbe(t *testing.T) {
	unl := rcmgr.BaseLimit{Streams: math.MaxInt, StreamsInbound: math.MaxInt, StreamsOutbound: math.MaxInt, Conns: math.MaxInt, ConnsInbound: math.MaxInt, ConnsOutbound: math.MaxInt, FD: math.MaxInt, Memory: math.MaxInt64}
	var wg sync.WaitGroup
	for i := 0; i < 4; i++ {
		wg.Add(1)
		go func() {
			defer wg.Done()
			synctest.Test(t, func(t *testing.T) {
				m, err := rcmgr.NewResourceManager(&lim{unl}, rcmgr.WithMetricsDisabled(), rcmgr.WithConnRateLimiters(&rate.Limiter{}),
					rcmgr.WithLimitPerSubnet([]rcmgr.ConnLimitPerSubnet{{PrefixLength: 32, ConnCount: 2}, {PrefixLength: 24, ConnCount: 3}}, []rcmgr.ConnLimitPerSubnet{{PrefixLength: 56, ConnCount: 2}}),
					rcmgr.WithNetworkPrefixLimit([]rcmgr.NetworkPrefixLimit{}, []rcmgr.NetworkPrefixLimit{}))
				if err != nil {
					t.Fatal(err)
				}
				defer m.Close()
				time.Sleep(500 * time.Millisecond)
				c, err := m.OpenConnection(network.DirInbound, true, ma.StringCast("/ip4/1.2.3.4/tcp/1"))
				if err != nil {
					t.Fatal(err)
				}
				c6, err := m.OpenConnection(network.DirInbound, true, ma.StringCast("/ip6/2001:db8::1/tcp/1"))
				if err != nil {
					t.Fatal(err)
				}
				_ = c6
				if i == 0 {
					st, _ := rcmgr.VerifDump(m)
					fmt.Printf("v4=%v v6=%v\n", st.SubnetV4, st.SubnetV6)
					// overflow probe
					e1 := c.ReserveMemory(1<<62, 255)
					e2 := c.ReserveMemory(1<<62, 255)
					fmt.Printf("overflow: e1=%v e2=%v stat=%+v\n", e1, e2, c.Stat())
					st, _ = rcmgr.VerifDump(m)
					fmt.Printf("system=%+v\n", st.System.Stat)
				}
				m.ViewPeer(peer.ID("A"), func(s network.PeerScope) error { return s.ReserveMemory(10, 255) })
				st, _ := rcmgr.VerifDump(m)
				_, okb := st.Peers[peer.ID("A")]
				time.Sleep(60 * time.Second)
				synctest.Wait()
				st, _ = rcmgr.VerifDump(m)
				_, oka := st.Peers[peer.ID("A")]
				if i == 0 {
					fmt.Printf("peer before=%v after=%v sysmem=%d now=%v\n", okb, oka, st.System.Stat.Memory, time.Now())
				}
			})
		}()
	}
	wg.Wait()
}
