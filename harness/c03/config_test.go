package c03

import (
	"crypto/ed25519"
	"fmt"
	"math"
	"math/rand/v2"
	"net/netip"

	"github.com/libp2p/go-libp2p/core/crypto"
	"github.com/libp2p/go-libp2p/core/peer"
	"github.com/libp2p/go-libp2p/core/protocol"
	rcmgr "github.com/libp2p/go-libp2p/p2p/host/resource-manager"
	"github.com/libp2p/go-libp2p/x/rate"
	ma "github.com/multiformats/go-multiaddr"
)

// ---- universe -------------------------------------------------------------------------------

const (
	nPeers  = 3
	nProtos = 2
	nSvcs   = 2
)

var (
	peerIDs  [nPeers]peer.ID
	protoIDs = [nProtos]protocol.ID{"/verif/alpha/1", "/verif/beta/1"}
	svcNames = [nSvcs]string{"svc-a", "svc-b"}
)

func init() {
	for i := range peerIDs {
		seed := make([]byte, ed25519.SeedSize)
		seed[0] = byte(i + 1)
		priv := ed25519.NewKeyFromSeed(seed)
		pk, err := crypto.UnmarshalEd25519PublicKey(priv.Public().(ed25519.PublicKey))
		if err != nil {
			panic(err)
		}
		id, err := peer.IDFromPublicKey(pk)
		if err != nil {
			panic(err)
		}
		peerIDs[i] = id
	}
}

func peerIndex(p peer.ID) int {
	for i, q := range peerIDs {
		if p == q {
			return i
		}
	}
	return -1
}
func protoIndex(p protocol.ID) int {
	for i, q := range protoIDs {
		if p == q {
			return i
		}
	}
	return -1
}
func svcIndex(s string) int {
	for i, q := range svcNames {
		if s == q {
			return i
		}
	}
	return -1
}

// endpoint is one remote address of the universe.
type endpoint struct {
	Class string     // plain4 | alnet4 | alpeer4 | plain6 | alnet6 | noip
	Addr  string     // multiaddr text
	IP    netip.Addr // invalid for noip
	maddr ma.Multiaddr
}

func mkEP(class, addr, ip string) endpoint {
	e := endpoint{Class: class, Addr: addr, maddr: ma.StringCast(addr)}
	if ip != "" {
		e.IP = netip.MustParseAddr(ip)
	}
	return e
}

// The endpoint universe is fixed; what varies per case is which of them are allow-listed and the caps.
var endpoints = []endpoint{
	mkEP("plain4", "/ip4/10.0.0.1/tcp/4001", "10.0.0.1"),
	mkEP("plain4", "/ip4/10.0.0.1/udp/4001/quic-v1", "10.0.0.1"),
	mkEP("plain4", "/ip4/10.0.0.2/tcp/4001", "10.0.0.2"),
	mkEP("plain4", "/ip4/10.0.1.1/tcp/4001", "10.0.1.1"),
	mkEP("alnet4", "/ip4/172.16.5.1/tcp/4001", "172.16.5.1"),
	mkEP("alnet4", "/ip4/172.16.5.2/udp/4001/quic-v1", "172.16.5.2"),
	mkEP("alpeer4", "/ip4/192.168.7.7/tcp/4001", "192.168.7.7"),
	mkEP("alpeer4", "/ip4/192.168.8.9/tcp/4001", "192.168.8.9"),
	mkEP("plain6", "/ip6/2001:db8:1::1/tcp/4001", "2001:db8:1::1"),
	mkEP("plain6", "/ip6/2001:db8:1::2/udp/4001/quic-v1", "2001:db8:1::2"),
	mkEP("plain6", "/ip6/2001:db8:1:100::1/tcp/4001", "2001:db8:1:100::1"),
	mkEP("alnet6", "/ip6/2001:db8:aa::5/tcp/4001", "2001:db8:aa::5"),
	mkEP("noip", "/dns4/example.com/tcp/4001", ""),
	mkEP("noip", "/dns6/example.org/udp/4001/quic-v1", ""),
}

// ---- limit tables ---------------------------------------------------------------------------

// table is the complete limit configuration handed to the manager through our own Limiter.
// rcmgr.BaseLimit is used as the Limit value, so the getters in limit.go are part of what runs,
// while the model reads the struct fields directly.
type table struct {
	System, Transient, AlSystem, AlTransient rcmgr.BaseLimit
	Svc, SvcPeer                             [nSvcs]rcmgr.BaseLimit
	Proto, ProtoPeer                         [nProtos]rcmgr.BaseLimit
	Peer                                     [nPeers]rcmgr.BaseLimit
	Stream, Conn                             rcmgr.BaseLimit
}

var unlimited = rcmgr.BaseLimit{
	Streams: math.MaxInt, StreamsInbound: math.MaxInt, StreamsOutbound: math.MaxInt,
	Conns: math.MaxInt, ConnsInbound: math.MaxInt, ConnsOutbound: math.MaxInt,
	FD: math.MaxInt, Memory: math.MaxInt64,
}

// tableLimiter implements the public rcmgr.Limiter interface over a table.
type tableLimiter struct{ t *table }

var _ rcmgr.Limiter = (*tableLimiter)(nil)

func (l *tableLimiter) GetSystemLimits() rcmgr.Limit               { return l.t.System }
func (l *tableLimiter) GetTransientLimits() rcmgr.Limit            { return l.t.Transient }
func (l *tableLimiter) GetAllowlistedSystemLimits() rcmgr.Limit    { return l.t.AlSystem }
func (l *tableLimiter) GetAllowlistedTransientLimits() rcmgr.Limit { return l.t.AlTransient }
func (l *tableLimiter) GetServiceLimits(s string) rcmgr.Limit {
	if i := svcIndex(s); i >= 0 {
		return l.t.Svc[i]
	}
	return unlimited
}
func (l *tableLimiter) GetServicePeerLimits(s string) rcmgr.Limit {
	if i := svcIndex(s); i >= 0 {
		return l.t.SvcPeer[i]
	}
	return unlimited
}
func (l *tableLimiter) GetProtocolLimits(p protocol.ID) rcmgr.Limit {
	if i := protoIndex(p); i >= 0 {
		return l.t.Proto[i]
	}
	return unlimited
}
func (l *tableLimiter) GetProtocolPeerLimits(p protocol.ID) rcmgr.Limit {
	if i := protoIndex(p); i >= 0 {
		return l.t.ProtoPeer[i]
	}
	return unlimited
}
func (l *tableLimiter) GetPeerLimits(p peer.ID) rcmgr.Limit {
	if i := peerIndex(p); i >= 0 {
		return l.t.Peer[i]
	}
	return unlimited
}
func (l *tableLimiter) GetStreamLimits(peer.ID) rcmgr.Limit { return l.t.Stream }
func (l *tableLimiter) GetConnLimits() rcmgr.Limit          { return l.t.Conn }

var (
	countVals = []int{0, 1, 2, 3, math.MaxInt}
	memVals   = []int64{0, 1, 255, 256, 4096, 1 << 62, math.MaxInt64}
)

func pickW[T any](rng *rand.Rand, vals []T, w []int) T {
	tot := 0
	for _, x := range w {
		tot += x
	}
	k := rng.IntN(tot)
	for i, x := range w {
		if k < x {
			return vals[i]
		}
		k -= x
	}
	return vals[len(vals)-1]
}

// genLimit draws one scope's limits. tight in 0..3: 0 = all unlimited, 3 = very tight.
// Every field is drawn independently, so direction limits can be tighter or looser than totals.
func genLimit(rng *rand.Rand, tight int) rcmgr.BaseLimit {
	if tight == 0 {
		return unlimited
	}
	cw := [][]int{nil, {1, 6, 10, 12, 71}, {4, 16, 20, 20, 40}, {10, 25, 25, 20, 20}}[tight]
	mw := [][]int{nil, {1, 2, 5, 5, 17, 10, 60}, {3, 5, 12, 12, 28, 12, 28}, {6, 8, 18, 18, 25, 10, 15}}[tight]
	c := func() int { return pickW(rng, countVals, cw) }
	return rcmgr.BaseLimit{
		Streams: c(), StreamsInbound: c(), StreamsOutbound: c(),
		Conns: c(), ConnsInbound: c(), ConnsOutbound: c(), FD: c(),
		Memory: pickW(rng, memVals, mw),
	}
}

// genTable draws a table. One scope family (the "focus") is tight, outer families are looser, so
// that over many cases every scope of every reservation chain is the refusing one in some case.
func genTable(rng *rand.Rand) *table {
	t := &table{}
	// tightness per family
	fam := make([]int, 11)
	for i := range fam {
		fam[i] = pickW(rng, []int{0, 1, 2, 3}, []int{45, 25, 20, 10})
	}
	focus := rng.IntN(len(fam) + 2)
	if focus < len(fam) {
		fam[focus] = 2 + rng.IntN(2)
	}
	// self scopes (conn/stream) tight only now and then: they make every open fail
	if rng.IntN(4) != 0 {
		if focus != 9 {
			fam[9] = pickW(rng, []int{0, 1}, []int{70, 30})
		}
		if focus != 10 {
			fam[10] = pickW(rng, []int{0, 1}, []int{70, 30})
		}
	}
	t.System = genLimit(rng, fam[0])
	t.Transient = genLimit(rng, fam[1])
	t.AlSystem = genLimit(rng, fam[2])
	t.AlTransient = genLimit(rng, fam[3])
	for i := range t.Svc {
		t.Svc[i] = genLimit(rng, fam[4])
		t.SvcPeer[i] = genLimit(rng, fam[5])
	}
	for i := range t.Proto {
		t.Proto[i] = genLimit(rng, fam[6])
		t.ProtoPeer[i] = genLimit(rng, fam[7])
	}
	for i := range t.Peer {
		t.Peer[i] = genLimit(rng, fam[8])
	}
	t.Stream = genLimit(rng, fam[9])
	t.Conn = genLimit(rng, fam[10])
	// self scopes never block the holder's own unit (a conn scope that cannot hold one conn
	// would make every history empty); their memory and the other fields stay as drawn.
	if rng.IntN(8) != 0 {
		t.Conn.Conns, t.Conn.ConnsInbound, t.Conn.ConnsOutbound = atLeast1(t.Conn.Conns), atLeast1(t.Conn.ConnsInbound), atLeast1(t.Conn.ConnsOutbound)
		t.Conn.FD = atLeast1(t.Conn.FD)
		t.Stream.Streams, t.Stream.StreamsInbound, t.Stream.StreamsOutbound = atLeast1(t.Stream.Streams), atLeast1(t.Stream.StreamsInbound), atLeast1(t.Stream.StreamsOutbound)
	}
	return t
}

func atLeast1(x int) int {
	if x < 1 {
		return 1
	}
	return x
}

// ---- connection caps and allow list ---------------------------------------------------------

type prefixCap struct {
	Prefix netip.Prefix
	Cap    int
}
type subnetCap struct {
	Bits int
	Cap  int
}

// config is everything a manager is built from.
type config struct {
	Table *table

	// allow list
	AllowNets     []netip.Prefix         // any peer
	AllowPeerNets map[int][]netip.Prefix // only that peer (index)
	allowMaddrs   []ma.Multiaddr

	// per-subnet caps as passed to the options (nil = option not given -> library default)
	NetPrefix4, NetPrefix6 []prefixCap
	netPrefixGiven         bool
	Subnet4, Subnet6       []subnetCap
	subnetGiven            bool

	// effective caps the statement speaks about (computed, see effectiveCaps)
	effNP4, effNP6 []prefixCap
	eff4, eff6     []subnetCap
}

func capVal(rng *rand.Rand) int {
	return pickW(rng, []int{1, 2, 3, 5, math.MaxInt}, []int{20, 25, 20, 15, 20})
}

func genConfig(rng *rand.Rand) *config {
	c := &config{Table: genTable(rng), AllowPeerNets: map[int][]netip.Prefix{}}
	// allow list: most cases have one
	if rng.IntN(6) != 0 {
		if rng.IntN(5) != 0 {
			c.AllowNets = append(c.AllowNets, netip.MustParsePrefix("172.16.5.0/24"))
			c.allowMaddrs = append(c.allowMaddrs, ma.StringCast("/ip4/172.16.5.0/ipcidr/24"))
		}
		if rng.IntN(5) != 0 {
			p := rng.IntN(nPeers)
			c.AllowPeerNets[p] = append(c.AllowPeerNets[p], netip.MustParsePrefix("192.168.7.7/32"))
			c.allowMaddrs = append(c.allowMaddrs, ma.StringCast("/ip4/192.168.7.7/p2p/"+peerIDs[p].String()))
		}
		if rng.IntN(3) == 0 {
			p := rng.IntN(nPeers)
			c.AllowPeerNets[p] = append(c.AllowPeerNets[p], netip.MustParsePrefix("192.168.8.0/24"))
			c.allowMaddrs = append(c.allowMaddrs, ma.StringCast("/ip4/192.168.8.0/ipcidr/24/p2p/"+peerIDs[p].String()))
		}
		if rng.IntN(3) == 0 {
			c.AllowNets = append(c.AllowNets, netip.MustParsePrefix("2001:db8:aa::/48"))
			c.allowMaddrs = append(c.allowMaddrs, ma.StringCast("/ip6/2001:db8:aa::/ipcidr/48"))
		}
	}
	if rng.IntN(5) != 0 {
		c.subnetGiven = true
		c.Subnet4 = []subnetCap{{32, capVal(rng)}, {24, capVal(rng)}}
		if rng.IntN(3) == 0 {
			c.Subnet4 = c.Subnet4[:1]
		}
		c.Subnet6 = []subnetCap{{56, capVal(rng)}, {48, capVal(rng)}}
		if rng.IntN(3) == 0 {
			c.Subnet6 = c.Subnet6[1:]
		}
	}
	if rng.IntN(3) != 0 {
		c.netPrefixGiven = true
		c.NetPrefix4 = []prefixCap{}
		c.NetPrefix6 = []prefixCap{}
		if rng.IntN(2) == 0 {
			c.NetPrefix4 = append(c.NetPrefix4, prefixCap{netip.MustParsePrefix("10.0.1.0/24"), capVal(rng)})
		}
		if rng.IntN(3) == 0 {
			// nested prefixes: the more specific one takes precedence
			c.NetPrefix4 = append(c.NetPrefix4, prefixCap{netip.MustParsePrefix("10.0.0.0/16"), capVal(rng)})
		}
		if rng.IntN(3) == 0 {
			c.NetPrefix4 = append(c.NetPrefix4, prefixCap{netip.MustParsePrefix("172.16.5.0/24"), capVal(rng)})
		}
		if rng.IntN(3) == 0 {
			c.NetPrefix6 = append(c.NetPrefix6, prefixCap{netip.MustParsePrefix("2001:db8:1:100::/56"), capVal(rng)})
		}
	}
	c.effectiveCaps()
	return c
}

// effectiveCaps computes "the configured per-subnet cap" of the statement from the options:
// explicit network prefixes (most specific first) win over the per-subnet limits; without the
// option the library's documented default applies (loopback unlimited; /32: 8 for IPv4, /56: 8
// and /48: 64 for IPv6); every allow-listed network that is not bound to a peer and has no
// explicit prefix limit is capped by the allow-listed system scope's connection limit.
func (c *config) effectiveCaps() {
	if c.netPrefixGiven {
		c.effNP4 = append([]prefixCap{}, c.NetPrefix4...)
		c.effNP6 = append([]prefixCap{}, c.NetPrefix6...)
	} else {
		c.effNP4 = []prefixCap{{netip.MustParsePrefix("127.0.0.0/8"), math.MaxInt}}
		c.effNP6 = []prefixCap{{netip.MustParsePrefix("::1/128"), math.MaxInt}}
	}
	if c.subnetGiven {
		c.eff4, c.eff6 = c.Subnet4, c.Subnet6
	} else {
		c.eff4 = []subnetCap{{32, 8}}
		c.eff6 = []subnetCap{{56, 8}, {48, 64}}
	}
	for _, n := range c.AllowNets {
		list := &c.effNP4
		if n.Addr().Is6() {
			list = &c.effNP6
		}
		found := false
		for _, e := range *list {
			if e.Prefix == n {
				found = true
			}
		}
		if !found {
			*list = append(*list, prefixCap{n, c.Table.AlSystem.Conns})
		}
	}
	sortCaps(c.effNP4)
	sortCaps(c.effNP6)
}

// most specific first, stable
func sortCaps(l []prefixCap) {
	for i := 1; i < len(l); i++ {
		for j := i; j > 0 && l[j].Prefix.Bits() > l[j-1].Prefix.Bits(); j-- {
			l[j], l[j-1] = l[j-1], l[j]
		}
	}
}

// allowed: the endpoint's IP is on the allow list for some peer (or any peer).
func (c *config) allowed(ip netip.Addr) bool {
	if !ip.IsValid() {
		return false
	}
	for _, n := range c.AllowNets {
		if n.Contains(ip) {
			return true
		}
	}
	for _, l := range c.AllowPeerNets {
		for _, n := range l {
			if n.Contains(ip) {
				return true
			}
		}
	}
	return false
}

// allowedPeer: the (peer, endpoint) combination is on the allow list.
func (c *config) allowedPeer(p int, ip netip.Addr) bool {
	if !ip.IsValid() {
		return false
	}
	for _, n := range c.AllowNets {
		if n.Contains(ip) {
			return true
		}
	}
	for _, n := range c.AllowPeerNets[p] {
		if n.Contains(ip) {
			return true
		}
	}
	return false
}

func (c *config) options() []rcmgr.Option {
	opts := []rcmgr.Option{
		rcmgr.WithMetricsDisabled(),
		// a zero rate.Limiter never refuses: the time-based connection rate limiter is out of the picture
		rcmgr.WithConnRateLimiters(&rate.Limiter{}),
	}
	if len(c.allowMaddrs) > 0 {
		opts = append(opts, rcmgr.WithAllowlistedMultiaddrs(c.allowMaddrs))
	}
	if c.netPrefixGiven {
		v4 := []rcmgr.NetworkPrefixLimit{}
		for _, e := range c.NetPrefix4 {
			v4 = append(v4, rcmgr.NetworkPrefixLimit{Network: e.Prefix, ConnCount: e.Cap})
		}
		v6 := []rcmgr.NetworkPrefixLimit{}
		for _, e := range c.NetPrefix6 {
			v6 = append(v6, rcmgr.NetworkPrefixLimit{Network: e.Prefix, ConnCount: e.Cap})
		}
		opts = append(opts, rcmgr.WithNetworkPrefixLimit(v4, v6))
	}
	if c.subnetGiven {
		var v4, v6 []rcmgr.ConnLimitPerSubnet
		for _, e := range c.Subnet4 {
			v4 = append(v4, rcmgr.ConnLimitPerSubnet{PrefixLength: e.Bits, ConnCount: e.Cap})
		}
		for _, e := range c.Subnet6 {
			v6 = append(v6, rcmgr.ConnLimitPerSubnet{PrefixLength: e.Bits, ConnCount: e.Cap})
		}
		opts = append(opts, rcmgr.WithLimitPerSubnet(v4, v6))
	}
	return opts
}

// describe renders the configuration for witnesses.
func (c *config) describe() map[string]any {
	lim := func(l rcmgr.BaseLimit) string {
		f := func(x int) string {
			if x == math.MaxInt {
				return "inf"
			}
			return fmt.Sprint(x)
		}
		m := fmt.Sprint(l.Memory)
		if l.Memory == math.MaxInt64 {
			m = "inf"
		}
		return fmt.Sprintf("conns=%s/in%s/out%s fd=%s streams=%s/in%s/out%s mem=%s", f(l.Conns), f(l.ConnsInbound), f(l.ConnsOutbound), f(l.FD), f(l.Streams), f(l.StreamsInbound), f(l.StreamsOutbound), m)
	}
	t := c.Table
	d := map[string]any{
		"system": lim(t.System), "transient": lim(t.Transient), "alsystem": lim(t.AlSystem), "altransient": lim(t.AlTransient),
		"stream": lim(t.Stream), "conn": lim(t.Conn),
	}
	for i := range t.Svc {
		d[fmt.Sprintf("svc/%d", i)] = lim(t.Svc[i])
		d[fmt.Sprintf("svc/%d/peer", i)] = lim(t.SvcPeer[i])
	}
	for i := range t.Proto {
		d[fmt.Sprintf("proto/%d", i)] = lim(t.Proto[i])
		d[fmt.Sprintf("proto/%d/peer", i)] = lim(t.ProtoPeer[i])
	}
	for i := range t.Peer {
		d[fmt.Sprintf("peer/%d", i)] = lim(t.Peer[i])
	}
	var al []string
	for _, a := range c.allowMaddrs {
		al = append(al, a.String())
	}
	return map[string]any{"limits": d, "allowlist": al,
		"network_prefix_caps_v4": fmt.Sprint(c.effNP4), "network_prefix_caps_v6": fmt.Sprint(c.effNP6),
		"subnet_caps_v4": fmt.Sprint(c.eff4), "subnet_caps_v6": fmt.Sprint(c.eff6),
		"network_prefix_option_given": c.netPrefixGiven, "subnet_option_given": c.subnetGiven}
}
