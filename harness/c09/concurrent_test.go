package c09

import (
	"fmt"
	"sync"
	"testing"
	"testing/synctest"
	"time"

	"github.com/libp2p/go-libp2p/p2p/host/peerstore/pstoremem"

	"verif/harness/rig/run"
)

// concurrent is the crash / invariant / race-detector workload: several goroutines write and read the same
// book while the virtual clock runs the store's collector between and during their operations. The
// statement of C09 is about sequential histories, so the only verdicts here are: no panic, the in-memory
// structural invariant holds at every instant it is sampled (it is taken under the book's own lock), reads
// only ever return addresses of the universe in stored form, and after ClearAddrs of every peer at
// quiescence followed by a complete collection the book is empty. Under VERIF_RACE=1 the driver runs this
// with the race detector.
func concurrent(r *run.R, t *testing.T, cases int) {
	cfgs := []storeCfg{
		{Kind: skMem}, {Kind: skMemCapPeer}, {Kind: skMemCapGlobal},
		{Kind: skDS, Cache: 16}, {Kind: skDS, Cache: 1, Lookahead: true}, {Kind: skDS, Cache: 0},
	}
	var mu sync.Mutex
	merged := stats{}
	run.Parallel(cases, 0, func(i int) {
		caseID := fmt.Sprintf("conc%d", i)
		if !r.Want(caseID) || r.TooMany() {
			return
		}
		cfg := cfgs[i%len(cfgs)]
		local := stats{}
		var complaint string
		synctest.Test(t, func(t *testing.T) {
			complaint = concurrentCase(r, i, cfg, local)
		})
		r.Eval(1)
		if complaint != "" {
			r.Violation("concurrent:"+cfg.class()+":"+firstWords(complaint, 3), caseID, complaint, map[string]any{"store": cfg.name(), "case": i})
		}
		mu.Lock()
		for k, v := range local {
			merged[k] += v
		}
		mu.Unlock()
	})
	for k, v := range merged {
		r.Count(k, v)
	}
}

func firstWords(s string, n int) string {
	out := ""
	w := 0
	for _, c := range s {
		if c == ' ' {
			w++
			if w == n {
				break
			}
		}
		out += string(c)
	}
	return out
}

func concurrentCase(r *run.R, i int, cfg storeCfg, st stats) (complaint string) {
	h := &history{GCPurge: 3 * time.Second, GCLook: 6 * time.Second, GCDelay: time.Second}
	base := time.Now().Unix()
	s, err := h.open(cfg, nil, base)
	if err != nil {
		panic(err)
	}
	defer s.closer.Close()
	var cmu sync.Mutex
	complain := func(f string, a ...any) {
		cmu.Lock()
		if complaint == "" {
			complaint = fmt.Sprintf(f, a...)
		}
		cmu.Unlock()
	}
	const workers, opsPer = 4, 50
	var wg sync.WaitGroup
	stop := make(chan struct{})
	var ops sync.Map
	for w := 0; w < workers; w++ {
		wg.Add(1)
		go func() {
			defer wg.Done()
			rng := r.Rand(2, uint64(i), uint64(w))
			n := 0
			for k := 0; k < opsPer; k++ {
				p := pickPeer(rng)
				pid := uni.pids[p]
				switch rng.IntN(10) {
				case 0, 1:
					as := []addrArg{pickForm(rng, p, 10, 10), pickForm(rng, p, 10, 10)}
					s.ab.AddAddrs(pid, uni.maddrs(p, as), pickTTL(rng))
				case 2, 3:
					as := []addrArg{pickForm(rng, p, 10, 10), pickForm(rng, p, 10, 10), pickForm(rng, p, 10, 10)}
					s.ab.SetAddrs(pid, uni.maddrs(p, as), pickTTL(rng))
				case 4:
					s.ab.UpdateAddrs(pid, pickTTL(rng), pickTTL(rng))
				case 5:
					if rng.IntN(4) == 0 {
						s.ab.ClearAddrs(pid)
					}
				case 6:
					var as []addrArg
					for b := 0; b < nBases; b++ {
						if rng.IntN(2) == 0 {
							as = append(as, addrArg{Base: b})
						}
					}
					if _, err := s.ab.ConsumePeerRecord(uni.seal(p, uint64(8+rng.IntN(5)), as), pickTTL(rng)); err != nil {
						complain("ConsumePeerRecord returned error %v under concurrent use", err)
					}
				case 7:
					if _, unknown, _ := basesOf(s.ab.Addrs(pid)); unknown != "" {
						complain("Addrs returned %s under concurrent use", unknown)
					}
					s.ab.GetPeerRecord(pid)
					s.ab.PeersWithAddrs()
				default:
					time.Sleep(time.Duration(1+rng.IntN(20)) * time.Second)
				}
				n++
			}
			ops.Store(w, n)
		}()
	}
	if cfg.Kind != skDS {
		wg.Add(1)
		go func() {
			defer wg.Done()
			for {
				select {
				case <-stop:
					return
				default:
				}
				if err := pstoremem.VerifCheckAddrBook(s.ab); err != nil {
					complain("in-memory structural invariant broken under concurrent use: %v", err)
					return
				}
				st["concurrent_invariant_samples"]++
				time.Sleep(time.Second)
			}
		}()
	}
	// wait for the writers, then stop the sampler
	done := make(chan struct{})
	go func() {
		for w := 0; w < workers; w++ {
			for {
				if _, ok := ops.Load(w); ok {
					break
				}
				time.Sleep(time.Second)
			}
		}
		close(done)
	}()
	<-done
	close(stop)
	wg.Wait()
	synctest.Wait()
	st["concurrent_ops"] += workers * opsPer
	st["concurrent_cases/"+cfg.class()]++
	if cfg.Kind != skDS {
		if err := pstoremem.VerifCheckAddrBook(s.ab); err != nil {
			complain("in-memory structural invariant broken at quiescence after concurrent use: %v", err)
		}
	}
	for _, pid := range uni.pids {
		s.ab.ClearAddrs(pid)
	}
	time.Sleep(3 * time.Minute)
	synctest.Wait()
	for p, pid := range uni.pids {
		if a := s.ab.Addrs(pid); len(a) != 0 {
			complain("after ClearAddrs of every peer at quiescence Addrs(P%d) = %v", p, a)
		}
		if s.ab.GetPeerRecord(pid) != nil {
			complain("after ClearAddrs of every peer at quiescence GetPeerRecord(P%d) != nil", p)
		}
	}
	if l := s.ab.PeersWithAddrs(); len(l) != 0 {
		complain("after ClearAddrs of every peer at quiescence and 3 minutes PeersWithAddrs = %v", l)
	}
	return complaint
}
