package c09

import (
	"bytes"
	"context"
	"crypto/ed25519"
	"errors"
	"fmt"
	"io"
	"sort"
	"strconv"
	"strings"
	"sync"
	"testing/synctest"
	"time"

	ds "github.com/ipfs/go-datastore"
	"github.com/ipfs/go-datastore/query"
	dssync "github.com/ipfs/go-datastore/sync"
	"github.com/libp2p/go-libp2p/core/crypto"
	"github.com/libp2p/go-libp2p/core/peer"
	"github.com/libp2p/go-libp2p/core/peerstore"
	"github.com/libp2p/go-libp2p/core/record"
	"github.com/libp2p/go-libp2p/p2p/host/peerstore/pstoreds"
	"github.com/libp2p/go-libp2p/p2p/host/peerstore/pstoremem"
	ma "github.com/multiformats/go-multiaddr"
)

// ---- fixed universe: 3 peers with keys, 4 base addresses, every /p2p-suffixed form ---------------

type universe struct {
	pids     [nPeers]peer.ID
	privs    [nPeers]crypto.PrivKey
	plain    [nBases]ma.Multiaddr
	suffixed [nBases][nPeers]ma.Multiaddr
	baseOf   map[string]int
}

var baseAddrs = [nBases]string{
	"/ip4/10.0.0.1/tcp/4001",
	"/ip4/10.0.0.2/udp/4001/quic-v1",
	"/ip6/2001:db8::3/tcp/4001",
	"/dns4/d.example/tcp/443/tls/ws",
}

var uni = func() *universe {
	u := &universe{baseOf: map[string]int{}}
	for i := 0; i < nPeers; i++ {
		seed := make([]byte, ed25519.SeedSize)
		copy(seed, fmt.Sprintf("verif-c09-peer-%d", i))
		priv, err := crypto.UnmarshalEd25519PrivateKey(ed25519.NewKeyFromSeed(seed))
		if err != nil {
			panic(err)
		}
		u.privs[i] = priv
		if u.pids[i], err = peer.IDFromPrivateKey(priv); err != nil {
			panic(err)
		}
	}
	for b, s := range baseAddrs {
		u.plain[b] = ma.StringCast(s)
		u.baseOf[string(u.plain[b].Bytes())] = b
		for p := 0; p < nPeers; p++ {
			u.suffixed[b][p] = ma.StringCast(s + "/p2p/" + u.pids[p].String())
		}
	}
	return u
}()

func (u *universe) maddr(p int, a addrArg) ma.Multiaddr {
	switch a.Form {
	case formOwn:
		return u.suffixed[a.Base][p]
	case formForeign:
		return u.suffixed[a.Base][a.Foreign]
	}
	return u.plain[a.Base]
}

func (u *universe) maddrs(p int, as []addrArg) []ma.Multiaddr {
	out := make([]ma.Multiaddr, len(as))
	for i, a := range as {
		out[i] = u.maddr(p, a)
	}
	return out
}

func envKey(p int, seq uint64, as []addrArg) string {
	return fmt.Sprintf("%d/%d/%s", p, seq, argsString(as))
}

// seal returns the signed peer record for (peer, seq, address list).
func (u *universe) seal(p int, seq uint64, as []addrArg) *record.Envelope {
	rec := &peer.PeerRecord{PeerID: u.pids[p], Addrs: u.maddrs(p, as), Seq: seq}
	env, err := record.Seal(rec, u.privs[p])
	if err != nil {
		panic(err)
	}
	return env
}

// envelope seals each distinct record of a history once.
func (x *executor) envelope(p int, seq uint64, as []addrArg) *record.Envelope {
	k := envKey(p, seq, as)
	if e, ok := x.envs[k]; ok {
		return e
	}
	if x.envs == nil {
		x.envs = map[string]*record.Envelope{}
	}
	e := uni.seal(p, seq, as)
	x.envs[k] = e
	return e
}

// recordIdentity is what is compared of a returned envelope: whose it is, its sequence number and the
// addresses it lists.
func recordIdentity(env *record.Envelope) (string, error) {
	r, err := env.Record()
	if err != nil {
		return "", err
	}
	pr, ok := r.(*peer.PeerRecord)
	if !ok {
		return "", fmt.Errorf("not a PeerRecord: %T", r)
	}
	var as []string
	for _, a := range pr.Addrs {
		as = append(as, a.String())
	}
	return fmt.Sprintf("%s seq=%d %v", pr.PeerID, pr.Seq, as), nil
}

// ---- stores -------------------------------------------------------------------------------------

type book interface {
	peerstore.AddrBook
	peerstore.CertifiedAddrBook
}

type liveStore struct {
	cfg    storeCfg
	ab     book
	closer io.Closer
	dstore ds.Batching
	sched  gcSchedule
	cm     *model // capped stores are judged against their own model (relation oracle)
}

func (h *history) open(c storeCfg, dstore ds.Batching, now int64) (*liveStore, error) {
	st := &liveStore{cfg: c, dstore: dstore, sched: h.schedule(c, now)}
	switch c.Kind {
	case skMem, skMemCapPeer, skMemCapGlobal:
		var opts []pstoremem.Option
		if c.Kind == skMemCapPeer {
			opts = append(opts, pstoremem.WithMaxAddressesPerPeer(capPerPeer))
		}
		if c.Kind == skMemCapGlobal {
			// the per-peer cap (default 64) is out of reach with 4 addresses
			opts = append(opts, pstoremem.WithMaxAddresses(capGlobal))
		}
		ps, err := pstoremem.NewPeerstore(opts...)
		if err != nil {
			return nil, err
		}
		st.ab, st.closer = ps, ps
	case skDS:
		o := pstoreds.DefaultOpts()
		o.CacheSize = c.Cache
		o.GCPurgeInterval = h.GCPurge
		o.GCInitialDelay = h.GCDelay
		o.GCLookaheadInterval = 0
		if c.Lookahead {
			o.GCLookaheadInterval = h.GCLook
		}
		if st.dstore == nil {
			st.dstore = &faultDS{Batching: dssync.MutexWrap(ds.NewMapDatastore())}
		}
		ps, err := pstoreds.NewPeerstore(context.Background(), st.dstore, o)
		if err != nil {
			return nil, err
		}
		st.ab, st.closer = ps, ps
	}
	return st, nil
}

// ---- execution ------------------------------------------------------------------------------------

// faultDS fails ONE Put (the one whose index was armed) with an error; everything else goes through.
type faultDS struct {
	ds.Batching
	mu     sync.Mutex
	puts   int
	failAt int // -1 / 0 value with armed=false: no fault
	armed  bool
	fired  bool
}

func (f *faultDS) Put(ctx context.Context, k ds.Key, v []byte) error {
	f.mu.Lock()
	n := f.puts
	f.puts++
	fail := f.armed && n == f.failAt
	if fail {
		f.armed, f.fired = false, true
	}
	f.mu.Unlock()
	if fail {
		return errors.New("verif: injected datastore write failure")
	}
	return f.Batching.Put(ctx, k, v)
}

// arm makes the k-th Put from now on fail (k = 0: the next one); disarm reports whether it fired.
func (f *faultDS) arm(k int) {
	f.mu.Lock()
	f.failAt, f.armed, f.fired = f.puts+k, true, false
	f.mu.Unlock()
}
func (f *faultDS) disarm() bool {
	f.mu.Lock()
	defer f.mu.Unlock()
	f.armed = false
	return f.fired
}

type failure struct {
	Step  int    `json:"step"` // index of the step after which the disagreement was observed (len(steps) = epilogue)
	Store string `json:"store"`
	Class string `json:"class"`
	Obs   string `json:"observable"`
	Msg   string `json:"message"`
}

type stats map[string]int

type executor struct {
	h      *history
	m      *model
	stores []*liveStore
	stepNo int
	st     stats
	fails  []failure
	step   int
	base   int64
	envs   map[string]*record.Envelope
	// evidence bookkeeping
	hadRecordDropped [nPeers]bool
	sawExpiry        bool
	sawGCRequired    bool
	sawReopenLive    bool
	sawAccepted      bool
}

func (x *executor) fail(s *liveStore, obs, format string, args ...any) {
	x.fails = append(x.fails, failure{Step: x.step, Store: s.cfg.name(), Class: s.cfg.class(), Obs: obs, Msg: fmt.Sprintf(format, args...)})
}

func basesString(b []int) string {
	var p []string
	for _, i := range b {
		p = append(p, fmt.Sprintf("A%d", i))
	}
	return "[" + strings.Join(p, ",") + "]"
}

// run executes the history; must be called inside a synctest bubble. Returns the disagreements of
// the first step that had any.
func (x *executor) run() []failure {
	now := time.Now()
	if now.Nanosecond() != 0 {
		panic("bubble does not start on a whole second")
	}
	x.base = now.Unix()
	x.m = newModel(x.base, nPeers)
	for _, c := range x.h.Stores {
		s, err := x.h.open(c, nil, x.base)
		if err != nil {
			panic(err)
		}
		if c.Kind == skMemCapPeer || c.Kind == skMemCapGlobal {
			s.cm = newModel(x.base, nPeers)
		}
		x.stores = append(x.stores, s)
	}
	defer func() {
		for _, s := range x.stores {
			s.closer.Close()
		}
	}()
	synctest.Wait()

	for i, s := range x.h.Steps {
		x.stepNo = i
		x.step = i
		x.apply(s)
		if len(x.fails) > 0 {
			return x.fails
		}
	}
	// epilogue: everything is read; then the clock moves past a complete collection of every store and
	// everything is read again: by then a peer is listed iff it has a live address.
	x.step = len(x.h.Steps)
	x.readAll(everything, "")
	if len(x.fails) > 0 {
		return x.fails
	}
	settle := int64(120)
	if d := int64((x.h.GCDelay + x.h.GCLook + 2*x.h.GCPurge) / time.Second); d > settle {
		settle = d
	}
	x.advance(settle)
	x.readAll(everything, "")
	if len(x.fails) == 0 {
		x.gcIndexAudit()
	}
	return x.fails
}

// gcIndexAudit looks at the datastore itself at the end of a history ("memory stays bounded"): the
// lookahead collector's time index (/peers/gc/addrs/<unix time>/<peer>) must not keep entries that a
// purge tick has already visited. A purge tick at G removes every index entry with time <= G; only a
// populate tick at or after G may add such entries again, so the audit applies when the last populate tick
// lies strictly before the last purge tick. Stores without lookahead GC must have no index at all.
func (x *executor) gcIndexAudit() {
	for _, st := range x.stores {
		if st.cfg.Kind != skDS {
			continue
		}
		res, err := st.dstore.Query(context.Background(), query.Query{Prefix: "/peers/gc/addrs", KeysOnly: true})
		if err != nil {
			panic(err)
		}
		entries, err := res.Rest()
		if err != nil {
			panic(err)
		}
		g := st.sched
		now := x.m.now
		base := g.start + g.delay
		if now < base+g.purge {
			continue
		}
		lastPurge := base + (now-base)/g.purge*g.purge
		if g.look == 0 {
			if len(entries) > 0 {
				x.fail(st, "ds-gc-index", "datastore of a full-purge book holds %d lookahead index entries, e.g. %s", len(entries), entries[0].Key)
			}
			continue
		}
		lastPopulate := base + (now-base)/g.look*g.look
		if lastPopulate >= lastPurge {
			continue
		}
		x.st["ds_gc_index_audits"]++
		for _, e := range entries {
			ts, err := strconv.ParseInt(ds.RawKey(e.Key).Parent().Name(), 10, 64)
			if err != nil || ts <= lastPurge {
				x.fail(st, "ds-gc-index", "lookahead index entry %s (t=+%ds) is still in the datastore after the purge tick at t=+%ds (last populate tick t=+%ds, now t=+%ds)", e.Key, ts-x.base, lastPurge-x.base, lastPopulate-x.base, now-x.base)
				break
			}
			x.st["ds_gc_index_future_entries_seen"]++
		}
	}
}

func (x *executor) advance(sec int64) {
	before := 0
	for _, p := range x.m.peers {
		before += len(p.addrs)
	}
	recBefore := [nPeers]bool{}
	for i, p := range x.m.peers {
		recBefore[i] = p.rec != nil
	}
	time.Sleep(time.Duration(sec) * time.Second)
	synctest.Wait()
	x.m.advance(sec)
	for _, s := range x.stores {
		if s.cm != nil {
			s.cm.advance(sec)
		}
	}
	after := 0
	for _, p := range x.m.peers {
		after += len(p.addrs)
	}
	if before > after {
		x.st["entries_expired_by_clock"] += before - after
		x.sawExpiry = true
	}
	for i, p := range x.m.peers {
		if recBefore[i] && p.rec == nil {
			x.st["record_dropped_by_expiry"]++
			x.hadRecordDropped[i] = true
		}
	}
	if got := time.Now().Unix(); got != x.m.now {
		panic(fmt.Sprintf("clock drift: bubble %d model %d", got, x.m.now))
	}
}

func (x *executor) apply(s step) {
	x.st["op/"+s.kindTag()]++
	m := x.m
	pid := uni.pids[s.Peer]

	// white-box evidence only: does the written peer hold expired-but-uncollected entries in pstoremem?
	if s.Kind != opAdvance {
		for _, st := range x.stores {
			if st.cfg.Kind != skMem {
				continue
			}
			for _, e := range dumpMem(st).entries {
				if e.peer == s.Peer && e.exp <= m.now {
					x.st["write_on_peer_with_expired_uncollected_entries"]++
					break
				}
			}
		}
	}

	p := m.peers[s.Peer]
	recBefore := p.rec != nil
	switch s.Kind {
	case opAdd:
		for _, a := range s.Addrs {
			switch a.Form {
			case formForeign:
				x.st["arg_foreign_suffix"]++
			case formOwn:
				x.st["arg_own_suffix"]++
			}
		}
		if recBefore == false && x.hadRecordDropped[s.Peer] && s.TTL > 0 {
			x.st["add_after_record_was_dropped"]++
		}
		// evidence: would this add have shortened an expiry / lowered a class if it were an override?
		for _, a := range s.Addrs {
			if idx, ok := resolve(s.Peer, a); ok && s.TTL > 0 {
				if e := p.addrs[idx]; e != nil {
					if m.expiryOf(s.TTL) < e.exp {
						x.st["add_with_shorter_expiry_than_stored"]++
					} else if m.expiryOf(s.TTL) > e.exp {
						x.st["add_extends_stored"]++
					}
				}
			}
		}
		m.Add(s.Peer, s.Addrs, s.TTL)
		for _, st := range x.stores {
			if s.Single {
				st.ab.AddAddr(pid, uni.maddr(s.Peer, s.Addrs[0]), s.TTL)
			} else {
				st.ab.AddAddrs(pid, uni.maddrs(s.Peer, s.Addrs), s.TTL)
			}
		}
	case opSet:
		existing, toFinite, shorter := 0, 0, 0
		seen := map[int]bool{}
		for _, a := range s.Addrs {
			if idx, ok := resolve(s.Peer, a); ok && !seen[idx] {
				seen[idx] = true
				if e := p.addrs[idx]; e != nil {
					existing++
					if isConnected(e.ttl) && s.TTL > 0 && !isConnected(s.TTL) {
						toFinite++
					}
					if s.TTL > 0 && m.expiryOf(s.TTL) < e.exp {
						shorter++
					}
				}
			}
		}
		if s.TTL <= 0 && existing >= 2 {
			x.st["delete_several_existing_in_one_call"]++
			if existing < len(p.addrs) {
				x.st["delete_several_existing_keep_some"]++
			}
		}
		x.st["connected_to_finite_transitions"] += toFinite
		x.st["set_shortens_stored"] += shorter
		m.Set(s.Peer, s.Addrs, s.TTL)
		for _, st := range x.stores {
			if s.Single {
				st.ab.SetAddr(pid, uni.maddr(s.Peer, s.Addrs[0]), s.TTL)
			} else {
				st.ab.SetAddrs(pid, uni.maddrs(s.Peer, s.Addrs), s.TTL)
			}
		}
	case opUpdate:
		others := 0
		for _, e := range p.addrs {
			if e.ttl != s.OldTTL {
				others++
			}
		}
		moved := m.Update(s.Peer, s.OldTTL, s.TTL)
		if moved > 0 {
			x.st["update_moved_entries"] += moved
			if others > 0 {
				x.st["update_with_other_classes_present"]++
			}
			if isConnected(s.OldTTL) && s.TTL > 0 && !isConnected(s.TTL) {
				x.st["connected_to_finite_transitions"] += moved
			}
			if !isConnected(s.OldTTL) && isConnected(s.TTL) {
				x.st["finite_to_connected_transitions"] += moved
			}
		} else {
			x.st["update_matching_nothing"]++
		}
		for _, st := range x.stores {
			st.ab.UpdateAddrs(pid, s.OldTTL, s.TTL)
		}
	case opClear:
		if recBefore {
			x.st["clear_with_record"]++
		}
		m.Clear(s.Peer)
		for _, st := range x.stores {
			st.ab.ClearAddrs(pid)
		}
	case opConsume:
		var prevSeq uint64
		if p.rec != nil {
			prevSeq = p.rec.seq
		}
		accepted, evicted, kept := m.Consume(s.Peer, s.Seq, s.Addrs, s.TTL)
		switch {
		case !accepted:
			x.st["consume_rejected_lower_seq"]++
		case !recBefore && x.hadRecordDropped[s.Peer]:
			x.st["consume_accepted_after_record_was_dropped"]++
		case !recBefore:
			x.st["consume_accepted_first"]++
		case s.Seq == prevSeq:
			x.st["consume_accepted_equal_seq"]++
		default:
			x.st["consume_accepted_higher_seq"]++
		}
		if accepted {
			x.sawAccepted = true
			p.recKey = envKey(s.Peer, s.Seq, s.Addrs)
		}
		x.st["superseded_addrs_evicted"] += evicted
		x.st["superseded_addrs_kept_connected"] += kept
		env := x.envelope(s.Peer, s.Seq, s.Addrs)
		for si := 0; si < len(x.stores); si++ {
			st := x.stores[si]
			// "accepted only if its sequence number is not lower than the stored one" - also when a datastore
			// write fails during the call: on every fourth refused (lower-seq) record, the 1st/2nd/3rd Put of
			// the call fails once. A store on which the fault fired is not judged any further (what a failed
			// write leaves behind is not stated), except that the lower-seq record must not have been accepted.
			fds, _ := st.dstore.(*faultDS)
			injected := fds != nil && st.cm == nil && !accepted && (x.stepNo+si)%4 == 0
			if injected {
				fds.arm((x.stepNo / 4) % 3)
				x.st["lower_seq_consumes_with_the_next_datastore_write_armed_to_fail"]++
			}
			ok, err := st.ab.ConsumePeerRecord(env, s.TTL)
			if injected && fds.disarm() {
				x.st["lower_seq_records_consumed_under_a_datastore_write_fault"]++
				if ok {
					x.fail(st, "consume-return-under-write-fault", "ConsumePeerRecord(seq=%d) returned accepted=true while a datastore write of the call failed; stored seq: %s (a lower sequence number is never accepted)", s.Seq, seqString(recBefore, prevSeq))
				}
				st.closer.Close()
				x.stores = append(x.stores[:si], x.stores[si+1:]...)
				si--
				continue
			}
			accepted, recBefore, prevSeq := accepted, recBefore, prevSeq
			if st.cm != nil {
				// capped stores have their own state: same acceptance rule on their own stored record
				cr := st.cm.peers[s.Peer].rec
				recBefore, prevSeq = cr != nil, 0
				if cr != nil {
					prevSeq = cr.seq
				}
				accepted = !(cr != nil && s.Seq < cr.seq)
			}
			if err != nil {
				x.fail(st, "consume-return", "ConsumePeerRecord returned error %v", err)
			} else if ok != accepted {
				x.fail(st, "consume-return", "ConsumePeerRecord(seq=%d) returned accepted=%v, statement: %v (stored seq: %s)", s.Seq, ok, accepted, seqString(recBefore, prevSeq))
			}
		}
	case opAdvance:
		x.advance(s.Sec)
	}
	if recBefore && p.rec == nil && s.Kind != opAdvance {
		x.st["record_dropped_by_removal"]++
		x.hadRecordDropped[s.Peer] = true
	}

	// pstoremem: structural invariant after every op + white-box comparison of every stored entry
	for _, st := range x.stores {
		if st.cfg.Kind == skDS {
			continue
		}
		if err := pstoremem.VerifCheckAddrBook(st.ab); err != nil {
			x.fail(st, "mem-invariant", "structural invariant of the in-memory book broken after %s: %v", s.String(), err)
			continue
		}
		if st.cm != nil {
			x.capRelation(st, s)
		}
	}
	if len(x.fails) > 0 {
		return
	}

	x.readAll(s.Reads, "")
	if len(x.fails) > 0 {
		return
	}
	// white box last: a disagreement that is visible through the API is reported as such
	for _, st := range x.stores {
		if st.cfg.Kind == skMem {
			x.memWhiteBox(st)
		}
	}
	if len(x.fails) > 0 {
		return
	}

	if s.Reopen {
		live := false
		for i := range m.peers {
			live = live || m.isLive(i)
		}
		for i, st := range x.stores {
			if st.cfg.Kind != skDS {
				continue
			}
			st.closer.Close()
			ns, err := x.h.open(st.cfg, st.dstore, m.now)
			if err != nil {
				panic(err)
			}
			x.stores[i] = ns
		}
		synctest.Wait()
		x.st["reopen"]++
		if live {
			x.st["reopen_with_live_addresses"]++
			x.sawReopenLive = true
		}
		// "the datastore-backed book gives the same answers after being closed and reopened"
		x.readAllDS("-after-reopen")
	}
}

func seqString(have bool, seq uint64) string {
	if !have {
		return "none"
	}
	return fmt.Sprint(seq)
}

// everything is the complete observation: every read for every peer.
var everything = func() []read {
	var reads []read
	for pi := 0; pi < nPeers; pi++ {
		reads = append(reads, read{rdAddrs, pi}, read{rdRecord, pi})
	}
	return append(reads, read{rdPeers, 0})
}()

// readAll performs the given reads on every store.
func (x *executor) readAll(reads []read, suffix string) {
	for _, rd := range reads {
		for _, st := range x.stores {
			x.read(st, rd, suffix)
		}
	}
}

func (x *executor) readAllDS(suffix string) {
	for pi := 0; pi < nPeers; pi++ {
		for _, st := range x.stores {
			if st.cfg.Kind == skDS {
				x.read(st, read{rdRecord, pi}, suffix)
				x.read(st, read{rdAddrs, pi}, suffix)
			}
		}
	}
	for _, st := range x.stores {
		if st.cfg.Kind == skDS {
			x.read(st, read{rdPeers, 0}, suffix)
		}
	}
}

// read performs one observation on one store and compares it with the model.
func (x *executor) read(st *liveStore, rd read, suffix string) {
	m := x.m
	if st.cm != nil {
		m = st.cm
	}
	switch rd.Kind {
	case rdAddrs:
		// "For each peer the address book returns exactly the addresses whose most recently assigned
		// expiry lies in the future"
		x.st["read/addrs"]++
		got, unknown, dups := basesOf(st.ab.Addrs(uni.pids[rd.Peer]))
		want := m.live(rd.Peer)
		if dups > 0 {
			// "returns exactly the addresses ...": each once (a repeated address means it is stored twice)
			x.fail(st, "addrs-repeated"+suffix, "Addrs(P%d) lists an address more than once: %v", rd.Peer, st.ab.Addrs(uni.pids[rd.Peer]))
			return
		}
		if unknown != "" {
			x.fail(st, "addrs-unknown"+suffix, "Addrs(P%d) returned %s which is not an address of the universe in stored form (own /p2p suffix must be stripped)", rd.Peer, unknown)
			return
		}
		extra, missing := diff(got, want)
		if len(extra)+len(missing) > 0 {
			obs := "addrs"
			if len(extra) > 0 {
				obs += "-extra"
			}
			if len(missing) > 0 {
				obs += "-missing"
			}
			x.fail(st, obs+suffix, "Addrs(P%d) = %s, statement: %s (extra %s, missing %s) at t=+%ds", rd.Peer, basesString(got), basesString(want), basesString(extra), basesString(missing), m.now-x.base)
		}
	case rdRecord:
		// "stays retrievable as long as the peer continuously has live addresses, and is never returned
		// once all of the peer's addresses have expired or been cleared"
		x.st["read/record"]++
		env := st.ab.GetPeerRecord(uni.pids[rd.Peer])
		want := m.peers[rd.Peer].rec
		switch {
		case env == nil && want == nil:
		case env != nil && want == nil:
			id, _ := recordIdentity(env)
			x.fail(st, "record-returned"+suffix, "GetPeerRecord(P%d) returned a record (%s); statement: none retrievable (live addresses: %s)", rd.Peer, id, basesString(m.live(rd.Peer)))
		case env == nil && want != nil:
			x.fail(st, "record-lost"+suffix, "GetPeerRecord(P%d) = nil; statement: record seq=%d retrievable (peer continuously had live addresses: %s)", rd.Peer, want.seq, basesString(m.live(rd.Peer)))
		default:
			x.st["read/record_nonnil"]++
			wantEnv := x.envs[m.peers[rd.Peer].recKey]
			if !bytes.Equal(env.RawPayload, wantEnv.RawPayload) || !bytes.Equal(env.PayloadType, wantEnv.PayloadType) || !env.PublicKey.Equals(wantEnv.PublicKey) {
				got, err := recordIdentity(env)
				wantID, _ := recordIdentity(wantEnv)
				x.fail(st, "record-wrong"+suffix, "GetPeerRecord(P%d) = %s (err %v); statement: the last accepted record %s", rd.Peer, got, err, wantID)
			}
		}
	case rdPeers:
		// "expired addresses ... are removed by garbage collection so that a peer with no live address
		// stops being listed": listed ⊇ peers with live addresses always; a peer without live address may
		// stay listed only until the store's next complete collection after its last address went away.
		x.st["read/peers"]++
		listed := map[int]bool{}
		for _, id := range st.ab.PeersWithAddrs() {
			found := false
			for i, p := range uni.pids {
				if p == id {
					listed[i], found = true, true
				}
			}
			if !found {
				x.fail(st, "peers-unknown"+suffix, "PeersWithAddrs lists unknown peer %s", id)
			}
		}
		guaranteed := st.sched.guaranteed(m.now)
		for i, p := range m.peers {
			live := len(p.addrs) > 0
			switch {
			case live && !listed[i]:
				x.fail(st, "peers-missing-live"+suffix, "PeersWithAddrs does not list P%d which has live addresses %s", i, basesString(m.live(i)))
			case !live && listed[i]:
				if p.deadSince == never {
					x.fail(st, "peers-never-live"+suffix, "PeersWithAddrs lists P%d which never had a live address", i)
				} else if p.deadSince <= guaranteed {
					x.fail(st, "peers-not-collected"+suffix, "PeersWithAddrs still lists P%d: no live address since t=+%ds, the store's collector completed a pass covering t=+%ds, now t=+%ds", i, p.deadSince-x.base, guaranteed-x.base, m.now-x.base)
				} else {
					x.st["peers_dead_listed_before_gc"]++
				}
			case !live && !listed[i] && p.deadSince != never && p.deadSince <= guaranteed:
				x.st["peers_dead_unlisted_after_gc"]++
				if st.cm == nil { // (capped books break ties by map order: keep the non-trivial rule deterministic)
					x.sawGCRequired = true
				}
			}
		}
	}
}

func basesOf(addrs []ma.Multiaddr) (bases []int, unknown string, dups int) {
	seen := map[int]bool{}
	for _, a := range addrs {
		b, ok := uni.baseOf[string(a.Bytes())]
		if !ok {
			return nil, a.String(), 0
		}
		if seen[b] {
			dups++
			continue
		}
		seen[b] = true
		bases = append(bases, b)
	}
	sort.Ints(bases)
	return bases, "", dups
}

func diff(got, want []int) (extra, missing []int) {
	w := map[int]bool{}
	for _, i := range want {
		w[i] = true
	}
	g := map[int]bool{}
	for _, i := range got {
		g[i] = true
		if !w[i] {
			extra = append(extra, i)
		}
	}
	for _, i := range want {
		if !g[i] {
			missing = append(missing, i)
		}
	}
	return
}

// ---- pstoremem white box ------------------------------------------------------------------------

type dumpEntry struct {
	peer, base int
	ttl        time.Duration
	exp        int64
	inHeap     bool
}

type memDump struct {
	entries []dumpEntry
	seqs    map[int]uint64
	bad     string
}

func dumpMem(st *liveStore) *memDump {
	es, seqs, err := pstoremem.VerifDumpAddrBook(st.ab)
	if err != nil {
		panic(err)
	}
	d := &memDump{seqs: map[int]uint64{}}
	for _, e := range es {
		pi := -1
		for i, id := range uni.pids {
			if id == e.Peer {
				pi = i
			}
		}
		b, ok := uni.baseOf[string(e.Addr.Bytes())]
		if pi < 0 || !ok {
			d.bad = fmt.Sprintf("entry %s of peer %s is not of the universe in stored form", e.Addr, e.Peer)
			continue
		}
		d.entries = append(d.entries, dumpEntry{peer: pi, base: b, ttl: e.TTL, exp: e.Expiry.Unix(), inHeap: e.InHeap})
	}
	for id, s := range seqs {
		for i, p := range uni.pids {
			if p == id {
				d.seqs[i] = s
			}
		}
	}
	return d
}

// memWhiteBox compares every stored entry of the uncapped in-memory book with the model: live entries
// carry exactly the model's TTL class and expiry; an expired entry may linger only until the next GC
// tick ("removed by garbage collection so that ... memory stays bounded").
func (x *executor) memWhiteBox(st *liveStore) {
	d := dumpMem(st)
	if d.bad != "" {
		x.fail(st, "mem-entry", "%s", d.bad)
		return
	}
	m := x.m
	guaranteed := st.sched.guaranteed(m.now)
	seen := map[[2]int]bool{}
	for _, e := range d.entries {
		if e.exp <= m.now {
			// (a write at the instant of a tick happens after the tick: it may leave an already expired
			// entry behind, e.g. UpdateAddrs to a negative TTL, which the NEXT tick removes)
			if e.exp <= guaranteed && m.peers[e.peer].lastWrite < guaranteed {
				x.fail(st, "mem-not-collected", "entry A%d of P%d expired at t=+%ds is still stored after the GC tick at t=+%ds (now t=+%ds, ttl %s, in heap: %v)", e.base, e.peer, e.exp-x.base, guaranteed-x.base, m.now-x.base, ttlName(e.ttl), e.inHeap)
				return
			}
			x.st["mem_expired_uncollected_entries_seen"]++
			continue
		}
		seen[[2]int{e.peer, e.base}] = true
		me := m.peers[e.peer].addrs[e.base]
		if me == nil {
			x.fail(st, "mem-entry", "stored live entry A%d of P%d (ttl %s, expiry t=+%ds) does not exist per the statement", e.base, e.peer, ttlName(e.ttl), e.exp-x.base)
			return
		}
		if me.ttl != e.ttl || me.exp != e.exp {
			x.fail(st, "mem-entry", "stored entry A%d of P%d has (ttl %s, expiry t=+%ds); statement: (ttl %s, expiry t=+%ds)", e.base, e.peer, ttlName(e.ttl), e.exp-x.base, ttlName(me.ttl), me.exp-x.base)
			return
		}
	}
	for pi, p := range m.peers {
		for b := range p.addrs {
			if !seen[[2]int{pi, b}] {
				x.fail(st, "mem-entry", "live entry A%d of P%d is not stored", b, pi)
				return
			}
		}
	}
}

// capRelation judges one step of a capped in-memory book. With caps the statement leaves freedom, so the
// oracle is a relation over (state before, uncapped result M', state after):
//   - nothing is stored that the uncapped statement would not store, and a stored entry carries the
//     statement's (TTL class, expiry) — or, under the global cap, its untouched previous value (refusal);
//   - an entry with a connected TTL class is never evicted and never refused;
//   - per-peer cap: entries are missing only under cap pressure, no more than needed, the count of
//     unconnected entries does not grow beyond the cap by insertion, and a victim had minimal expiry among
//     the untouched unconnected survivors (ties free);
//   - global cap: a refusal happens only when the book holds >= cap unconnected entries; an existing
//     unconnected entry is never removed by it; nothing new is inserted while the book is full.
//
// Afterwards the model adopts the implementation's choice.
func (x *executor) capRelation(st *liveStore, s step) {
	cm := st.cm
	if s.Kind == opAdvance {
		// already advanced; nothing may change but expiry
		x.capSync(st, s, nil)
		return
	}
	pi := s.Peer
	before := map[int]mEntry{}
	for k, e := range cm.peers[pi].addrs {
		before[k] = *e
	}
	mp := cm.clone()
	switch s.Kind {
	case opAdd:
		mp.Add(pi, s.Addrs, s.TTL)
	case opSet:
		mp.Set(pi, s.Addrs, s.TTL)
	case opUpdate:
		mp.Update(pi, s.OldTTL, s.TTL)
	case opClear:
		mp.Clear(pi)
	case opConsume:
		if accepted, _, _ := mp.Consume(pi, s.Seq, s.Addrs, s.TTL); accepted {
			mp.peers[pi].recKey = envKey(pi, s.Seq, s.Addrs)
		}
	}
	x.capSync(st, s, &capCtx{before: before, mp: mp})
}

type capCtx struct {
	before map[int]mEntry
	mp     *model
}

func (x *executor) capSync(st *liveStore, s step, cc *capCtx) {
	cm := st.cm
	d := dumpMem(st)
	if d.bad != "" {
		x.fail(st, "mem-entry", "%s", d.bad)
		return
	}
	now := cm.now
	after := make([]map[int]mEntry, nPeers)
	for i := range after {
		after[i] = map[int]mEntry{}
	}
	heapEnd := 0
	for _, e := range d.entries {
		if !isConnected(e.ttl) {
			heapEnd++
		}
		if e.exp > now {
			after[e.peer][e.base] = mEntry{ttl: e.ttl, exp: e.exp}
		}
	}
	target := cm
	if cc != nil {
		target = cc.mp
	}
	// peers not written: exactly as before
	for pi := 0; pi < nPeers; pi++ {
		if cc != nil && pi == s.Peer {
			continue
		}
		want := target.peers[pi].addrs
		if len(want) != len(after[pi]) {
			x.fail(st, "cap-relation", "P%d was not written by %s but its stored live entries changed: %v, expected %d entries", pi, s.String(), after[pi], len(want))
			return
		}
		for k, e := range want {
			if a, ok := after[pi][k]; !ok || a != *e {
				x.fail(st, "cap-relation", "P%d was not written by %s but entry A%d changed", pi, s.String(), k)
				return
			}
		}
	}
	if cc == nil {
		return
	}
	pi := s.Peer
	R := after[pi]
	M := cc.mp.peers[pi].addrs
	pre := cc.before
	perPeer := st.cfg.Kind == skMemCapPeer
	countU := func(m map[int]mEntry) int {
		n := 0
		for _, e := range m {
			if !isConnected(e.ttl) {
				n++
			}
		}
		return n
	}
	uM := 0
	for _, e := range M {
		if !isConnected(e.ttl) {
			uM++
		}
	}
	uR, uPre := countU(R), countU(pre)
	transitions := 0
	for k, e := range pre {
		if me := M[k]; me != nil && isConnected(e.ttl) && !isConnected(me.ttl) {
			transitions++
		}
	}
	full := heapEnd >= capGlobal
	var missing []int
	newUnconnected := 0
	for k, e := range R {
		me := M[k]
		if me == nil {
			x.fail(st, "cap-relation", "after %s entry A%d of P%d is stored although the statement removes / never stores it", s.String(), k, pi)
			return
		}
		if *me != e {
			pe, had := pre[k]
			// per-peer cap: an entry may have been evicted by an earlier address of the same call and then
			// be inserted afresh by a later one: it then carries exactly this call's TTL and expiry
			fresh := perPeer && uM > capPerPeer && s.TTL > 0 && (s.Kind == opAdd || s.Kind == opSet || s.Kind == opConsume) &&
				e == (mEntry{ttl: s.TTL, exp: cc.mp.expiryOf(s.TTL)})
			if fresh {
				x.st["cap_per_peer_evicted_and_reinserted_in_one_call"]++
			} else if perPeer || !had || pe != e || !full {
				x.fail(st, "cap-relation", "after %s entry A%d of P%d has (ttl %s, expiry t=+%ds); statement: (ttl %s, expiry t=+%ds)", s.String(), k, pi, ttlName(e.ttl), e.exp-x.base, ttlName(me.ttl), me.exp-x.base)
				return
			}
			x.st["cap_global_refused_extension"]++
		}
		if _, had := pre[k]; !had && !isConnected(e.ttl) {
			newUnconnected++
		}
	}
	for k := range M {
		if _, ok := R[k]; !ok {
			missing = append(missing, k)
		}
	}
	sort.Ints(missing)
	for _, k := range missing {
		me := M[k]
		pe, had := pre[k]
		if isConnected(me.ttl) {
			x.fail(st, "cap-connected-evicted", "after %s entry A%d of P%d with connected TTL class %s is gone: connected entries are never evicted or refused", s.String(), k, pi, ttlName(me.ttl))
			return
		}
		if perPeer {
			if uM <= capPerPeer {
				x.fail(st, "cap-relation", "after %s entry A%d of P%d is missing although the peer would hold only %d unconnected entries (cap %d)", s.String(), k, pi, uM, capPerPeer)
				return
			}
			// victim had minimal expiry among the untouched unconnected survivors
			vexp := me.exp
			if had && pe.exp < vexp {
				vexp = pe.exp
			}
			for sk, se := range R {
				spe, shad := pre[sk]
				if !shad || spe != se || isConnected(se.ttl) {
					continue
				}
				if vexp > se.exp {
					x.fail(st, "cap-victim-not-minimal", "after %s entry A%d of P%d (expiry t=+%ds) was evicted although untouched unconnected entry A%d expires earlier (t=+%ds)", s.String(), k, pi, vexp-x.base, sk, se.exp-x.base)
					return
				}
			}
			x.st["cap_per_peer_evictions"]++
		} else {
			if had && !isConnected(pe.ttl) {
				x.fail(st, "cap-relation", "after %s existing unconnected entry A%d of P%d is gone: the global cap only refuses new entries", s.String(), k, pi)
				return
			}
			if !full {
				x.fail(st, "cap-relation", "after %s entry A%d of P%d was refused although the book holds only %d unconnected entries (cap %d)", s.String(), k, pi, heapEnd, capGlobal)
				return
			}
			x.st["cap_global_refusals"]++
		}
	}
	if perPeer {
		if lim := max(capPerPeer, uPre) + transitions; uR > lim {
			x.fail(st, "cap-exceeded", "after %s P%d holds %d unconnected entries (cap %d, %d before, %d moved out of the connected class)", s.String(), pi, uR, capPerPeer, uPre, transitions)
			return
		}
		if uR < min(uM, capPerPeer) {
			x.fail(st, "cap-relation", "after %s P%d holds %d unconnected entries although %d fit under the cap", s.String(), pi, uR, min(uM, capPerPeer))
			return
		}
		if len(missing) > len(s.Addrs) {
			x.fail(st, "cap-relation", "after %s %d entries of P%d are missing, more than addresses were named", s.String(), len(missing), pi)
			return
		}
		if uPre+transitions > capPerPeer {
			x.st["cap_per_peer_over_cap_by_class_change"]++
		}
	} else if newUnconnected > 0 && heapEnd-newUnconnected-transitions >= capGlobal {
		x.fail(st, "cap-exceeded", "after %s %d new unconnected entries were inserted although the book already held >= %d unconnected entries (now %d)", s.String(), newUnconnected, capGlobal, heapEnd)
		return
	}
	// the black-box answers for the written peer, then adopt the implementation's choice
	wasLive := len(pre) > 0
	np := cc.mp.peers[pi]
	np.addrs = map[int]*mEntry{}
	for k, e := range R {
		ce := e
		np.addrs[k] = &ce
	}
	cc.mp.afterWrite(np, wasLive)
	st.cm = cc.mp
	// signed-record bookkeeping must agree with the dump
	for i := 0; i < nPeers; i++ {
		seq, has := d.seqs[i]
		want := st.cm.peers[i].rec
		if has != (want != nil) && len(after[i]) > 0 {
			x.fail(st, "record-state", "after %s the in-memory book %s a signed record for P%d; statement: %s", s.String(), map[bool]string{true: "keeps", false: "has no"}[has], i, map[bool]string{true: "one is retrievable", false: "none"}[want != nil])
			return
		}
		if has && want != nil && seq != want.seq {
			x.fail(st, "record-state", "after %s stored seq for P%d is %d, statement: %d", s.String(), i, seq, want.seq)
			return
		}
	}
}
