package c09

import (
	"fmt"
	"testing"
	"time"

	"github.com/libp2p/go-libp2p/core/peerstore"
)

func probe(t *testing.T, name string, stores []storeCfg, steps []step) {
	h := &history{ID: name, Stores: stores, GCPurge: 3 * time.Second, GCLook: 6 * time.Second, GCDelay: 0, Steps: steps}
	fails, _ := runHistory(t, h, stats{})
	fmt.Printf("== %s: %v\n", name, h.text())
	for _, f := range fails {
		fmt.Printf("   step %d [%s] %s: %s\n", f.Step, f.Store, f.Obs, f.Msg)
	}
	if len(fails) == 0 {
		fmt.Println("   no disagreement")
	}
}

func allReads() []read {
	var r []read
	for p := 0; p < nPeers; p++ {
		r = append(r, read{rdAddrs, p}, read{rdRecord, p})
	}
	return append(r, read{rdPeers, 0})
}

func TestProbe(t *testing.T) {
	all := append([]storeCfg{{Kind: skMem}}, allDS...)
	A := func(b int) addrArg { return addrArg{Base: b} }
	own := func(b int) addrArg { return addrArg{Base: b, Form: formOwn} }
	R := allReads()
	probe(t, "D1 dup in one call then override", all, []step{
		{Kind: opAdd, Peer: 0, Addrs: []addrArg{A(0), A(0)}, TTL: time.Hour, Reads: R},
		{Kind: opSet, Peer: 0, Addrs: []addrArg{A(0)}, TTL: time.Second, Reads: R},
		{Kind: opAdvance, Sec: 2, Reads: R},
	})
	probe(t, "D2 empty record then unsigned add", all, []step{
		{Kind: opConsume, Peer: 0, Seq: 5, Addrs: nil, TTL: time.Hour},
		{Kind: opAdd, Peer: 0, Addrs: []addrArg{A(1)}, TTL: time.Hour, Reads: R},
	})
	probe(t, "D2b record with ttl 0 then unsigned add", all, []step{
		{Kind: opConsume, Peer: 0, Seq: 5, Addrs: []addrArg{A(0)}, TTL: 0},
		{Kind: opAdd, Peer: 0, Addrs: []addrArg{A(1)}, TTL: time.Hour, Reads: R},
	})
	probe(t, "D3a own-suffixed record address not evicted when superseded", all, []step{
		{Kind: opConsume, Peer: 0, Seq: 5, Addrs: []addrArg{own(2)}, TTL: time.Hour, Reads: R},
		{Kind: opConsume, Peer: 0, Seq: 6, Addrs: []addrArg{A(3)}, TTL: time.Hour, Reads: R},
	})
	probe(t, "D3b relisting with own suffix evicts+re-adds in mem (lifetime shortened)", all, []step{
		{Kind: opConsume, Peer: 0, Seq: 5, Addrs: []addrArg{A(2)}, TTL: time.Hour, Reads: R},
		{Kind: opConsume, Peer: 0, Seq: 6, Addrs: []addrArg{own(2)}, TTL: time.Second, Reads: R},
		{Kind: opAdvance, Sec: 2, Reads: R},
	})
	probe(t, "D4 lookahead+cache ghost", all, []step{
		{Kind: opAdd, Peer: 0, Addrs: []addrArg{A(0)}, TTL: 10 * time.Second},
		{Kind: opAdvance, Sec: 10, Reads: []read{{rdRecord, 0}}},
		{Kind: opAdvance, Sec: 600, Reads: R},
	})
	_ = peerstore.TempAddrTTL
}
