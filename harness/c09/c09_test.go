// C09 — Address book: TTL, expiry and GC semantics, identical in both stores.
//
// Runtime monitoring: generated histories of AddAddr(s)/SetAddr(s)/UpdateAddrs/ClearAddrs/
// ConsumePeerRecord/clock advances over 3 peers x 4 addresses (with and without /p2p suffix) x 8 TTLs
// are applied, inside a testing/synctest bubble (virtual time drives the stores' own GC tickers), to the
// REAL pstoremem and pstoreds (MapDatastore; cache 0/1/16; full-purge and lookahead GC; closed and
// reopened on the same datastore) in lock-step with a reference model written from the statement
// (model_test.go). After every operation Addrs / GetPeerRecord / PeersWithAddrs of every store are compared
// with the model, the return value of ConsumePeerRecord with the model's verdict, and the in-memory book's
// heap/map structure is walked under its own lock (pstoremem/verif_export.go). Capped in-memory books are
// judged by a relation (exec_test.go capRelation).
package c09

import (
	"fmt"
	"os"
	"runtime"
	"runtime/debug"
	"sort"
	"strings"
	"sync"
	"sync/atomic"
	"testing"
	"testing/synctest"
	"time"

	"verif/harness/rig/run"
)

// runHistory executes one history in a fresh bubble (virtual clock starts at 2000-01-01T00:00:00Z, a
// whole second) and returns the disagreements of the first step that had any.
func runHistory(t *testing.T, h *history, st stats) (fails []failure, x *executor) {
	synctest.Test(t, func(t *testing.T) {
		x = &executor{h: h, st: st}
		fails = x.run()
	})
	return fails, x
}

func storesFor(r *run.R, i int) []storeCfg {
	stores := []storeCfg{{Kind: skMem}}
	if r.Quick() {
		a := i % 6
		b := (a + 1 + (i/6)%5) % 6
		stores = append(stores, allDS[a], allDS[b])
	} else {
		stores = append(stores, allDS...)
	}
	switch i % 5 {
	case 3:
		stores = append(stores, storeCfg{Kind: skMemCapPeer})
	case 4:
		stores = append(stores, storeCfg{Kind: skMemCapGlobal})
	}
	return stores
}

func genCase(r *run.R, i int) *history {
	o := genOpts{minLen: 20, maxLen: 150, reopenEvery: !r.Quick() && i%4 == 1}
	return generate(r.Rand(1, uint64(i)), fmt.Sprintf("h%d", i), storesFor(r, i), o)
}

func baseObs(o string) string { return strings.TrimSuffix(o, "-after-reopen") }

// signature: which observable disagreed on which class of store + the op kinds of the shrunk witness.
func signature(h *history, fails []failure) string {
	f := fails[0]
	classes := map[string]bool{}
	for _, g := range fails {
		if baseObs(g.Obs) == baseObs(f.Obs) {
			classes[g.Class] = true
		}
	}
	var cs []string
	for c := range classes {
		cs = append(cs, c)
	}
	sort.Strings(cs)
	kinds := map[string]bool{}
	for i, s := range h.Steps {
		if i > f.Step {
			break
		}
		kinds[s.kindTag()] = true
		if s.Reopen {
			kinds["Reopen"] = true
		}
	}
	var ks []string
	for k := range kinds {
		ks = append(ks, k)
	}
	sort.Strings(ks)
	return fmt.Sprintf("%s@%s:%s", f.Obs, strings.Join(cs, ","), strings.Join(ks, "+"))
}

// shrink reduces a failing history (ddmin over steps, then reads/reopens/stores) while some store of the
// same class still disagrees on the same observable.
func shrink(t *testing.T, h *history, fails []failure) (*history, []failure) {
	target := fails[0]
	budget := 600
	try := func(c *history) []failure {
		if budget <= 0 {
			return nil
		}
		budget--
		fs, _ := runHistory(t, c, stats{})
		var same []failure
		for _, f := range fs {
			if baseObs(f.Obs) == baseObs(target.Obs) && f.Class == target.Class {
				same = append(same, f)
			}
		}
		if len(same) == 0 {
			return nil
		}
		// failures of the target class first, then the others at the same step
		for _, f := range fs {
			if !(baseObs(f.Obs) == baseObs(target.Obs) && f.Class == target.Class) {
				same = append(same, f)
			}
		}
		return same
	}
	cur, curFails := h, fails
	with := func(steps []step) *history {
		c := *cur
		c.Steps = steps
		return &c
	}
	// drop everything after the failing step
	if target.Step < len(cur.Steps)-1 {
		if fs := try(with(append([]step{}, cur.Steps[:target.Step+1]...))); fs != nil {
			cur, curFails = with(append([]step{}, cur.Steps[:target.Step+1]...)), fs
		}
	}
	for n := 2; len(cur.Steps) >= 1 && budget > 0; {
		chunk := (len(cur.Steps) + n - 1) / n
		reduced := false
		for lo := 0; lo < len(cur.Steps); lo += chunk {
			hi := min(lo+chunk, len(cur.Steps))
			cand := append(append([]step{}, cur.Steps[:lo]...), cur.Steps[hi:]...)
			if fs := try(with(cand)); fs != nil {
				cur, curFails = with(cand), fs
				n = max(n-1, 2)
				reduced = true
				break
			}
		}
		if !reduced {
			if chunk == 1 {
				break
			}
			n = min(n*2, len(cur.Steps))
		}
	}
	// fewer observations, no reopen, smaller batches
	for i := range cur.Steps {
		if len(cur.Steps[i].Reads) > 0 {
			cand := append([]step{}, cur.Steps...)
			cand[i].Reads = nil
			if fs := try(with(cand)); fs != nil {
				cur, curFails = with(cand), fs
			}
		}
		if cur.Steps[i].Reopen {
			cand := append([]step{}, cur.Steps...)
			cand[i].Reopen = false
			if fs := try(with(cand)); fs != nil {
				cur, curFails = with(cand), fs
			}
		}
		for len(cur.Steps[i].Addrs) > 1 {
			shrunk := false
			for k := range cur.Steps[i].Addrs {
				cand := append([]step{}, cur.Steps...)
				cand[i].Addrs = append(append([]addrArg{}, cur.Steps[i].Addrs[:k]...), cur.Steps[i].Addrs[k+1:]...)
				if fs := try(with(cand)); fs != nil {
					cur, curFails = with(cand), fs
					shrunk = true
					break
				}
			}
			if !shrunk {
				break
			}
		}
	}
	// only the stores that disagree
	keep := map[string]bool{}
	for _, f := range curFails {
		keep[f.Store] = true
	}
	var sc []storeCfg
	for _, c := range cur.Stores {
		if keep[c.name()] {
			sc = append(sc, c)
		}
	}
	if len(sc) > 0 && len(sc) < len(cur.Stores) {
		c := *cur
		c.Stores = sc
		if fs := try(&c); fs != nil {
			cur, curFails = &c, fs
		}
	}
	return cur, curFails
}

func report(r *run.R, t *testing.T, caseID string, h *history, fails []failure) {
	sh, sf := shrink(t, h, fails)
	sig := signature(sh, sf)
	h.StepsText, sh.StepsText = h.text(), sh.text()
	var msgs []string
	for _, f := range sf {
		msgs = append(msgs, fmt.Sprintf("[%s] %s", f.Store, f.Msg))
	}
	msg := fmt.Sprintf("shrunk witness (%d steps): %s => %s", len(sh.Steps), strings.Join(sh.StepsText, "; "), strings.Join(msgs, " | "))
	r.Violation(sig, caseID, msg, map[string]any{
		"failures_in_generated_history": fails,
		"shrunk_history":                sh,
		"failures_in_shrunk_history":    sf,
		"generated_history":             h,
		"note":                          "clock starts at 2000-01-01T00:00:00Z inside a synctest bubble; t=+Ns are seconds since then; every step is applied to all stores, then the listed reads are compared with the model",
	})
}

func differential(r *run.R, t *testing.T) {
	total := r.Pick(5000, 100000)
	var next atomic.Int64
	var mu sync.Mutex
	merged := stats{}
	var wg sync.WaitGroup
	body := func() {
		for w := 0; w < runtime.GOMAXPROCS(0); w++ {
			wg.Add(1)
			go func() {
				defer wg.Done()
				for !r.TooMany() {
					i := int(next.Add(1) - 1)
					if i >= total {
						return
					}
					caseID := fmt.Sprintf("h%d", i)
					if !r.Want(caseID) {
						continue
					}
					h := genCase(r, i)
					local := stats{}
					fails, x := runHistory(t, h, local)
					r.Eval(1)
					local["histories"]++
					local["steps"] += len(h.Steps)
					for _, c := range h.Stores {
						local["histories_with/"+c.name()]++
					}
					if len(fails) > 0 {
						report(r, t, caseID, h, fails)
					} else if x.sawExpiry && x.sawGCRequired && x.sawReopenLive && x.sawAccepted {
						r.Nontrivial(strings.Join(h.text(), ";") + fmt.Sprint(h.Stores, h.GCPurge, h.GCLook, h.GCDelay))
						local["histories_nontrivial"]++
					}
					if i < 3 {
						txt := h.text()
						if len(txt) > 30 {
							txt = append(txt[:30], fmt.Sprintf("... (%d steps)", len(h.Steps)))
						}
						var names []string
						for _, c := range h.Stores {
							names = append(names, c.name())
						}
						r.Sample(map[string]any{"case": caseID, "stores": names, "gc_purge": h.GCPurge.String(), "gc_lookahead": h.GCLook.String(), "gc_initial_delay": h.GCDelay.String(), "read_prob": h.ReadProb, "steps": txt, "disagreements": len(fails)})
					}
					mu.Lock()
					for k, v := range local {
						merged[k] += v
					}
					mu.Unlock()
				}
			}()
		}
		wg.Wait()
	}
	if !run.Watchdog(time.Duration(r.Pick(15, 90))*time.Minute, body) {
		r.Inconclusive("differential", "real-time watchdog: workers did not finish\n"+run.Stacks())
		return
	}
	for k, v := range merged {
		r.Count(k, v)
	}
}

func TestC09(t *testing.T) {
	r := run.New(t, "C09", "exploration")
	defer r.Finish()
	race := os.Getenv("VERIF_RACE") == "1"
	// short-lived garbage dominates (thousands of tiny stores and bubbles); the live heap stays small
	defer debug.SetGCPercent(debug.SetGCPercent(800))
	r.Rule("one evaluation = one generated history (20-150 steps: AddAddr(s)/SetAddr(s) incl. multi-address deletes/UpdateAddrs/ClearAddrs/ConsumePeerRecord with lower, equal, higher seq and changing, possibly empty address lists/clock advances onto, before and after expiries and GC ticks; 3 random close+reopen points, thorough: after every step in every fourth history) applied in a synctest bubble to the real pstoremem and pstoreds (MapDatastore; cache 0/1/16 x full-purge/lookahead GC) in lock-step with a reference model written from the statement; after every step a random subset of {Addrs(p), GetPeerRecord(p), PeersWithAddrs} (all of them at the end, after every reopen, and after a final complete collection) is compared with the model, plus the pstoremem heap/map invariant walk and entry-by-entry (TTL class, expiry) comparison; non-trivial = the history had an address expire by clock advance, a dead peer that a store's collector had to have unlisted, a reopen with live addresses and an accepted signed record; distinct = distinct generated history text")
	r.Assume(
		"second granularity: the clock only takes whole-second values (the datastore book stores whole seconds); sub-second expiry is not compared (DESIGN.md §4)",
		"operations are sequential within a history (one goroutine; the stores' GC goroutines run only while the clock advances and are quiescent (synctest.Wait) before the next operation); concurrent callers are exercised only by the crash/invariant/race workload",
		"the datastore is go-datastore MapDatastore behind sync.MutexWrap; datastore write failures and torn writes are not injected (crash points = reopen after a completed operation)",
		"when a purge tick and a lookahead-populate tick of pstoreds coincide either order is accepted; a dead peer must be unlisted by the first purge tick strictly after the first populate tick at or after its last address expired",
		"capped in-memory books (per-peer 2, global 3) are judged by a relation, not by equality with the uncapped model; pstoreds runs with its cap out of reach",
		"AddrStream is not observed",
	)
	r.Extra("universe", map[string]any{"peers": nPeers, "addresses": baseAddrs, "address_forms": []string{"plain", "/p2p/<own id>", "/p2p/<another peer>"},
		"ttls":           []string{"-1ns", "0", "1s", "10s", "TempAddrTTL(2m)", "RecentlyConnectedAddrTTL(15m)", "ConnectedAddrTTL", "PermanentAddrTTL"},
		"history_length": "20-150", "stores_per_history": map[string]string{"quick": "pstoremem + 2 of the 6 pstoreds configurations (all pairs rotate) + a capped pstoremem in 2 of 5 histories", "thorough": "pstoremem + all 6 pstoreds configurations + a capped pstoremem in 2 of 5 histories"},
		"pstoreds": "MapDatastore/MutexWrap x CacheSize {0,1,16} x GC {full purge, lookahead}; GCPurgeInterval {5s,20s,60s}, GCLookaheadInterval {1,2,4} x purge, GCInitialDelay {0,1s,7s} per history",
		"reopen":   "quick: 3 random points per history; thorough: 3 random points, after every step in every fourth history"})
	if race {
		concurrent(r, t, r.Pick(400, 4000))
		r.Require("concurrent_ops", 1000)
		return
	}
	differential(r, t)
	concurrent(r, t, r.Pick(60, 600))

	// path classes this check exists to exercise
	for _, k := range []string{
		"entries_expired_by_clock", "mem_expired_uncollected_entries_seen", "write_on_peer_with_expired_uncollected_entries",
		"connected_to_finite_transitions", "finite_to_connected_transitions",
		"delete_several_existing_in_one_call", "delete_several_existing_keep_some",
		"add_with_shorter_expiry_than_stored", "add_extends_stored", "set_shortens_stored",
		"update_moved_entries", "update_with_other_classes_present", "update_matching_nothing",
		"consume_rejected_lower_seq", "consume_accepted_equal_seq", "consume_accepted_higher_seq", "consume_accepted_first",
		"consume_accepted_after_record_was_dropped", "op/ConsumeEmpty",
		"superseded_addrs_evicted", "superseded_addrs_kept_connected",
		"record_dropped_by_expiry", "record_dropped_by_removal", "add_after_record_was_dropped", "clear_with_record",
		"read/record_nonnil", "peers_dead_listed_before_gc", "peers_dead_unlisted_after_gc",
		"reopen_with_live_addresses", "arg_foreign_suffix", "arg_own_suffix",
		"cap_per_peer_evictions", "cap_global_refusals",
		"histories_with/ds/cache0/purge", "histories_with/ds/cache1/purge", "histories_with/ds/cache16/purge",
		"histories_with/ds/cache0/lookahead", "histories_with/ds/cache1/lookahead", "histories_with/ds/cache16/lookahead",
		"histories_with/mem/cap-per-peer-2", "histories_with/mem/cap-global-3",
		"histories_nontrivial", "ds_gc_index_audits",
	} {
		r.Require(k, 100)
	}
}
