package c09

import (
	"fmt"
	"math/rand/v2"
	"strings"
	"time"

	"github.com/libp2p/go-libp2p/core/peerstore"
)

// ---- universe ---------------------------------------------------------------------------------

const (
	nPeers = 3
	nBases = 4
)

const (
	formPlain   = iota // address without /p2p suffix
	formOwn            // .../p2p/<the peer the call is about>
	formForeign        // .../p2p/<another peer>
)

type addrArg struct {
	Base    int `json:"base"`
	Form    int `json:"form"`
	Foreign int `json:"foreign,omitempty"` // which other peer's id is the suffix (formForeign)
}

var ttlUniverse = []time.Duration{
	-1, 0, time.Second, 10 * time.Second,
	peerstore.TempAddrTTL, peerstore.RecentlyConnectedAddrTTL,
	peerstore.ConnectedAddrTTL, peerstore.PermanentAddrTTL,
}
var ttlWeights = []int{4, 6, 12, 16, 16, 14, 18, 8}

func ttlName(d time.Duration) string {
	switch d {
	case peerstore.ConnectedAddrTTL:
		return "Connected"
	case peerstore.PermanentAddrTTL:
		return "Permanent"
	case peerstore.TempAddrTTL:
		return "Temp(2m)"
	case peerstore.RecentlyConnectedAddrTTL:
		return "Recent(15m)"
	}
	return d.String()
}

type opKind int

const (
	opAdd opKind = iota
	opSet
	opUpdate
	opClear
	opConsume
	opAdvance
)

const (
	rdAddrs = iota
	rdRecord
	rdPeers
)

type read struct {
	Kind int `json:"kind"`
	Peer int `json:"peer"`
}

type step struct {
	Kind   opKind        `json:"kind"`
	Peer   int           `json:"peer"`
	Addrs  []addrArg     `json:"addrs,omitempty"`
	TTL    time.Duration `json:"ttl,omitempty"`
	OldTTL time.Duration `json:"old_ttl,omitempty"`
	Seq    uint64        `json:"seq,omitempty"`
	Sec    int64         `json:"sec,omitempty"`
	Single bool          `json:"single,omitempty"` // AddAddr/SetAddr instead of AddAddrs/SetAddrs
	Reads  []read        `json:"reads,omitempty"`
	Reopen bool          `json:"reopen,omitempty"` // close + reopen the datastore-backed books after this step
}

func argString(a addrArg) string {
	s := fmt.Sprintf("A%d", a.Base)
	switch a.Form {
	case formOwn:
		s += "/p2p/own"
	case formForeign:
		s += fmt.Sprintf("/p2p/P%d", a.Foreign)
	}
	return s
}

func argsString(as []addrArg) string {
	var parts []string
	for _, a := range as {
		parts = append(parts, argString(a))
	}
	return "[" + strings.Join(parts, ",") + "]"
}

func (s step) String() string {
	var b string
	switch s.Kind {
	case opAdd:
		if s.Single {
			b = fmt.Sprintf("AddAddr(P%d,%s,%s)", s.Peer, argString(s.Addrs[0]), ttlName(s.TTL))
		} else {
			b = fmt.Sprintf("AddAddrs(P%d,%s,%s)", s.Peer, argsString(s.Addrs), ttlName(s.TTL))
		}
	case opSet:
		if s.Single {
			b = fmt.Sprintf("SetAddr(P%d,%s,%s)", s.Peer, argString(s.Addrs[0]), ttlName(s.TTL))
		} else {
			b = fmt.Sprintf("SetAddrs(P%d,%s,%s)", s.Peer, argsString(s.Addrs), ttlName(s.TTL))
		}
	case opUpdate:
		b = fmt.Sprintf("UpdateAddrs(P%d,%s->%s)", s.Peer, ttlName(s.OldTTL), ttlName(s.TTL))
	case opClear:
		b = fmt.Sprintf("ClearAddrs(P%d)", s.Peer)
	case opConsume:
		b = fmt.Sprintf("ConsumePeerRecord(P%d,seq=%d,%s,%s)", s.Peer, s.Seq, argsString(s.Addrs), ttlName(s.TTL))
	case opAdvance:
		b = fmt.Sprintf("Advance(%ds)", s.Sec)
	}
	if s.Reopen {
		b += " +Reopen"
	}
	return b
}

// kindTag is the structural name of a step used in violation signatures (no random values).
func (s step) kindTag() string {
	switch s.Kind {
	case opAdd:
		if s.TTL <= 0 {
			return "AddNonPositive"
		}
		return "Add"
	case opSet:
		if s.TTL <= 0 {
			if len(s.Addrs) > 1 {
				return "SetDeleteBatch"
			}
			return "SetDelete"
		}
		return "Set"
	case opUpdate:
		return "Update"
	case opClear:
		return "Clear"
	case opConsume:
		listed := 0
		own := false
		for _, a := range s.Addrs {
			if a.Form != formForeign {
				listed++
			}
			if a.Form == formOwn {
				own = true
			}
		}
		switch {
		case listed == 0:
			return "ConsumeEmpty"
		case s.TTL <= 0:
			return "ConsumeNonPositive"
		case own:
			return "ConsumeOwnSuffix"
		}
		return "Consume"
	case opAdvance:
		return "Advance"
	}
	return "?"
}

// ---- store configurations ---------------------------------------------------------------------

const (
	skMem = iota
	skMemCapPeer
	skMemCapGlobal
	skDS
)

const (
	capPerPeer = 2
	capGlobal  = 3
)

type storeCfg struct {
	Kind      int  `json:"kind"`
	Cache     uint `json:"cache,omitempty"`
	Lookahead bool `json:"lookahead,omitempty"`
}

func (c storeCfg) name() string {
	switch c.Kind {
	case skMem:
		return "mem"
	case skMemCapPeer:
		return "mem/cap-per-peer-2"
	case skMemCapGlobal:
		return "mem/cap-global-3"
	}
	gc := "purge"
	if c.Lookahead {
		gc = "lookahead"
	}
	return fmt.Sprintf("ds/cache%d/%s", c.Cache, gc)
}

// class is the store name as used in signatures.
func (c storeCfg) class() string {
	switch c.Kind {
	case skMem:
		return "mem"
	case skMemCapPeer:
		return "memcap-peer"
	case skMemCapGlobal:
		return "memcap-global"
	}
	s := "ds-cache"
	if c.Cache == 0 {
		s = "ds-nocache"
	}
	if c.Lookahead {
		s += "-lookahead"
	}
	return s
}

var allDS = []storeCfg{
	{Kind: skDS, Cache: 0}, {Kind: skDS, Cache: 1}, {Kind: skDS, Cache: 16},
	{Kind: skDS, Cache: 0, Lookahead: true}, {Kind: skDS, Cache: 1, Lookahead: true}, {Kind: skDS, Cache: 16, Lookahead: true},
}

type history struct {
	ID        string        `json:"id"`
	Stores    []storeCfg    `json:"stores"`
	GCPurge   time.Duration `json:"gc_purge"`
	GCLook    time.Duration `json:"gc_lookahead"` // used by the lookahead stores only
	GCDelay   time.Duration `json:"gc_initial_delay"`
	ReadProb  float64       `json:"read_prob"`
	Steps     []step        `json:"steps"`
	StepsText []string      `json:"steps_text,omitempty"`
}

func (h *history) text() []string {
	out := make([]string, len(h.Steps))
	for i, s := range h.Steps {
		out[i] = fmt.Sprintf("%d: %s", i, s.String())
	}
	return out
}

// ---- GC schedules (harness knowledge about WHEN the stores' own collectors run) -----------------

// gcSchedule describes the tick times of one store's collector since it was (re)opened at `start`.
type gcSchedule struct {
	start     int64
	mem       bool
	purge     int64 // seconds
	look      int64 // 0: full purge
	delay     int64
	neverRuns bool
}

// guaranteed returns the latest instant T <= now such that every address that had expired by T is
// certain to have been collected by `now` (never if no such instant exists yet).
//
//	mem:        ticks at start + k*60 (k>=1), each tick collects everything expired by then.
//	ds purge:   ticks at start + delay + k*purge (k>=1), full sweep.
//	ds lookahead: the window is (re)populated at P_j = start + delay + j*look (j>=0) with every record
//	            whose earliest expiry is <= P_j + look; purge ticks visit the window. An address that
//	            had expired by P_j is certainly collected by the first purge tick strictly after P_j
//	            (a purge tick AT P_j may run before or after the populate: both orders are allowed).
func (g gcSchedule) guaranteed(now int64) int64 {
	if g.neverRuns {
		return never
	}
	if g.mem {
		k := (now - g.start) / 60
		if k < 1 {
			return never
		}
		return g.start + k*60
	}
	base := g.start + g.delay
	if now < base {
		return never
	}
	if g.look == 0 {
		k := (now - base) / g.purge
		if k < 1 {
			return never
		}
		return base + k*g.purge
	}
	best := int64(never)
	for j := (now - base) / g.look; j >= 0; j-- {
		p := base + j*g.look
		nextPurge := base + ((p-base)/g.purge+1)*g.purge
		if nextPurge <= now {
			best = p
			break
		}
	}
	return best
}

// nextTick returns the next instant > now at which the collector does something.
func (g gcSchedule) nextTick(now int64) int64 {
	if g.mem {
		return g.start + ((now-g.start)/60+1)*60
	}
	base := g.start + g.delay
	if now < base {
		return base
	}
	return base + ((now-base)/g.purge+1)*g.purge
}

func (h *history) schedule(c storeCfg, start int64) gcSchedule {
	if c.Kind != skDS {
		return gcSchedule{start: start, mem: true}
	}
	g := gcSchedule{start: start, purge: int64(h.GCPurge / time.Second), delay: int64(h.GCDelay / time.Second)}
	if c.Lookahead {
		g.look = int64(h.GCLook / time.Second)
	}
	return g
}

// ---- generator --------------------------------------------------------------------------------

func pickWeighted(rng *rand.Rand, w []int) int {
	t := 0
	for _, x := range w {
		t += x
	}
	n := rng.IntN(t)
	for i, x := range w {
		if n < x {
			return i
		}
		n -= x
	}
	return len(w) - 1
}

func pickTTL(rng *rand.Rand) time.Duration { return ttlUniverse[pickWeighted(rng, ttlWeights)] }

func pickPeer(rng *rand.Rand) int { return pickWeighted(rng, []int{3, 2, 1}) }

func pickForm(rng *rand.Rand, peer int, ownPct, foreignPct int) addrArg {
	a := addrArg{Base: rng.IntN(nBases)}
	x := rng.IntN(100)
	switch {
	case x < ownPct:
		a.Form = formOwn
	case x < ownPct+foreignPct:
		a.Form = formForeign
		a.Foreign = (peer + 1 + rng.IntN(nPeers-1)) % nPeers
	}
	return a
}

type genOpts struct {
	reopenEvery bool
	minLen      int
	maxLen      int
}

// generate builds one history. A shadow copy of the reference model is stepped along so that the
// choices are aimed: clock advances land on, just before and just after expiries and GC ticks, TTL-class
// updates name classes that exist, sequence numbers are lower/equal/higher than the stored one.
func generate(rng *rand.Rand, id string, stores []storeCfg, o genOpts) *history {
	h := &history{ID: id, Stores: stores}
	h.GCPurge = []time.Duration{5 * time.Second, 20 * time.Second, 60 * time.Second}[rng.IntN(3)]
	h.GCLook = h.GCPurge * time.Duration([]int{1, 2, 4}[rng.IntN(3)])
	h.GCDelay = []time.Duration{0, time.Second, 7 * time.Second}[rng.IntN(3)]
	h.ReadProb = []float64{1, 0.5, 0.5, 0.2, 0.2}[rng.IntN(5)]
	n := o.minLen + rng.IntN(o.maxLen-o.minLen+1)

	const t0 = 0 // relative clock of the shadow model
	sm := newModel(t0, nPeers)
	lastSeq := make([]uint64, nPeers) // last sequence number handed out per peer (10 at start)
	for i := range lastSeq {
		lastSeq[i] = 10
	}
	scheds := make([]gcSchedule, len(stores))
	for i, c := range stores {
		scheds[i] = h.schedule(c, t0)
	}

	reopenAt := map[int]bool{}
	if !o.reopenEvery {
		for k := 0; k < 3; k++ {
			reopenAt[rng.IntN(n)] = true
		}
	}

	for i := 0; i < n; i++ {
		var s step
		s.Kind = opKind(pickWeighted(rng, []int{22, 18, 12, 4, 16, 28}))
		s.Peer = pickPeer(rng)
		p := sm.peers[s.Peer]
		switch s.Kind {
		case opAdd, opSet:
			s.TTL = pickTTL(rng)
			if s.Kind == opSet && rng.IntN(100) < 20 {
				s.TTL = []time.Duration{0, 0, -1}[rng.IntN(3)]
			}
			k := []int{1, 1, 1, 1, 2, 2, 3, 3, 4, 5}[rng.IntN(10)]
			if s.Kind == opSet && s.TTL <= 0 && len(p.addrs) > 0 && rng.IntN(100) < 70 {
				// delete a chosen subset of the addresses that exist, in random order
				live := sm.live(s.Peer)
				rng.Shuffle(len(live), func(a, b int) { live[a], live[b] = live[b], live[a] })
				k = 1 + rng.IntN(len(live))
				for _, b := range live[:k] {
					a := addrArg{Base: b}
					if rng.IntN(100) < 10 {
						a.Form = formOwn
					}
					s.Addrs = append(s.Addrs, a)
				}
				if rng.IntN(100) < 15 {
					s.Addrs = append(s.Addrs, pickForm(rng, s.Peer, 0, 100))
				}
			} else {
				for j := 0; j < k; j++ {
					s.Addrs = append(s.Addrs, pickForm(rng, s.Peer, 12, 13))
				}
			}
			s.Single = len(s.Addrs) == 1 && rng.IntN(2) == 0
		case opUpdate:
			seen := map[time.Duration]bool{}
			var present []time.Duration
			for _, e := range p.addrs {
				if !seen[e.ttl] {
					seen[e.ttl] = true
					present = append(present, e.ttl)
				}
			}
			sortDurations(present) // map iteration order is random: make the choice a function of the PRNG only
			if len(present) > 0 && rng.IntN(100) < 75 {
				s.OldTTL = present[rng.IntN(len(present))]
			} else {
				s.OldTTL = pickTTL(rng)
			}
			s.TTL = pickTTL(rng)
		case opClear:
		case opConsume:
			s.TTL = pickTTL(rng)
			cur := lastSeq[s.Peer]
			if p.rec != nil {
				cur = p.rec.seq
			}
			switch x := rng.IntN(100); {
			case x < 22 && cur > 0:
				s.Seq = cur - 1
			case x < 45:
				s.Seq = cur
			case x < 90:
				s.Seq = cur + 1
			default:
				s.Seq = cur + 2 + uint64(rng.IntN(3))
			}
			for b := 0; b < nBases; b++ {
				if rng.IntN(100) < 42 {
					a := addrArg{Base: b}
					switch x := rng.IntN(100); {
					case x < 8:
						a.Form = formOwn
					case x < 16:
						a.Form = formForeign
						a.Foreign = (s.Peer + 1 + rng.IntN(nPeers-1)) % nPeers
					}
					s.Addrs = append(s.Addrs, a)
				}
			}
			rng.Shuffle(len(s.Addrs), func(a, b int) { s.Addrs[a], s.Addrs[b] = s.Addrs[b], s.Addrs[a] })
		case opAdvance:
			s.Sec = 1
			switch x := rng.IntN(100); {
			case x < 18:
			case x < 40:
				t := []int64{1, 10, 120, 900}[pickWeighted(rng, []int{3, 4, 4, 2})]
				s.Sec = t + int64(rng.IntN(3)) - 1
			case x < 72:
				// land on / next to the expiry of an entry that exists
				var exps []int64
				for _, q := range sm.peers {
					for _, e := range q.addrs {
						if !isConnected(e.ttl) {
							exps = append(exps, e.exp)
						}
					}
				}
				if len(exps) > 0 {
					sortInt64(exps)
					e := exps[rng.IntN(len(exps))]
					if rng.IntN(2) == 0 {
						e = exps[0]
					}
					s.Sec = e - sm.now + int64(rng.IntN(3)) - 1
				}
			case x < 82:
				s.Sec = 120
			default:
				// land on / just after the next collector tick of one of the stores
				g := scheds[rng.IntN(len(scheds))]
				s.Sec = g.nextTick(sm.now) - sm.now + int64(rng.IntN(2))
				if rng.IntN(4) == 0 {
					s.Sec += g.nextTick(sm.now+s.Sec) - (sm.now + s.Sec)
				}
			}
			if s.Sec < 1 {
				s.Sec = 1
			}
		}
		// observations after the step
		for pi := 0; pi < nPeers; pi++ {
			if rng.Float64() < h.ReadProb {
				s.Reads = append(s.Reads, read{rdAddrs, pi})
			}
			if rng.Float64() < h.ReadProb {
				s.Reads = append(s.Reads, read{rdRecord, pi})
			}
		}
		if rng.Float64() < h.ReadProb {
			s.Reads = append(s.Reads, read{rdPeers, 0})
		}
		rng.Shuffle(len(s.Reads), func(a, b int) { s.Reads[a], s.Reads[b] = s.Reads[b], s.Reads[a] })
		s.Reopen = o.reopenEvery || reopenAt[i]

		// step the shadow model
		switch s.Kind {
		case opAdd:
			sm.Add(s.Peer, s.Addrs, s.TTL)
		case opSet:
			sm.Set(s.Peer, s.Addrs, s.TTL)
		case opUpdate:
			sm.Update(s.Peer, s.OldTTL, s.TTL)
		case opClear:
			sm.Clear(s.Peer)
		case opConsume:
			if ok, _, _ := sm.Consume(s.Peer, s.Seq, s.Addrs, s.TTL); ok {
				lastSeq[s.Peer] = s.Seq
			}
		case opAdvance:
			sm.advance(s.Sec)
		}
		if s.Reopen {
			for k, c := range stores {
				if c.Kind == skDS {
					scheds[k] = h.schedule(c, sm.now)
				}
			}
		}
		h.Steps = append(h.Steps, s)
	}
	return h
}

func sortDurations(d []time.Duration) {
	for i := 1; i < len(d); i++ {
		for j := i; j > 0 && d[j] < d[j-1]; j-- {
			d[j], d[j-1] = d[j-1], d[j]
		}
	}
}

func sortInt64(d []int64) {
	for i := 1; i < len(d); i++ {
		for j := i; j > 0 && d[j] < d[j-1]; j-- {
			d[j], d[j-1] = d[j-1], d[j]
		}
	}
}
