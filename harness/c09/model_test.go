package c09

import (
	"math"
	"sort"
	"time"

	"github.com/libp2p/go-libp2p/core/peerstore"
)

// Reference model of one address book, written from the statement of C09 (not from the code).
//
// Time is counted in whole seconds (the datastore-backed book stores whole seconds; sub-second
// behaviour is deliberately not compared, DESIGN.md §4). Addresses are identified by their index in
// the base-address universe; the /p2p suffix rule is applied before anything is stored.

const never = math.MinInt64

type mEntry struct {
	ttl time.Duration // TTL class = the TTL value most recently assigned (or the larger one after an add)
	exp int64         // most recently assigned expiry, unix seconds
}

type mRec struct {
	seq   uint64
	addrs map[int]bool // addresses the record lists (after the suffix rule)
}

type mPeer struct {
	addrs  map[int]*mEntry
	rec    *mRec  // the signed record that is currently retrievable, nil if none
	recKey string // identity of that record (which envelope was accepted last)
	// deadSince: the first collector tick instant from which on the peer's remains are garbage; meaningful
	// only while len(addrs)==0. Last address expired at e: e (a collector running at e removes it). Last
	// address removed by a write at w: w+1 (a collector tick at w ran before the write). never: the peer
	// never had a live address.
	deadSince int64
	lastWrite int64 // instant of the last write to this peer (for the in-memory white-box check)
}

type model struct {
	now   int64
	peers []*mPeer
}

func newModel(now int64, npeers int) *model {
	m := &model{now: now}
	for i := 0; i < npeers; i++ {
		m.peers = append(m.peers, &mPeer{addrs: map[int]*mEntry{}, deadSince: never, lastWrite: never})
	}
	return m
}

func (m *model) clone() *model {
	c := &model{now: m.now}
	for _, p := range m.peers {
		q := &mPeer{addrs: map[int]*mEntry{}, deadSince: p.deadSince, recKey: p.recKey, lastWrite: p.lastWrite}
		for k, e := range p.addrs {
			ce := *e
			q.addrs[k] = &ce
		}
		if p.rec != nil {
			q.rec = &mRec{seq: p.rec.seq, addrs: map[int]bool{}}
			for k := range p.rec.addrs {
				q.rec.addrs[k] = true
			}
		}
		c.peers = append(c.peers, q)
	}
	return c
}

func isConnected(ttl time.Duration) bool { return ttl >= peerstore.ConnectedAddrTTL }

// expiryOf: "expiry" = instant of the assignment + ttl, in whole seconds.
func (m *model) expiryOf(ttl time.Duration) int64 { return m.now + int64(ttl/time.Second) }

// settle applies the two clauses that hold at every instant:
//   - "expired addresses are never returned": an address is live only while now < expiry;
//   - "[the record] is never returned once all of the peer's addresses have expired or been cleared".
func (m *model) settle() {
	for _, p := range m.peers {
		had := len(p.addrs) > 0
		last := int64(never)
		for k, e := range p.addrs {
			if e.exp <= m.now {
				if e.exp > last {
					last = e.exp
				}
				delete(p.addrs, k)
			}
		}
		if len(p.addrs) == 0 {
			p.rec = nil
			if had {
				// the last live address went away by expiry
				p.deadSince = last
			}
		}
	}
}

// afterWrite is settle() for a peer that was just written at the current instant.
func (m *model) afterWrite(p *mPeer, wasLive bool) {
	p.lastWrite = m.now
	if len(p.addrs) == 0 {
		p.rec = nil
		if wasLive {
			p.deadSince = m.now + 1
		}
	}
}

func (m *model) advance(sec int64) {
	m.now += sec
	m.settle()
}

// resolve applies the suffix rule: "addresses with a /p2p suffix of another peer are ignored and
// with the own peer id are stored without the suffix".
func resolve(peer int, a addrArg) (int, bool) {
	if a.Form == formForeign {
		return 0, false
	}
	return a.Base, true
}

// add: "adding never shortens an address's lifetime" — expiry becomes the later one, the TTL class
// the larger one; a non-positive TTL adds nothing.
func (m *model) add(pi int, args []addrArg, ttl time.Duration) {
	p := m.peers[pi]
	if ttl <= 0 {
		return
	}
	exp := m.expiryOf(ttl)
	for _, a := range args {
		idx, ok := resolve(pi, a)
		if !ok {
			continue
		}
		e := p.addrs[idx]
		if e == nil {
			p.addrs[idx] = &mEntry{ttl: ttl, exp: exp}
			continue
		}
		if ttl > e.ttl {
			e.ttl = ttl
		}
		if exp > e.exp {
			e.exp = exp
		}
	}
}

func (m *model) Add(pi int, args []addrArg, ttl time.Duration) {
	p := m.peers[pi]
	was := len(p.addrs) > 0
	m.add(pi, args, ttl)
	m.afterWrite(p, was)
}

// Set: "setting overrides it, setting a non-positive TTL removes exactly the named addresses".
func (m *model) Set(pi int, args []addrArg, ttl time.Duration) {
	p := m.peers[pi]
	was := len(p.addrs) > 0
	for _, a := range args {
		idx, ok := resolve(pi, a)
		if !ok {
			continue
		}
		if ttl <= 0 {
			delete(p.addrs, idx)
			continue
		}
		p.addrs[idx] = &mEntry{ttl: ttl, exp: m.expiryOf(ttl)}
	}
	m.afterWrite(p, was)
}

// Update: "a TTL-class update moves exactly the addresses in that class" (the live ones: expired
// addresses are no longer in the book); moving to a non-positive TTL means they expire at once.
func (m *model) Update(pi int, oldTTL, newTTL time.Duration) (moved int) {
	p := m.peers[pi]
	was := len(p.addrs) > 0
	for k, e := range p.addrs {
		if e.ttl != oldTTL {
			continue
		}
		moved++
		if newTTL <= 0 {
			delete(p.addrs, k)
			continue
		}
		e.ttl, e.exp = newTTL, m.expiryOf(newTTL)
	}
	m.afterWrite(p, was)
	return moved
}

func (m *model) Clear(pi int) {
	p := m.peers[pi]
	was := len(p.addrs) > 0
	p.addrs = map[int]*mEntry{}
	p.rec = nil
	m.afterWrite(p, was)
}

// Consume: "A signed peer record is accepted only if its sequence number is not lower than the
// stored one [stored = the record currently retrievable], evicts the addresses of the previous
// record that it no longer lists except those held by a live connection [connected TTL class]";
// its addresses are then added with the given TTL (add semantics).
func (m *model) Consume(pi int, seq uint64, args []addrArg, ttl time.Duration) (accepted bool, evicted, keptConnected int) {
	p := m.peers[pi]
	was := len(p.addrs) > 0
	if p.rec != nil && seq < p.rec.seq {
		return false, 0, 0
	}
	listed := map[int]bool{}
	for _, a := range args {
		if idx, ok := resolve(pi, a); ok {
			listed[idx] = true
		}
	}
	if p.rec != nil {
		for idx := range p.rec.addrs {
			if listed[idx] {
				continue
			}
			if e := p.addrs[idx]; e != nil {
				if isConnected(e.ttl) {
					keptConnected++
				} else {
					delete(p.addrs, idx)
					evicted++
				}
			}
		}
	}
	p.rec = &mRec{seq: seq, addrs: listed}
	m.add(pi, args, ttl)
	m.afterWrite(p, was)
	return true, evicted, keptConnected
}

func (m *model) live(pi int) []int {
	var out []int
	for k := range m.peers[pi].addrs {
		out = append(out, k)
	}
	sort.Ints(out)
	return out
}

func (m *model) isLive(pi int) bool { return len(m.peers[pi].addrs) > 0 }
