// C15 — Event bus delivers every event exactly once, in order, without deadlock.
//
// Workload: the REAL eventbus under generated concurrent scripts (real goroutines, outside synctest
// bubbles: emits hold a lock while blocked on a slow subscriber by design, DESIGN.md §2.2): typed,
// multi-type and wildcard subscriptions, buffers {0,1,2,16}, 1–4 emitters per type × 1–4 goroutines,
// stateful and plain types, readers at random pace, Subscribe / Subscription.Close / Emitter.Close at
// generated points concurrently with emits, GOMAXPROCS varied in-process. Every event carries
// (emitter id, per-emitter sequence number, type). Oracle: oracle.go (offline, over the recorded logs);
// panics of bus calls and repeated stalls are violations as well (the statement includes both).
// One dedicated case reproduces known finding F9 (multi-type Subscribe deadlock).
package c15

import (
	"fmt"
	"math/rand/v2"
	"os"
	"regexp"
	"runtime"
	"sort"
	"strings"
	"sync"
	"sync/atomic"
	"testing"
	"time"

	"github.com/libp2p/go-libp2p/core/event"
	"github.com/libp2p/go-libp2p/p2p/host/eventbus"

	"verif/harness/rig/run"
)

// ---- event types (the bus is keyed by Go type) ----

type evT0 struct{ Em, Seq int32 }
type evT1 struct{ Em, Seq int32 }
type evT2 struct{ Em, Seq int32 }
type evT3 struct{ Em, Seq int32 }

const maxTypes = 4

var typePtr = [maxTypes]any{new(evT0), new(evT1), new(evT2), new(evT3)}

func mkEvent(typ, em, seq int) any {
	switch typ {
	case 0:
		return evT0{int32(em), int32(seq)}
	case 1:
		return evT1{int32(em), int32(seq)}
	case 2:
		return evT2{int32(em), int32(seq)}
	default:
		return evT3{int32(em), int32(seq)}
	}
}

func decode(v any) (typ, em, seq int, ok bool) {
	switch x := v.(type) {
	case evT0:
		return 0, int(x.Em), int(x.Seq), true
	case evT1:
		return 1, int(x.Em), int(x.Seq), true
	case evT2:
		return 2, int(x.Em), int(x.Seq), true
	case evT3:
		return 3, int(x.Em), int(x.Seq), true
	}
	return -1, -1, -1, false
}

// ---- generated case ----

const (
	closeFinalSelf  = iota // reader closes itself after it caught up with everything (quiescent close)
	closeFinalOther        // another goroutine closes after the reader caught up; the reader keeps reading
	closeEarlySelf         // reader closes itself after K reads (nobody reads during Close)
	closeEarlyOther        // another goroutine closes after K reads; the reader keeps reading
	closeTimed             // another goroutine closes once CloseAt events were emitted overall
)

var closeModeName = []string{"final-self", "final-other", "earlyK-self", "earlyK-other", "at-emit-count"}

type emSpec struct {
	ID, Typ    int
	Goroutines int
	PerG       int // events per goroutine
	StartAt    int // opens once this many events were emitted overall (or all earlier emitters finished)
	AfterClose int // -1, or: opens only after that (earlier, same type) emitter was closed
	Pace       int
	CloseAfter int // 0: Close after all goroutines finished; >0: Close concurrently, once this many of its emits returned
	// an emitter of a stateful type created WITHOUT the Stateful option (Stateful is an emitter option: the
	// type is kept stateful by the other emitters of the type, whatever the order they are opened in)
	Plain bool
}

type subSpec struct {
	ID, Kind  int
	Types     []int
	Buf       int
	StartAt   int
	Pace      int
	CloseMode int
	K         int
	CloseAt   int
	StallMs   int // slow-consumer cases: the reader does not read for this long (real time) right after Subscribe
}

type caseSpec struct {
	Idx      int
	NTypes   int
	Stateful []bool
	Emitters []emSpec
	Subs     []subSpec
	Procs    int
}

func (c *caseSpec) render() map[string]any {
	var em, su []string
	for _, e := range c.Emitters {
		em = append(em, fmt.Sprintf("emitter %d: type %d, %d goroutines x %d events, opens at emit-count %d afterClose=%d, pace %d, closeAfter=%d, without-stateful-option=%v",
			e.ID, e.Typ, e.Goroutines, e.PerG, e.StartAt, e.AfterClose, e.Pace, e.CloseAfter, e.Plain))
	}
	for _, s := range c.Subs {
		su = append(su, fmt.Sprintf("sub %d: %s types %v buf %d, subscribes at emit-count %d, pace %d, close %s K=%d closeAt=%d stallMs=%d",
			s.ID, kindName[s.Kind], s.Types, s.Buf, s.StartAt, s.Pace, closeModeName[s.CloseMode], s.K, s.CloseAt, s.StallMs))
	}
	return map[string]any{"case": c.Idx, "gomaxprocs": c.Procs, "types": c.NTypes, "stateful": c.Stateful, "emitters": em, "subscribers": su}
}

var bufChoices = []int{0, 1, 2, 16}

func pick(rng *rand.Rand, xs []int) int { return xs[rng.IntN(len(xs))] }

func genCase(r *run.R, idx int) *caseSpec {
	rng := r.Rand(15, uint64(idx))
	c := &caseSpec{Idx: idx}
	c.NTypes = pick(rng, []int{1, 1, 2, 2, 2, 3, 3, 4})
	c.Stateful = make([]bool, c.NTypes)
	for t := range c.Stateful {
		c.Stateful[t] = rng.IntN(2) == 0
	}
	planned := 0
	lastOfType := map[int]int{}
	for t := 0; t < c.NTypes; t++ {
		nEm := pick(rng, []int{1, 1, 2, 2, 3, 4})
		for k := 0; k < nEm; k++ {
			e := emSpec{ID: len(c.Emitters), Typ: t, AfterClose: -1}
			e.Goroutines = pick(rng, []int{1, 1, 2, 2, 3, 4})
			e.PerG = 1 + rng.IntN(8)
			if e.ID > 0 {
				e.StartAt = rng.IntN(planned + 1)
				if rng.IntN(3) == 0 {
					e.StartAt = 0
				}
			}
			if prev, ok := lastOfType[t]; ok && rng.IntN(3) == 0 {
				e.AfterClose = prev
			}
			e.Pace = pick(rng, []int{0, 0, 1, 1, 2, 3})
			if rng.IntN(3) == 0 {
				e.CloseAfter = 1 + rng.IntN(e.Goroutines*e.PerG)
			}
			if c.Stateful[t] && nEm > 1 && rng.IntN(3) == 0 {
				e.Plain = true
			}
			planned += e.Goroutines * e.PerG
			lastOfType[t] = e.ID
			c.Emitters = append(c.Emitters, e)
		}
	}
	nSub := 1 + rng.IntN(5)
	for k := 0; k < nSub; k++ {
		s := subSpec{ID: k, Buf: pick(rng, bufChoices)}
		switch x := rng.IntN(8); {
		case x < 4 || (x < 6 && c.NTypes < 2):
			s.Kind = kindTyped
			s.Types = []int{rng.IntN(c.NTypes)}
		case x < 6:
			s.Kind = kindMulti
			perm := rng.Perm(c.NTypes)
			s.Types = perm[:2+rng.IntN(c.NTypes-1)]
			// generator rule (finding F9): a multi-type subscription's buffer holds at least one slot per
			// stateful type in it
			nst := 0
			for _, t := range s.Types {
				if c.Stateful[t] {
					nst++
				}
			}
			for s.Buf < nst {
				s.Buf = pick(rng, bufChoices)
			}
		default:
			s.Kind = kindWild
		}
		if rng.IntN(5) >= 2 {
			s.StartAt = rng.IntN(planned + 1)
		}
		s.Pace = pick(rng, []int{0, 1, 1, 2, 2, 3})
		s.CloseMode = pick(rng, []int{closeFinalSelf, closeFinalSelf, closeFinalOther, closeEarlySelf, closeEarlySelf, closeEarlyOther, closeTimed})
		s.K = rng.IntN(14)
		s.CloseAt = s.StartAt + rng.IntN(planned-s.StartAt+1)
		c.Subs = append(c.Subs, s)
	}
	return c
}

// ---- execution ----

const (
	kEmit = iota
	kSubscribe
	kSubClose
	kEmOpen
	kEmClose
	nCallKinds
)

var callName = []string{"Emit", "Subscribe", "Subscription.Close", "Emitter", "Emitter.Close"}

type world struct {
	r    *run.R
	spec *caseSpec
	bus  event.Bus
	clk  atomic.Int64

	// structMu keeps a multi-type Subscribe (exclusive) from overlapping any other call that takes the
	// bus-wide lock (single Subscribe, Emitter, Emitter.Close, Subscription.Close: shared). Emits are
	// never serialised. Without a third party holding the bus lock the F9 cycle cannot close.
	structMu sync.RWMutex

	emitted    atomic.Int64
	longEmits  atomic.Int64 // evidence only: Emit calls that stayed blocked for more than a second of real time
	timeEmits  bool
	emFinished []atomic.Bool
	allEmDone  atomic.Bool
	dead       atomic.Bool // case abandoned: polling loops must end

	hist       history
	emMu       sync.Mutex
	subscribed []chan struct{}

	inflight [nCallKinds]atomic.Int32

	abort      chan struct{}
	abortOnce  sync.Once
	panicKind  string
	panicVal   string
	panicStack string
	harnessErr atomic.Value // string

	allSent chan struct{} // closed once every Emit of the run, closing markers included, has returned
	stop    chan struct{}
	done    chan struct{}
}

func (w *world) tick() int64 { return w.clk.Add(1) }

// call runs one bus call, counts it as in flight and turns a panic into an abort of the case.
func (w *world) call(kind int, fn func()) (ok bool) {
	w.inflight[kind].Add(1)
	defer func() {
		if p := recover(); p != nil {
			stack := run.Stacks()
			w.abortOnce.Do(func() {
				w.panicKind, w.panicVal, w.panicStack = callName[kind], fmt.Sprint(p), stack
				close(w.abort)
			})
			ok = false
			return
		}
		w.inflight[kind].Add(-1)
	}()
	fn()
	return true
}

func pause(i int) {
	if i%16 == 15 {
		time.Sleep(5 * time.Microsecond)
	} else {
		runtime.Gosched()
	}
}

func pace(rng *rand.Rand, p int) {
	switch p {
	case 0:
		if rng.IntN(8) == 0 {
			runtime.Gosched()
		}
	case 1:
		runtime.Gosched()
	case 2:
		if rng.IntN(4) == 0 {
			time.Sleep(time.Duration(1+rng.IntN(20)) * time.Microsecond)
		} else {
			runtime.Gosched()
		}
	default:
		if rng.IntN(2) == 0 {
			time.Sleep(time.Duration(10+rng.IntN(100)) * time.Microsecond)
		} else {
			runtime.Gosched()
		}
	}
}

// waitEmitted blocks (polling, no bus call) until n events were emitted overall or no emitter is left.
func (w *world) waitEmitted(n int) {
	for i := 0; w.emitted.Load() < int64(n) && !w.allEmDone.Load() && !w.dead.Load(); i++ {
		pause(i)
	}
}

func (w *world) emitterActor(es *emSpec, wg *sync.WaitGroup) {
	defer wg.Done()
	defer w.emFinished[es.ID].Store(true)
	lowerDone := func() bool {
		for j := 0; j < es.ID; j++ {
			if !w.emFinished[j].Load() {
				return false
			}
		}
		return true
	}
	for i := 0; w.emitted.Load() < int64(es.StartAt) && !lowerDone() && !w.dead.Load(); i++ {
		pause(i)
	}
	if es.AfterClose >= 0 {
		for i := 0; !w.emFinished[es.AfterClose].Load() && !w.dead.Load(); i++ {
			pause(i)
		}
	}
	lg := &w.hist.Emitters[es.ID]
	var opts []event.EmitterOpt
	if lg.Stateful {
		opts = append(opts, eventbus.Stateful)
	}
	var em event.Emitter
	var err error
	w.structMu.RLock()
	lg.OpenCall = w.tick()
	ok := w.call(kEmOpen, func() { em, err = w.bus.Emitter(typePtr[es.Typ], opts...) })
	if ok {
		lg.OpenRet = w.tick()
	}
	w.structMu.RUnlock()
	if !ok {
		return
	}
	if err != nil {
		w.harnessErr.Store("Emitter: " + err.Error())
		return
	}
	var seq, returned atomic.Int32
	closeNow := make(chan struct{})
	var closeOnce sync.Once
	var gwg sync.WaitGroup
	for g := 0; g < es.Goroutines; g++ {
		gwg.Add(1)
		go func() {
			defer gwg.Done()
			rng := w.r.Rand(15, uint64(w.spec.Idx), 100, uint64(es.ID), uint64(g))
			local := make([]emission, 0, es.PerG)
			defer func() {
				w.emMu.Lock()
				w.hist.Emissions = append(w.hist.Emissions, local...)
				w.emMu.Unlock()
			}()
			for i := 0; i < es.PerG && !w.dead.Load(); i++ {
				rec := emission{Em: es.ID, Seq: int(seq.Add(1)), Typ: es.Typ, G: g, Ret: never}
				evt := mkEvent(es.Typ, rec.Em, rec.Seq)
				var eerr error
				var t0 time.Time
				if w.timeEmits {
					t0 = time.Now()
				}
				rec.Call = w.tick()
				ok := w.call(kEmit, func() { eerr = em.Emit(evt) })
				if !ok {
					local = append(local, rec)
					return
				}
				rec.Ret = w.tick()
				if w.timeEmits && time.Since(t0) > time.Second {
					w.longEmits.Add(1)
				}
				rec.Refused = eerr != nil
				local = append(local, rec)
				if eerr != nil {
					return // emitter was closed under us: later emits are refused as well
				}
				w.emitted.Add(1)
				if n := returned.Add(1); es.CloseAfter > 0 && int(n) == es.CloseAfter {
					closeOnce.Do(func() { close(closeNow) })
				}
				pace(rng, es.Pace)
			}
		}()
	}
	if es.CloseAfter > 0 {
		allDone := make(chan struct{})
		go func() { gwg.Wait(); close(allDone) }()
		select {
		case <-closeNow: // Close concurrently with the remaining emits
		case <-allDone:
		}
	} else {
		gwg.Wait()
	}
	w.structMu.RLock()
	lg.CloseCall = w.tick()
	if w.call(kEmClose, func() { em.Close() }) {
		lg.CloseRet = w.tick()
	}
	w.structMu.RUnlock()
	gwg.Wait()
}

func (w *world) subActor(ss *subSpec, closeWG, readWG *sync.WaitGroup) {
	defer readWG.Done()
	sl := w.hist.Subs[ss.ID]
	rng := w.r.Rand(15, uint64(w.spec.Idx), 200, uint64(ss.ID))
	w.waitEmitted(ss.StartAt)
	var arg any
	switch ss.Kind {
	case kindTyped:
		arg = typePtr[ss.Types[0]]
	case kindMulti:
		var l []any
		for _, t := range ss.Types {
			l = append(l, typePtr[t])
		}
		arg = l
	default:
		arg = event.WildcardSubscription
	}
	var sub event.Subscription
	var err error
	if ss.Kind == kindMulti {
		w.structMu.Lock()
	} else {
		w.structMu.RLock()
	}
	sl.SubCall = w.tick()
	ok := w.call(kSubscribe, func() { sub, err = w.bus.Subscribe(arg, eventbus.BufSize(ss.Buf)) })
	if ok {
		sl.SubRet = w.tick()
	}
	if ss.Kind == kindMulti {
		w.structMu.Unlock()
	} else {
		w.structMu.RUnlock()
	}
	if !ok || err != nil {
		if err != nil {
			w.harnessErr.Store("Subscribe: " + err.Error())
		}
		sl.SubRet = 0
		close(w.subscribed[ss.ID])
		closeWG.Done()
		return
	}
	close(w.subscribed[ss.ID])
	var once sync.Once
	ch := sub.Out()
	reads := 0
	record := func(v any) {
		st := w.tick()
		typ, em, seq, okd := decode(v)
		sl.Reads = append(sl.Reads, readRec{Typ: typ, Em: em, Seq: seq, Stamp: st, Decoded: okd})
		reads++
	}
	doClose := func(reader bool) {
		once.Do(func() {
			defer closeWG.Done()
			if reader {
				// The reader itself closes. It must not stop reading while it waits for the harness'
				// own structure lock (an emit blocked on this subscription could be what the lock's
				// holder waits for): keep consuming until the lock is granted, then call Close.
				for i := 0; !w.structMu.TryRLock(); i++ {
					select {
					case v, ok := <-ch:
						if ok {
							record(v)
						}
					default:
						pause(i)
					}
					if w.dead.Load() {
						return
					}
				}
			} else {
				w.structMu.RLock()
			}
			defer w.structMu.RUnlock()
			sl.CloseCall = w.tick()
			if w.call(kSubClose, func() { sub.Close() }) {
				sl.CloseRet = w.tick()
			}
		})
	}
	self := ss.CloseMode == closeFinalSelf || ss.CloseMode == closeEarlySelf
	early := ss.CloseMode == closeEarlySelf || ss.CloseMode == closeEarlyOther
	if ss.CloseMode == closeTimed {
		go func() { w.waitEmitted(ss.CloseAt); doClose(false) }()
	}
	issued := false
	trigger := func() {
		if issued {
			return
		}
		issued = true
		if self {
			doClose(true)
		} else {
			go doClose(false)
		}
	}
	if early && ss.K == 0 {
		trigger()
	}
	if ss.StallMs > 0 {
		time.Sleep(time.Duration(ss.StallMs) * time.Millisecond) // a slow consumer: emits must block, not drop
	}
	allSent := w.allSent
	for {
		full := cap(ch) > 0 && len(ch) == cap(ch)
		select {
		case v, ok := <-ch:
			if !ok {
				sl.ChanClosedAt = w.tick()
				return
			}
			record(v)
			if full {
				sl.FullReads++
			}
			if early && reads >= ss.K {
				trigger()
			}
			pace(rng, ss.Pace)
		case <-allSent:
			// Every Emit of the run (closing markers included) has returned and every Subscribe had
			// returned before the markers were emitted. "An emit blocks rather than drops": whatever
			// this subscription is to receive is in its buffer now. Empty it: the subscriber has then
			// caught up, and only now (if it has not been closed earlier) is it closed.
			allSent = nil
		sweep:
			for {
				select {
				case v, ok := <-ch:
					if !ok {
						sl.ChanClosedAt = w.tick()
						return
					}
					record(v)
				default:
					break sweep
				}
			}
			sl.CaughtUpAt = w.tick()
			trigger()
		case <-w.stop:
			// end of the run: anything still arriving was delivered to a closed subscription
			for {
				select {
				case v, ok := <-ch:
					if !ok {
						sl.ChanClosedAt = w.tick()
						return
					}
					record(v)
				default:
					return
				}
			}
		}
	}
}

// drive runs the whole script; it is abandoned by the controller when the case panics or stalls.
func (w *world) drive() {
	var emWG, closeWG, readWG sync.WaitGroup
	for i := range w.spec.Subs {
		closeWG.Add(1)
		readWG.Add(1)
		go w.subActor(&w.spec.Subs[i], &closeWG, &readWG)
	}
	for i := range w.spec.Emitters {
		emWG.Add(1)
		go w.emitterActor(&w.spec.Emitters[i], &emWG)
	}
	emWG.Wait()
	w.allEmDone.Store(true)
	for _, c := range w.subscribed {
		<-c
	}
	// closing markers: after every scripted Emit has returned and every Subscribe has returned, one more
	// event per type is emitted by a fresh emitter (an ordinary event for the oracle). Emitting it also
	// waits for any retained-event replay still in progress for that type (the statement's "first
	// receives": the replay precedes every later event), so once the markers' Emits have returned,
	// everything any subscription is to receive has been handed to its channel.
	nEm := len(w.spec.Emitters)
	for t := 0; t < w.spec.NTypes; t++ {
		lg := &w.hist.Emitters[nEm+t]
		var opts []event.EmitterOpt
		if lg.Stateful {
			opts = append(opts, eventbus.Stateful)
		}
		var em event.Emitter
		var err error
		w.structMu.RLock()
		lg.OpenCall = w.tick()
		ok := w.call(kEmOpen, func() { em, err = w.bus.Emitter(typePtr[t], opts...) })
		if ok {
			lg.OpenRet = w.tick()
		}
		w.structMu.RUnlock()
		if !ok || err != nil {
			return
		}
		rec := emission{Em: nEm + t, Seq: 1, Typ: t, Ret: never}
		rec.Call = w.tick()
		if !w.call(kEmit, func() { err = em.Emit(mkEvent(t, rec.Em, rec.Seq)) }) {
			return
		}
		rec.Ret = w.tick()
		rec.Refused = err != nil
		w.emMu.Lock()
		w.hist.Emissions = append(w.hist.Emissions, rec)
		w.emMu.Unlock()
		w.structMu.RLock()
		lg.CloseCall = w.tick()
		ok = w.call(kEmClose, func() { em.Close() })
		if ok {
			lg.CloseRet = w.tick()
		}
		w.structMu.RUnlock()
		if !ok {
			return
		}
	}
	close(w.allSent)
	closeWG.Wait()
	close(w.stop)
	readWG.Wait()
	close(w.done)
}

type caseResult struct {
	status   string // "ok", "panic", "stall", "harness"
	findings []finding
	stats    checkStats
	w        *world
	dump     string
	stuck    string
}

func newWorld(r *run.R, spec *caseSpec) *world {
	w := &world{r: r, spec: spec, bus: eventbus.NewBus(), abort: make(chan struct{}), allSent: make(chan struct{}), stop: make(chan struct{}), done: make(chan struct{})}
	nEm := len(spec.Emitters)
	w.emFinished = make([]atomic.Bool, nEm)
	w.hist.NTypes = spec.NTypes
	for _, ss := range spec.Subs {
		w.timeEmits = w.timeEmits || ss.StallMs > 0
	}
	w.hist.Stateful = spec.Stateful
	w.hist.Emitters = make([]emitterLog, nEm+spec.NTypes)
	for i, e := range spec.Emitters {
		w.hist.Emitters[i] = emitterLog{ID: i, Typ: e.Typ, Stateful: spec.Stateful[e.Typ] && !e.Plain, CloseCall: never, CloseRet: never}
	}
	for t := 0; t < spec.NTypes; t++ {
		w.hist.Emitters[nEm+t] = emitterLog{ID: nEm + t, Typ: t, Stateful: spec.Stateful[t], CloseCall: never, CloseRet: never}
	}
	for i := range spec.Subs {
		s := &spec.Subs[i]
		w.hist.Subs = append(w.hist.Subs, &subLog{ID: s.ID, Kind: s.Kind, Buf: s.Buf, Types: s.Types,
			SelfClose: s.CloseMode == closeFinalSelf || s.CloseMode == closeEarlySelf, CloseCall: never, CloseRet: never})
		w.subscribed = append(w.subscribed, make(chan struct{}))
	}
	return w
}

func runCase(r *run.R, spec *caseSpec, watchdog time.Duration) caseResult {
	w := newWorld(r, spec)
	go w.drive()
	timer := time.NewTimer(watchdog)
	defer timer.Stop()
	select {
	case <-w.done:
		if e, _ := w.harnessErr.Load().(string); e != "" {
			return caseResult{status: "harness", stuck: e, w: w}
		}
		f, st := check(&w.hist)
		return caseResult{status: "ok", findings: f, stats: st, w: w}
	case <-w.abort:
		w.dead.Store(true)
		return caseResult{status: "panic", w: w}
	case <-timer.C:
		dump := run.Stacks()
		w.dead.Store(true)
		var stuck []string
		for k := 0; k < nCallKinds; k++ {
			if w.inflight[k].Load() > 0 {
				stuck = append(stuck, callName[k])
			}
		}
		if len(stuck) == 0 {
			stuck = []string{"no-bus-call-in-flight"}
		}
		return caseResult{status: "stall", w: w, dump: dump, stuck: strings.Join(stuck, "+")}
	}
}

var hexRe = regexp.MustCompile(`0x[0-9a-f]+`)

func panicSig(kind, val string) string {
	v := hexRe.ReplaceAllString(val, "0x?")
	if len(v) > 60 {
		v = v[:60]
	}
	return "panic:" + kind + ":" + v
}

// eventbusGoroutines keeps only the goroutines of a dump that are inside the event bus.
func eventbusGoroutines(dump string, max int) string {
	var keep []string
	for _, g := range strings.Split(dump, "\n\n") {
		if strings.Contains(g, "p2p/host/eventbus") {
			keep = append(keep, g)
			if len(keep) >= max {
				break
			}
		}
	}
	return strings.Join(keep, "\n\n")
}

func TestC15(t *testing.T) {
	r := run.New(t, "C15", "exploration")
	defer r.Finish()
	procs0 := runtime.GOMAXPROCS(0)
	defer runtime.GOMAXPROCS(procs0)
	race := os.Getenv("VERIF_RACE") == "1"

	r.Rule("one case = one generated concurrent script on a fresh real bus (typed/multi-type/wildcard subscriptions, buffers {0,1,2,16}, 1-4 emitters per type x 1-4 goroutines, stateful and plain types, Subscribe/Close/Emitter.Close at generated points during the emits), all logs checked offline against the emission log; a case is non-trivial if at least one Subscribe or Subscription.Close call really overlapped an Emit of a subscribed type AND at least one no-loss obligation was decided; distinct = distinct generated scripts; plus slow/* (same oracle, first reader pauses >1 s) and f9/* (dedicated reproduction of known finding F9)")
	r.Assume(
		"schedules excluded on purpose (known finding F9): a multi-type Subscribe never overlaps another call that takes the bus-wide lock (Subscribe, Emitter, Emitter.Close, Subscription.Close) — the harness serialises exactly these with an RW lock, emits stay fully concurrent — and a multi-type subscription's buffer is >= the number of stateful types in it; on the unchanged tree the excluded schedules deadlock (multi-type registration is not atomic w.r.t. the channel being read) and are reproduced by the dedicated cases f9/*",
		"the retained event of a stateful type is REQUIRED only while some emitter created with eventbus.Stateful stays open from before the earlier Emit until after Subscribe returned (Stateful is an emitter option; with no emitter and no subscriber left the bus forgets the type); otherwise a replay is allowed but optional; wildcard subscribers are never required to get a replay",
		"order between overlapping Emit calls (same emitter, different goroutines) is left free; only Emit-returned-before-Emit-began pairs are ordered",
		"no-loss is decided where Close cannot have drained: for reads made before Close was called (per-emitter gaps) and completely for subscribers that closed after catching up",
		"stalls: real-time watchdog (20 s, >=1000x the normal duration of a case); a stalled script is re-run alone with a doubled watchdog (up to 25 solo runs, a completed one takes milliseconds) and only a repeated stall is a violation, a single stall is inconclusive",
		"slow/* cases use a real 1.1-1.3 s reader pause only to push emits past the bus' one-second slow-consumer warning; the verdict still comes from the logical-stamp oracle",
		"each reader is the only consumer of its subscription channel")

	oracleSelfCheck(r)

	n := r.Pick(24000, 1200000)
	if race {
		n = r.Pick(1600, 48000)
	}
	generated(r, n, procs0, race)
	runtime.GOMAXPROCS(procs0)
	if r.Violations() == 0 || r.Replaying() { // once refuted, do not spend another minute on sleeping cases
		slowConsumers(r, r.Pick(8, 48))
	}
	runtime.GOMAXPROCS(procs0)
	f9(r)
	readerClosesEmitter(r)
	oddSubscribeLists(r)

	if !r.Replaying() && r.Violations() == 0 {
		q := func(quick, thorough int) int {
			if race {
				return quick / 10
			}
			return r.Pick(quick, thorough)
		}
		r.Require("events_emitted", q(100000, 5000000))
		r.Require("events_read", q(100000, 5000000))
		r.Require("subs_typed", q(3000, 150000))
		r.Require("subs_multi", q(1000, 50000))
		r.Require("subs_wild", q(1000, 50000))
		r.Require("quiescent_subs_fully_compared", q(3000, 150000))
		r.Require("mandatory_events_checked", q(50000, 2500000))
		r.Require("gap_obligations_checked", q(50000, 2500000))
		r.Require("early_close_subs", q(2000, 100000))
		r.Require("close_overlapping_emit", q(1000, 50000))
		r.Require("subscribe_overlapping_emit", q(1000, 50000))
		r.Require("reads_after_close_called", q(300, 15000))
		r.Require("stateful_replays_seen", q(500, 25000))
		r.Require("stateful_replay_required_and_checked", q(300, 15000))
		r.Require("stateful_subscribe_with_concurrent_emit", q(300, 15000))
		r.Require("reads_with_full_buffer", q(3000, 150000))
		r.Require("reads_unbuffered", q(10000, 500000))
		r.Require("emits_refused_after_emitter_close", q(300, 15000))
		r.Require("emitter_reopened_after_type_had_none_with_live_sub", q(200, 10000))
		r.Require("slow_consumer_emits_blocked_over_1s", r.Pick(4, 24))
	}
}

func generated(r *run.R, n, procs0 int, race bool) {
	levels := []int{procs0, 4, procs0, 2, procs0, 8, procs0, 1}
	const block = 200
	watchdog := 20 * time.Second
	if race {
		watchdog = 60 * time.Second
	}
	var mu sync.Mutex
	var stalled []*caseSpec
	var stallDump = map[int]string{}
	sampleEvery := n/3 + 1
	handle := func(spec *caseSpec, res caseResult, rerun bool) {
		caseID := fmt.Sprintf("gen/%d", spec.Idx)
		switch res.status {
		case "harness":
			r.Inconclusive(caseID, "harness error: "+res.stuck)
		case "panic":
			w := res.w
			r.Violation(panicSig(w.panicKind, w.panicVal), caseID, fmt.Sprintf("%s panicked: %s", w.panicKind, w.panicVal),
				map[string]any{"script": spec.render(), "panic": w.panicVal, "stacks": eventbusGoroutines(w.panicStack, 12)})
			r.Count("cases_panicked", 1)
		case "stall":
			if !rerun {
				mu.Lock()
				stalled = append(stalled, spec)
				stallDump[spec.Idx] = eventbusGoroutines(res.dump, 40)
				mu.Unlock()
				r.Count("watchdog_fired_first_run", 1)
				return
			}
			// "never deadlocks": the same script stalled twice, the second time alone with a doubled watchdog
			r.Violation("stall:"+res.stuck, caseID, "bus calls did not return although every subscriber kept reading or was closed (stalled twice; second run alone, doubled watchdog); stuck calls: "+res.stuck,
				map[string]any{"script": spec.render(), "stuck_calls": res.stuck, "goroutines_second_run": eventbusGoroutines(res.dump, 40), "goroutines_first_run": stallDump[spec.Idx]})
			r.Count("cases_stalled_twice", 1)
		case "ok":
			st := res.stats
			seen := map[string]bool{}
			for _, f := range res.findings {
				if seen[f.Sig] {
					continue
				}
				seen[f.Sig] = true
				r.Violation(f.Sig, caseID, f.Msg, map[string]any{"script": spec.render(), "all_findings": findingStrings(res.findings), "history": res.w.hist.render()})
			}
			r.Eval(1)
			r.Count("events_emitted", st.events)
			r.Count("emits_refused_after_emitter_close", st.refused)
			r.Count("events_read", st.reads)
			r.Count("subs_typed", st.byKind[kindTyped])
			r.Count("subs_multi", st.byKind[kindMulti])
			r.Count("subs_wild", st.byKind[kindWild])
			r.Count("quiescent_subs_fully_compared", st.quiescentSubs)
			r.Count("early_close_subs", st.earlySubs)
			r.Count("mandatory_events_checked", st.mandatoryChecked)
			r.Count("gap_obligations_checked", st.gapChecks)
			r.Count("close_overlapping_emit", st.closeOverlapEmit)
			r.Count("subscribe_overlapping_emit", st.subOverlapEmit)
			r.Count("reads_after_close_called", st.readsAfterCloseCall)
			r.Count("stateful_replays_seen", st.replays)
			r.Count("stateful_replay_required_and_checked", st.replayRequired)
			r.Count("stateful_subscribe_with_concurrent_emit", st.replayConcurrentEmit)
			r.Count("events_overlapping_subscribe_delivered", st.staleOptionalRead)
			r.Count("reads_with_full_buffer", st.fullReads)
			r.Count("reads_unbuffered", st.unbufferedReads)
			r.Count("emitter_reopened_after_type_had_none_with_live_sub", st.reopenAfterZeroLiveSub)
			r.Count(fmt.Sprintf("cases_gomaxprocs_%d", spec.Procs), 1)
			if (st.subOverlapEmit > 0 || st.closeOverlapEmit > 0) && st.mandatoryChecked+st.gapChecks > 0 {
				r.Nontrivial(fmt.Sprintf("%v", spec.render()))
			}
			if rerun {
				r.Inconclusive(caseID, "watchdog fired once under load, the re-run alone completed")
			}
			if r.SampleN() < 3 && spec.Idx%sampleEvery < 40 && len(spec.Subs) >= 2 && len(res.w.hist.Emissions) <= 30 {
				r.Sample(map[string]any{"script": spec.render(), "history": res.w.hist.render()})
			}
		}
	}
	// Stall protocol: a script whose watchdog fired is re-run ALONE (nothing else running) with a doubled
	// watchdog, up to soloRuns times (a completed solo run takes milliseconds); if it stalls again the
	// stall is "repeated" and a violation, else the first stall is put down to load and is inconclusive.
	// Bounded (matters only when something really deadlocks): at most maxRerun scripts are re-run, a block
	// that already has several stalled scripts is cut short, generation ends after the first repeated stall or
	// six first stalls.
	const maxRerun, soloRuns = 3, 25
	reruns, firstStalls := 0, 0
	for b := 0; b*block < n && !r.TooMany() && r.Counter("cases_stalled_twice") < 1 && firstStalls < 6; b++ {
		procs := levels[b%len(levels)]
		if procs > procs0 {
			procs = procs0
		}
		runtime.GOMAXPROCS(procs)
		workers := 2 * procs
		if workers < 4 {
			workers = 4
		}
		lo, hi := b*block, (b+1)*block
		if hi > n {
			hi = n
		}
		var blockStalls atomic.Int32
		run.Parallel(hi-lo, workers, func(i int) {
			idx := lo + i
			caseID := fmt.Sprintf("gen/%d", idx)
			if !r.Want(caseID) || r.TooMany() || blockStalls.Load() >= 3 {
				return
			}
			spec := genCase(r, idx)
			spec.Procs = procs
			res := runCase(r, spec, watchdog)
			if res.status == "stall" {
				blockStalls.Add(1)
			}
			handle(spec, res, false)
		})
		firstStalls += len(stalled)
		for _, spec := range stalled {
			if reruns >= maxRerun || r.TooMany() || r.Counter("cases_stalled_twice") >= 1 {
				r.Inconclusive(fmt.Sprintf("gen/%d", spec.Idx), "watchdog fired; not re-run (re-run limit reached)")
				continue
			}
			reruns++
			var res caseResult
			for k := 0; k < soloRuns; k++ {
				res = runCase(r, spec, 2*watchdog)
				r.Count("solo_reruns", 1)
				if res.status != "ok" || len(res.findings) > 0 {
					break
				}
			}
			handle(spec, res, true)
		}
		stalled = nil
	}
	if r.SampleN() == 0 && !r.Replaying() {
		// make sure the evidence carries at least one real case
		for idx := 0; idx < 50 && r.SampleN() < 2; idx++ {
			spec := genCase(r, idx)
			spec.Procs = runtime.GOMAXPROCS(0)
			if res := runCase(r, spec, watchdog); res.status == "ok" && len(res.w.hist.Emissions) <= 40 {
				r.Sample(map[string]any{"script": spec.render(), "history": res.w.hist.render()})
			}
		}
	}
}

// slowConsumers: generated scripts in which the first subscriber (typed or wildcard, buffer 0 or 1, on the
// type of the first emitter, subscribed before anything is emitted) does not read at all for 1.1-1.3 s of
// real time, so that emits stay blocked past the bus' one-second slow-consumer warning ("an emit blocks
// rather than drops when a subscriber is slow"). The sleep only shapes the workload; the verdict comes
// from the same offline oracle.
func slowConsumers(r *run.R, n int) {
	var wg sync.WaitGroup
	for k := 0; k < n && !r.TooMany(); k++ {
		caseID := fmt.Sprintf("slow/%d", k)
		if !r.Want(caseID) {
			continue
		}
		spec := genCase(r, 1_000_000+k)
		spec.Procs = runtime.GOMAXPROCS(0)
		s0 := &spec.Subs[0]
		s0.Kind, s0.Types = kindTyped, []int{spec.Emitters[0].Typ}
		if k%2 == 1 {
			s0.Kind, s0.Types = kindWild, nil
		}
		s0.Buf = k / 2 % 2
		s0.StartAt = 0
		s0.StallMs = 1100 + 25*(k%8)
		if s0.CloseMode == closeTimed {
			s0.CloseMode = closeFinalSelf
		}
		spec.Emitters[0].CloseAfter = 0
		if spec.Emitters[0].PerG < 3 {
			spec.Emitters[0].PerG = 3
		}
		wg.Add(1)
		go func() {
			defer wg.Done()
			res := runCase(r, spec, 40*time.Second)
			switch res.status {
			case "ok":
				seen := map[string]bool{}
				for _, f := range res.findings {
					if !seen[f.Sig] {
						seen[f.Sig] = true
						r.Violation(f.Sig, caseID, f.Msg, map[string]any{"script": spec.render(), "all_findings": findingStrings(res.findings), "history": res.w.hist.render()})
					}
				}
				r.Eval(1)
				r.Count("slow_consumer_cases", 1)
				r.Count("slow_consumer_emits_blocked_over_1s", int(res.w.longEmits.Load()))
				r.Count("slow_consumer_mandatory_events_checked", res.stats.mandatoryChecked)
				if res.w.longEmits.Load() > 0 {
					r.Nontrivial(caseID)
				}
			case "panic":
				w := res.w
				r.Violation(panicSig(w.panicKind, w.panicVal), caseID, fmt.Sprintf("%s panicked: %s", w.panicKind, w.panicVal),
					map[string]any{"script": spec.render(), "panic": w.panicVal, "stacks": eventbusGoroutines(w.panicStack, 12)})
			case "stall":
				// decided by a second, solo run below? These cases are few and sleep by design; a stall here is
				// reported as inconclusive unless it repeats.
				if res2 := runCase(r, spec, 80*time.Second); res2.status == "stall" {
					r.Violation("stall:"+res2.stuck, caseID, "slow-consumer script stalled twice; stuck calls: "+res2.stuck,
						map[string]any{"script": spec.render(), "goroutines": eventbusGoroutines(res2.dump, 40)})
				} else {
					r.Inconclusive(caseID, "watchdog fired once, the re-run completed")
				}
			default:
				r.Inconclusive(caseID, "harness error: "+res.stuck)
			}
		}()
	}
	wg.Wait()
}

func findingStrings(fs []finding) []string {
	var out []string
	for i, f := range fs {
		if i >= 20 {
			out = append(out, fmt.Sprintf("... %d more", len(fs)-i))
			break
		}
		out = append(out, f.Sig+": "+f.Msg)
	}
	return out
}

// ---- known finding F9: multi-type Subscribe deadlock (dedicated, bounded, abandonable) ----

type f9a struct{ N int }
type f9b struct{ N int }

// f9 tries to reproduce the deadlock of the UNCHANGED tree that the generator avoids. Subscribe with
// several types registers them one after another and needs the bus-wide lock for each; before it returns
// nobody can read the new channel. If something already blocks on that channel while holding a type's
// lock — the replay goroutine of a stateful type with a retained event ("stateful"), or an Emit on an
// already registered type ("plain-emit") — and a third call takes the bus-wide lock and then waits for
// that type's lock, the Subscribe can never take the bus-wide lock for its next type.
func f9(r *run.R) {
	for _, shape := range []string{"stateful", "plain-emit"} {
		caseID := "f9/" + shape
		if !r.Want(caseID) {
			continue
		}
		bus := eventbus.NewBus()
		var stop atomic.Bool
		var progress atomic.Int64
		attempts := r.Pick(30000, 200000)
		var victim func()
		guard := func() { // a panic of a bus call is a violation of its own, not a crash of the run
			if p := recover(); p != nil {
				stop.Store(true)
				r.Violation(panicSig("f9-case", fmt.Sprint(p)), caseID, fmt.Sprintf("bus call panicked in the dedicated F9 case (%s): %v", shape, p),
					map[string]any{"shape": shape, "panic": fmt.Sprint(p), "stacks": eventbusGoroutines(run.Stacks(), 12)})
			}
		}
		switch shape {
		case "stateful":
			em, _ := bus.Emitter(new(f9a), eventbus.Stateful)
			em.Emit(f9a{1}) // retained
			for i := 0; i < 3; i++ {
				go func() { // third parties: bus-wide lock, then the stateful type's lock
					defer guard()
					for !stop.Load() {
						if s, err := bus.Subscribe(new(f9a), eventbus.BufSize(1)); err == nil {
							s.Close()
						}
					}
				}()
			}
			victim = func() {
				s, err := bus.Subscribe([]any{new(f9a), new(f9b)}, eventbus.BufSize(0))
				if err == nil {
					<-s.Out() // the retained event
					s.Close()
				}
			}
		default:
			attempts = r.Pick(3000, 20000)
			em, _ := bus.Emitter(new(f9a))
			go func() { // emits on the first type: blocks on the not yet readable channel holding the type's lock
				defer guard()
				for !stop.Load() {
					em.Emit(f9a{1})
				}
			}()
			for i := 0; i < 3; i++ {
				go func() { // third parties
					defer guard()
					for !stop.Load() {
						if e, err := bus.Emitter(new(f9a)); err == nil {
							e.Close()
						}
					}
				}()
			}
			victim = func() {
				if s, err := bus.Subscribe([]any{new(f9a), new(f9b)}, eventbus.BufSize(0)); err == nil {
					s.Close()
				}
			}
		}
		done := make(chan struct{})
		go func() {
			defer close(done)
			defer guard()
			for i := 0; i < attempts && !stop.Load(); i++ {
				victim()
				progress.Add(1)
			}
		}()
		// progress monitor: a victim iteration takes microseconds; no progress at all over 4 s, with the
		// characteristic goroutines in the dump, is the deadlock.
		last, still := int64(-1), 0
		reproduced := false
		var dump string
	poll:
		for {
			select {
			case <-done:
				break poll
			case <-time.After(250 * time.Millisecond):
				p := progress.Load()
				if p != last {
					last, still = p, 0
					continue
				}
				still++
				if still == 16 {
					dump = run.Stacks()
					eb := eventbusGoroutines(dump, 40)
					inSubscribe := strings.Contains(eb, "(*basicBus).Subscribe(") && strings.Contains(eb, "(*basicBus).withNode(")
					if inSubscribe {
						reproduced = true
					}
					break poll
				}
			}
		}
		stop.Store(true)
		r.Eval(1)
		r.Count("f9_attempts", int(progress.Load()))
		if reproduced {
			r.Count("f9_reproduced", 1)
			sig := "F9:multi-type-stateful-subscribe-deadlock"
			if shape == "plain-emit" {
				sig = "F9:multi-type-subscribe-emit-deadlock"
			}
			r.Violation(sig, caseID, fmt.Sprintf("multi-type Subscribe deadlocked after %d attempts (shape %s): Subscribe waits for the bus-wide lock for its second type, the lock's holder waits for the first type's lock, whose holder is blocked sending on the new subscription's channel that nobody can read before Subscribe returns", progress.Load(), shape),
				map[string]any{"shape": shape, "attempts_before_deadlock": progress.Load(), "goroutines": eventbusGoroutines(dump, 12)})
			r.Nontrivial(caseID)
		} else if dump != "" {
			r.Inconclusive(caseID, "dedicated F9 case stopped making progress without the F9 goroutine shape")
		}
	}
}

// readerClosesEmitter: "closing emitters concurrently with emits never deadlocks" - also when the closing
// goroutine is the one that READS the subscription an Emit of the same type is stalled on (an event loop
// that closes one of its own emitters between two reads). Per attempt: two emitters and one subscription
// (buffer 0 or 1) of one type; a goroutine emits 5 events on the first emitter; the reader takes one event
// (so the emitting goroutine is now entering or inside its next, stalling, Emit), closes the SECOND
// emitter, and reads the rest. No progress for 4 s with a goroutine inside (*emitter).Close is the deadlock.
func readerClosesEmitter(r *run.R) {
	type rce struct{ V int }
	for _, buf := range []int{0, 1} {
		caseID := fmt.Sprintf("reader-closes-emitter/buf%d", buf)
		if !r.Want(caseID) {
			continue
		}
		bus := eventbus.NewBus()
		var stop atomic.Bool
		var progress atomic.Int64
		attempts := r.Pick(3000, 30000)
		done := make(chan struct{})
		go func() {
			defer close(done)
			defer func() {
				if p := recover(); p != nil {
					stop.Store(true)
					r.Violation(panicSig("reader-closes-emitter", fmt.Sprint(p)), caseID, fmt.Sprintf("bus call panicked: %v", p), map[string]any{"panic": fmt.Sprint(p)})
				}
			}()
			for i := 0; i < attempts && !stop.Load(); i++ {
				em1, err1 := bus.Emitter(new(rce))
				em2, err2 := bus.Emitter(new(rce))
				sub, err3 := bus.Subscribe(new(rce), eventbus.BufSize(buf))
				if err1 != nil || err2 != nil || err3 != nil {
					continue
				}
				emDone := make(chan struct{})
				go func() {
					defer close(emDone)
					for k := 0; k < 5; k++ {
						em1.Emit(rce{k})
					}
				}()
				<-sub.Out()
				if i%2 == 0 {
					runtime.Gosched()
				}
				em2.Close()
				for k := 1; k < 5; k++ {
					<-sub.Out()
				}
				<-emDone
				em1.Close()
				sub.Close()
				progress.Add(1)
			}
		}()
		last, still := int64(-1), 0
		var dump string
	poll:
		for {
			select {
			case <-done:
				break poll
			case <-time.After(250 * time.Millisecond):
				p := progress.Load()
				if p != last {
					last, still = p, 0
					continue
				}
				still++
				if still == 16 {
					dump = run.Stacks()
					break poll
				}
			}
		}
		stop.Store(true)
		r.Eval(1)
		r.Count("reader_closes_emitter_attempts", int(progress.Load()))
		if dump != "" {
			eb := eventbusGoroutines(dump, 40)
			if strings.Contains(eb, "(*emitter).Close(") {
				r.Violation("deadlock:emitter-close-by-the-reader-while-an-emit-is-stalled", caseID,
					fmt.Sprintf("after %d attempts Emitter.Close, called by the goroutine that reads the subscription, never returned while an Emit of the same type was waiting for that reader", progress.Load()),
					map[string]any{"buffer": buf, "attempts_before_deadlock": progress.Load(), "goroutines": eventbusGoroutines(dump, 12)})
			} else {
				r.Inconclusive(caseID, "stopped making progress without a goroutine inside (*emitter).Close")
			}
			continue
		}
		r.Nontrivial(caseID)
	}
	r.Require("reader_closes_emitter_attempts", 1000)
}

// ---- oracle self-check: the checker must flag hand-made bad histories and accept the good one ----

func oracleSelfCheck(r *run.R) {
	if r.Replaying() {
		return
	}
	// one stateful type 0, one plain type 1; emitter 0 (type 0, stateful) emits #1..#4, emitter 1 (type 1) emits #1..#2;
	// markers: emitter 2 (type 0), emitter 3 (type 1). Subscriber subscribes at [20,21] after e0#1,e0#2.
	base := func() *history {
		h := &history{NTypes: 2, Stateful: []bool{true, false}}
		h.Emitters = []emitterLog{
			{ID: 0, Typ: 0, Stateful: true, OpenCall: 1, OpenRet: 2, CloseCall: 60, CloseRet: 61},
			{ID: 1, Typ: 1, OpenCall: 3, OpenRet: 4, CloseCall: 62, CloseRet: 63},
			{ID: 2, Typ: 0, Stateful: true, OpenCall: 70, OpenRet: 71, CloseCall: 74, CloseRet: 75},
			{ID: 3, Typ: 1, OpenCall: 76, OpenRet: 77, CloseCall: 80, CloseRet: 81},
		}
		h.Emissions = []emission{
			{Em: 0, Seq: 1, Typ: 0, Call: 5, Ret: 6}, {Em: 0, Seq: 2, Typ: 0, Call: 7, Ret: 8},
			{Em: 1, Seq: 1, Typ: 1, Call: 9, Ret: 10},
			{Em: 0, Seq: 3, Typ: 0, Call: 30, Ret: 31}, {Em: 1, Seq: 2, Typ: 1, Call: 32, Ret: 33}, {Em: 0, Seq: 4, Typ: 0, Call: 34, Ret: 35},
			{Em: 2, Seq: 1, Typ: 0, Call: 72, Ret: 73}, {Em: 3, Seq: 1, Typ: 1, Call: 78, Ret: 79},
		}
		s := &subLog{ID: 0, Kind: kindMulti, Types: []int{0, 1}, Buf: 2, SubCall: 20, SubRet: 21, CloseCall: 100, CloseRet: 101, CaughtUpAt: 95}
		for i, k := range [][3]int{{0, 0, 2}, {0, 0, 3}, {1, 1, 2}, {0, 0, 4}, {0, 2, 1}, {1, 3, 1}} {
			s.Reads = append(s.Reads, readRec{Typ: k[0], Em: k[1], Seq: k[2], Stamp: int64(40 + 2*i), Decoded: true})
		}
		h.Subs = []*subLog{s}
		return h
	}
	type trial struct {
		name, want string
		mut        func(h *history)
	}
	trials := []trial{
		{"valid", "", func(h *history) {}},
		{"duplicate", "duplicate-delivery:multi", func(h *history) { s := h.Subs[0]; s.Reads = append(s.Reads, s.Reads[1]) }},
		{"swapped", "order:multi", func(h *history) { s := h.Subs[0]; s.Reads[1], s.Reads[3] = s.Reads[3], s.Reads[1] }},
		{"gap", "gap-before-close:multi", func(h *history) { s := h.Subs[0]; s.Reads = append(s.Reads[:1], s.Reads[2:]...) }},
		{"lost-last", "lost-event:multi", func(h *history) { s := h.Subs[0]; s.Reads = append(s.Reads[:2], s.Reads[3:]...) }},
		{"after-close", "delivered-after-close:multi", func(h *history) { s := h.Subs[0]; s.CloseCall, s.CloseRet, s.CaughtUpAt = 22, 23, 0 }},
		{"stale-plain", "stale-event-plain-type:multi", func(h *history) {
			s := h.Subs[0]
			s.Reads = append([]readRec{{Typ: 1, Em: 1, Seq: 1, Stamp: 39, Decoded: true}}, s.Reads...)
		}},
		{"replay-late", "replay-not-first:multi", func(h *history) { s := h.Subs[0]; s.Reads[0], s.Reads[1] = s.Reads[1], s.Reads[0] }},
		{"replay-old", "replay-not-latest:multi", func(h *history) { h.Subs[0].Reads[0].Seq = 1 }},
		{"replay-missing", "replay-missing:multi", func(h *history) { s := h.Subs[0]; s.Reads = s.Reads[1:] }},
		{"phantom", "phantom-event:multi", func(h *history) { h.Subs[0].Reads[2].Seq = 9 }},
		{"wrong-type", "wrong-type-delivered:typed", func(h *history) { s := h.Subs[0]; s.Kind, s.Types = kindTyped, []int{0} }},
	}
	for _, tr := range trials {
		h := base()
		tr.mut(h)
		fs, _ := check(h)
		got := map[string]bool{}
		for _, f := range fs {
			got[f.Sig] = true
		}
		if tr.want == "" && len(fs) > 0 {
			r.T.Fatalf("oracle self-check: valid history flagged: %v", findingStrings(fs))
		}
		if tr.want != "" && !got[tr.want] {
			keys := make([]string, 0, len(got))
			for k := range got {
				keys = append(keys, k)
			}
			sort.Strings(keys)
			r.T.Fatalf("oracle self-check %q: expected finding %s, got %v", tr.name, tr.want, keys)
		}
		r.Count("oracle_selfcheck_histories", 1)
	}
}
