// Package c15 — Event bus delivers every event exactly once, in order, without deadlock.
//
// This file is the OFFLINE ORACLE: it sees only what was recorded at the API boundary of the real
// bus (emission log, emitter open/close log, per-subscriber read logs; every stamp comes from one
// atomic logical clock, "call" stamps are taken BEFORE the call is invoked and "ret" stamps AFTER it
// returned) and decides the clauses of the statement. It knows nothing about nodes, sinks or locks.
//
// Stamp reasoning used throughout: if x.Ret < y.Call then x really finished before y really began;
// if the two intervals overlap the statement fixes no order between them and the oracle accepts both.
package c15

import (
	"fmt"
	"math"
	"sort"
)

const never = math.MaxInt64

const (
	kindTyped = iota
	kindMulti
	kindWild
)

var kindName = []string{"typed", "multi", "wild"}

// emission is one Emit call: event id = (Em, Seq).
type emission struct {
	Em, Seq, Typ, G int
	Call, Ret       int64
	Refused         bool // Emit returned an error (emitter closed): nothing was emitted
}

// emitterLog is one Emitter()/Close() pair. CloseCall == never: Close was not called.
type emitterLog struct {
	ID, Typ             int
	Stateful            bool
	OpenCall, OpenRet   int64
	CloseCall, CloseRet int64
}

type readRec struct {
	Typ, Em, Seq int
	Stamp        int64 // taken after the receive returned
	Decoded      bool  // false: value on the channel was not one of the harness' event types
}

type subLog struct {
	ID, Kind, Buf       int
	Types               []int // subscribed types (ignored for wildcard)
	SelfClose           bool
	SubCall, SubRet     int64
	CloseCall, CloseRet int64 // never: not called / did not return
	Reads               []readRec
	CaughtUpAt          int64 // stamp taken by the reader after it emptied the channel once every Emit of the run had returned; 0: never
	ChanClosedAt        int64 // stamp at which the reader saw the channel closed; 0: never
	FullReads           int   // receives that found the buffer full (back-pressure reached)
}

type history struct {
	NTypes    int
	Stateful  []bool
	Emitters  []emitterLog
	Emissions []emission
	Subs      []*subLog
}

type finding struct {
	Sig string // structural: clause + subscription kind
	Sub int
	Msg string
}

type checkStats struct {
	events, refused, reads           int
	mandatoryChecked, gapChecks      int
	quiescentSubs, earlySubs         int
	replays, replayRequired          int
	replayConcurrentEmit             int
	subOverlapEmit, closeOverlapEmit int
	readsAfterCloseCall              int
	fullReads, unbufferedReads       int
	reopenAfterZeroLiveSub           int
	byKind                           [3]int
	staleOptionalRead                int // events overlapping Subscribe that were delivered
}

type evKey struct{ em, seq int }

func (s *subLog) subscribed(t int) bool {
	if s.Kind == kindWild {
		return true
	}
	for _, x := range s.Types {
		if x == t {
			return true
		}
	}
	return false
}

// check decides all clauses for every subscriber of one recorded run.
func check(h *history) ([]finding, checkStats) {
	var out []finding
	var st checkStats
	byKey := make(map[evKey]*emission, len(h.Emissions))
	byType := make([][]*emission, h.NTypes)
	byEm := map[int][]*emission{}
	for i := range h.Emissions {
		e := &h.Emissions[i]
		byKey[evKey{e.Em, e.Seq}] = e
		if e.Refused {
			st.refused++
			continue
		}
		st.events++
		byType[e.Typ] = append(byType[e.Typ], e)
		byEm[e.Em] = append(byEm[e.Em], e)
	}
	// superseded: e cannot be "the most recent earlier event" at S's subscribe instant because another
	// event of the type was emitted entirely after e and entirely before Subscribe was called.
	superseded := func(e *emission, s *subLog) bool {
		for _, x := range byType[e.Typ] {
			if x.Call > e.Ret && x.Ret < s.SubCall {
				return true
			}
		}
		return false
	}
	// replayRequired: the statement's "a subscriber to a stateful event type first receives the most
	// recent earlier event" is claimed while the type is being kept stateful, i.e. (opts.go: Stateful is
	// an EMITTER option) some stateful emitter of the type was open from before an earlier event was
	// emitted until after Subscribe returned.
	replayRequired := func(s *subLog, t int) bool {
		for _, m := range h.Emitters {
			if m.Typ != t || !m.Stateful || m.OpenRet == 0 || m.CloseCall <= s.SubRet {
				continue
			}
			for _, e := range byType[t] {
				if m.OpenRet < e.Call && e.Ret < s.SubCall {
					return true
				}
			}
		}
		return false
	}

	for _, s := range h.Subs {
		if s.SubRet == 0 {
			continue // Subscribe never returned (only in abandoned runs)
		}
		st.byKind[s.Kind]++
		add := func(clause, msg string) {
			out = append(out, finding{Sig: clause + ":" + kindName[s.Kind], Sub: s.ID, Msg: fmt.Sprintf("sub %d (%s buf %d): %s", s.ID, kindName[s.Kind], s.Buf, msg)})
		}
		quiescent := s.CaughtUpAt != 0 && s.CaughtUpAt < s.CloseCall
		if quiescent {
			st.quiescentSubs++
		} else {
			st.earlySubs++
		}
		st.fullReads += s.FullReads
		pos := make(map[evKey]int, len(s.Reads))
		firstOfType := make([]int, h.NTypes)
		for i := range firstOfType {
			firstOfType[i] = -1
		}
		maxCall := map[int]int64{} // per emitter: latest Call stamp among the events read so far
		for i, r := range s.Reads {
			st.reads++
			if s.Buf == 0 {
				st.unbufferedReads++
			}
			if r.Stamp > s.CloseCall {
				st.readsAfterCloseCall++
			}
			if !r.Decoded {
				add("phantom-event", fmt.Sprintf("read #%d is not an event anybody emitted", i))
				continue
			}
			k := evKey{r.Em, r.Seq}
			e := byKey[k]
			if e == nil {
				add("phantom-event", fmt.Sprintf("read #%d e%d#%d was never emitted", i, r.Em, r.Seq))
				continue
			}
			if e.Typ != r.Typ {
				add("phantom-event", fmt.Sprintf("read #%d e%d#%d has type %d, emitted as type %d", i, r.Em, r.Seq, r.Typ, e.Typ))
			}
			// "delivered ... exactly once": no event id twice.
			if j, dup := pos[k]; dup {
				add("duplicate-delivery", fmt.Sprintf("e%d#%d read twice (reads #%d and #%d)", r.Em, r.Seq, j, i))
				continue
			}
			pos[k] = i
			if !s.subscribed(e.Typ) {
				add("wrong-type-delivered", fmt.Sprintf("e%d#%d of type %d read by a subscriber of types %v", r.Em, r.Seq, e.Typ, s.Types))
			}
			if e.Refused {
				add("refused-emit-delivered", fmt.Sprintf("e%d#%d was delivered although its Emit returned an error", r.Em, r.Seq))
				continue
			}
			// "never ... delivers to a closed subscription": an event whose Emit BEGAN after Close returned.
			// (Events already buffered when Close ran may legitimately still be read.)
			if e.Call > s.CloseRet {
				add("delivered-after-close", fmt.Sprintf("e%d#%d: Emit began at %d, after Close returned at %d", r.Em, r.Seq, e.Call, s.CloseRet))
			}
			if firstOfType[e.Typ] < 0 {
				firstOfType[e.Typ] = i
			}
			// Events emitted entirely before Subscribe was called may only arrive as THE retained event
			// of a stateful type: first of its type, and a possible "most recent" one.
			if e.Ret < s.SubCall {
				switch {
				case !h.Stateful[e.Typ]:
					add("stale-event-plain-type", fmt.Sprintf("e%d#%d (Emit returned at %d) delivered to a subscription created at %d, type is not stateful", r.Em, r.Seq, e.Ret, s.SubCall))
				case firstOfType[e.Typ] != i:
					add("replay-not-first", fmt.Sprintf("retained e%d#%d arrived as read #%d, after read #%d of the same type", r.Em, r.Seq, i, firstOfType[e.Typ]))
				case superseded(e, s):
					add("replay-not-latest", fmt.Sprintf("retained e%d#%d had been superseded by a later event before Subscribe was called", r.Em, r.Seq))
				default:
					st.replays++
				}
			} else if e.Call < s.SubRet {
				st.staleOptionalRead++
			}
			// "events of one emitter arrive in the order emitted": an event must not be read after one
			// of the same emitter whose Emit began only after this one's Emit had returned.
			if mc, ok := maxCall[e.Em]; ok && e.Ret < mc {
				add("order", fmt.Sprintf("e%d#%d (Emit returned at %d) read after an event of the same emitter whose Emit began at %d", r.Em, r.Seq, e.Ret, mc))
			}
			if e.Call > maxCall[e.Em] {
				maxCall[e.Em] = e.Call
			}
			// "an emit blocks rather than drops": among what was read BEFORE Close was called, the run of
			// one emitter has no gap — every event of that emitter that was emitted after Subscribe returned
			// and entirely before this one must have been read before it (only the reader consumed the
			// channel until Close was called).
			if r.Stamp < s.CloseCall {
				for _, x := range byEm[e.Em] {
					if x.Call > s.SubRet && x.Ret < e.Call {
						st.gapChecks++
						if j, ok := pos[evKey{x.Em, x.Seq}]; !ok || j > i {
							add("gap-before-close", fmt.Sprintf("e%d#%d was read (before Close was called) but the earlier e%d#%d [%d,%d] of the same emitter was not read before it", r.Em, r.Seq, x.Em, x.Seq, x.Call, x.Ret))
						}
					}
				}
			}
		}
		// "Every event emitted after a subscription was created and before it is closed is delivered":
		// decided for subscribers that called Close only after they had caught up with everything.
		if quiescent {
			for t := 0; t < h.NTypes; t++ {
				if !s.subscribed(t) {
					continue
				}
				for _, e := range byType[t] {
					if e.Call > s.SubRet {
						st.mandatoryChecked++
						if _, ok := pos[evKey{e.Em, e.Seq}]; !ok {
							add("lost-event", fmt.Sprintf("e%d#%d type %d [%d,%d] emitted after Subscribe returned (%d) and before Close was called (%d) was never delivered", e.Em, e.Seq, t, e.Call, e.Ret, s.SubRet, s.CloseCall))
						}
					}
				}
			}
		}
		// stateful replay present when the statement requires it
		for t := 0; t < h.NTypes; t++ {
			if !h.Stateful[t] || !s.subscribed(t) {
				continue
			}
			for _, e := range byType[t] {
				if e.Call < s.SubRet && e.Ret > s.SubCall {
					st.replayConcurrentEmit++
					break
				}
			}
			if s.Kind == kindWild || !replayRequired(s, t) {
				continue
			}
			f := firstOfType[t]
			decidable := quiescent || (f >= 0 && s.Reads[f].Stamp < s.CloseCall)
			if !decidable {
				continue
			}
			st.replayRequired++
			if f < 0 {
				add("replay-missing", fmt.Sprintf("no event of stateful type %d delivered although an earlier event was retained", t))
				continue
			}
			e := byKey[evKey{s.Reads[f].Em, s.Reads[f].Seq}]
			if e == nil || e.Refused {
				continue // already reported
			}
			if e.Call > s.SubRet {
				add("replay-missing", fmt.Sprintf("first event of stateful type %d is e%d#%d, emitted after Subscribe returned; the retained earlier event was not delivered first", t, e.Em, e.Seq))
			} else if e.Ret >= s.SubCall && superseded(e, s) {
				// cannot happen (an event overlapping Subscribe is never superseded before SubCall); kept for symmetry
				add("replay-not-latest", fmt.Sprintf("first event e%d#%d of stateful type %d was superseded", e.Em, e.Seq, t))
			}
		}
		// concurrency actually reached (evidence only)
		for _, e := range h.Emissions {
			if e.Refused || !s.subscribed(e.Typ) {
				continue
			}
			if e.Call < s.SubRet && e.Ret > s.SubCall {
				st.subOverlapEmit++
			}
			if s.CloseCall != never && e.Call < s.CloseRet && e.Ret > s.CloseCall {
				st.closeOverlapEmit++
			}
		}
	}
	// path class: an emitter was opened while the type definitely had no open emitter (the type's
	// bookkeeping may have been dropped) and a subscriber of the type lived across that moment.
	for _, m := range h.Emitters {
		if m.OpenRet == 0 {
			continue
		}
		zero := false
		prevClose := int64(0)
		for _, o := range h.Emitters {
			if o.ID == m.ID || o.Typ != m.Typ || o.OpenRet == 0 {
				continue
			}
			if o.CloseRet < m.OpenCall {
				if o.CloseRet > prevClose {
					prevClose = o.CloseRet
				}
				continue
			}
			if o.OpenCall > m.OpenRet {
				continue
			}
			prevClose = -1
			break
		}
		zero = prevClose > 0
		if !zero {
			continue
		}
		for _, s := range h.Subs {
			if s.SubRet != 0 && s.subscribed(m.Typ) && s.SubRet < prevClose && s.CloseCall > m.OpenRet {
				st.reopenAfterZeroLiveSub++
				break
			}
		}
	}
	sort.SliceStable(out, func(i, j int) bool { return out[i].Sub < out[j].Sub })
	return out, st
}

// compact renderings for witnesses

func (e emission) String() string {
	s := fmt.Sprintf("e%d#%d t%d g%d [%d,%d]", e.Em, e.Seq, e.Typ, e.G, e.Call, e.Ret)
	if e.Refused {
		s += " refused"
	}
	return s
}

func stampStr(v int64) string {
	if v == never {
		return "-"
	}
	return fmt.Sprint(v)
}

func (h *history) render() map[string]any {
	em := make([]string, 0, len(h.Emissions))
	es := append([]emission(nil), h.Emissions...)
	sort.Slice(es, func(i, j int) bool { return es[i].Call < es[j].Call })
	for _, e := range es {
		em = append(em, e.String())
	}
	var ems []string
	for _, m := range h.Emitters {
		ems = append(ems, fmt.Sprintf("emitter %d t%d stateful=%v open[%d,%d] close[%s,%s]", m.ID, m.Typ, m.Stateful, m.OpenCall, m.OpenRet, stampStr(m.CloseCall), stampStr(m.CloseRet)))
	}
	var subs []any
	for _, s := range h.Subs {
		rd := make([]string, 0, len(s.Reads))
		for _, r := range s.Reads {
			rd = append(rd, fmt.Sprintf("e%d#%d@%d", r.Em, r.Seq, r.Stamp))
		}
		subs = append(subs, map[string]any{"id": s.ID, "kind": kindName[s.Kind], "types": s.Types, "buf": s.Buf, "self_close": s.SelfClose,
			"subscribe": fmt.Sprintf("[%d,%d]", s.SubCall, s.SubRet), "close": fmt.Sprintf("[%s,%s]", stampStr(s.CloseCall), stampStr(s.CloseRet)),
			"caught_up_at": s.CaughtUpAt, "chan_closed_at": s.ChanClosedAt, "reads": rd})
	}
	return map[string]any{"stateful_types": h.Stateful[:h.NTypes], "emitters": ems, "emissions(id type goroutine [call,ret])": em, "subscribers": subs}
}
