#!/usr/bin/env python3
"""mutants_c15.py <name>|list [tier] -- mutation trials for the C15 monitor: applies the named multi-line mutation to a COPY of
p2p/host/eventbus/basic.go (go -overlay, /repo is not touched), runs ./check C15 <tier> against it and prints exit code +
violation signatures. Scratch goes to /tmp/c15-mutants/. Results of the builder's sweep are in the final report."""
import sys, os, json, subprocess, re, time
F='/repo/p2p/host/eventbus/basic.go'
src=open(F).read()
def rep(s, old, new, count=1):
    assert s.count(old)>=1, "pattern not found: "+old
    return s.replace(old,new,count)
M={}
M['drop_typed']=lambda s: rep(s,"""		default:
			emitAndLogError(n.log, n.typ, evt, sink)
""","""		default:
""")
M['drop_wild']=lambda s: rep(s,"""		default:
			emitAndLogError(n.log, wildcardType, evt, sink)
""","""		default:
""")
M['replay_unlocked']=lambda s: rep(s,"""		go func() {
			defer n.lk.Unlock()
			async(n)
		}()""","""		n.lk.Unlock()
		go func() {
			async(n)
		}()""")
M['close_before_remove']=lambda s: rep(rep(s,"""	s.closeOnce.Do(func() {
		for _, n := range s.nodes {""","""	s.closeOnce.Do(func() {
		close(s.ch)
		for _, n := range s.nodes {"""),"""		}
		close(s.ch)
	})""","""		}
	})""")
M['wild_nodrain']=lambda s: rep(s,"""	wg.Go(func() {
		for {
			select {
			case <-ch:
			case <-done:""","""	wg.Go(func() {
		for {
			select {
			case <-done:""")
M['wild_double_dec']=lambda s: rep(s,"n.nSinks.Add(-1) // ok to do outside the lock","n.nSinks.Add(-2) // ok to do outside the lock")
M['wild_remove_other']=lambda s: rep(s,"func(s *namedSink) bool { return s.ch == ch }","func(s *namedSink) bool { return s.ch == ch || cap(s.ch) == cap(ch) }")
M['keeplast_after_inlock']=lambda s: rep(rep(s,"""	n.lk.Lock()
	if n.keepLast {
		n.last = evt
	}

	for _, sink := range n.sinks {""","""	n.lk.Lock()

	for _, sink := range n.sinks {"""),"""			emitAndLogError(n.log, n.typ, evt, sink)
		}
	}
	n.lk.Unlock()""","""			emitAndLogError(n.log, n.typ, evt, sink)
		}
	}
	if n.keepLast {
		n.last = evt
	}
	n.lk.Unlock()""")
M['keeplast_after_unlock']=lambda s: rep(rep(s,"""	n.lk.Lock()
	if n.keepLast {
		n.last = evt
	}

	for _, sink := range n.sinks {""","""	n.lk.Lock()

	for _, sink := range n.sinks {"""),"""			emitAndLogError(n.log, n.typ, evt, sink)
		}
	}
	n.lk.Unlock()""","""			emitAndLogError(n.log, n.typ, evt, sink)
		}
	}
	n.lk.Unlock()
	if n.keepLast {
		n.last = evt
	}""")
M['keeplast_only_without_sinks']=lambda s: rep(s,"""	if n.keepLast {
		n.last = evt
	}

	for _, sink := range n.sinks {""","""	if n.keepLast && len(n.sinks) == 0 {
		n.last = evt
	}

	for _, sink := range n.sinks {""")
M['close_first_node_only']=lambda s: rep(s,"		for _, n := range s.nodes {\n			n.lk.Lock()","		for _, n := range s.nodes[:1] {\n			n.lk.Lock()")
M['close_wrong_node_index']=lambda s: rep(s,"		for _, n := range s.nodes {\n			n.lk.Lock()","		for i := range s.nodes {\n			n := s.nodes[(i+1)%len(s.nodes)]\n			if i > 0 && len(s.nodes) > 1 {\n				n = s.nodes[1]\n			}\n			n.lk.Lock()")
M['emclose_drops_node_with_subs']=lambda s: rep(s,"	if n.nEmitters.Load() > 0 || len(n.sinks) > 0 {\n		n.lk.Unlock()\n		b.lk.Unlock()\n		return // still in use","	if n.nEmitters.Load() > 0 {\n		n.lk.Unlock()\n		b.lk.Unlock()\n		return // still in use")
M['typed_close_nodrain']=lambda s: rep(s,"""	go func() {
		// drain the event channel, will return when closed and drained.
		// this is necessary to unblock publishes to this channel.
		for range s.ch {
		}
	}()
""","")
M['remove_last_sink_instead']=lambda s: rep(s,"				n.sinks[i], n.sinks[len(n.sinks)-1] = n.sinks[len(n.sinks)-1], nil\n","				n.sinks[len(n.sinks)-1] = nil\n")
M['wild_done_before_lock']=lambda s: rep(rep(s,"""	n.Unlock()
	// We could close ch itself here, which would also end the subscriber's
	// Out() range like typed subs do.
	close(done)
	wg.Wait()""","""	n.Unlock()
	wg.Wait()"""),"	n.nSinks.Add(-1) // ok to do outside the lock\n	n.Lock()","	n.nSinks.Add(-1) // ok to do outside the lock\n	close(done)\n	n.Lock()")
M['emitter_close_no_closed_flag_check']=lambda s: rep(s,"	if e.closed.Load() {\n		return fmt.Errorf(\"emitter is closed\")\n	}\n","	if e.closed.Load() {\n		return nil\n	}\n")
M['wild_emit_skip_when_one_sink_full']=lambda s: rep(s,"""		select {
		case sink.ch <- evt:
		default:
			emitAndLogError(n.log, wildcardType, evt, sink)
		}
	}
	n.RUnlock()""","""		select {
		case sink.ch <- evt:
		default:
			n.RUnlock()
			emitAndLogError(n.log, wildcardType, evt, sink)
			n.RLock()
		}
	}
	n.RUnlock()""")
M['typed_emit_unlock_while_blocked']=lambda s: rep(s,"""		default:
			emitAndLogError(n.log, n.typ, evt, sink)
		}
	}
	n.lk.Unlock()""","""		default:
			n.lk.Unlock()
			emitAndLogError(n.log, n.typ, evt, sink)
			n.lk.Lock()
		}
	}
	n.lk.Unlock()""")
M['replay_unlocked_norecoverpanic']=lambda s: rep(s,"""		go func() {
			defer n.lk.Unlock()
			async(n)
		}()""","""		n.lk.Unlock()
		go func() {
			defer func() { recover() }()
			async(n)
		}()""")
M['slow_path_drops_after_warning']=lambda s: rep(s,"""		// Continue to stall since there's nothing else we can do.
		sink.ch <- evt""","""		// give up on this subscriber""")
M['replay_sync_in_cb']=lambda s: rep(s,"""	cb(n)

	if async == nil {""","""	cb(n)
	if async != nil {
		async(n)
		async = nil
	}

	if async == nil {""")
M['trydrop_and']=lambda s: rep(s,"if n.nEmitters.Load() > 0 || len(n.sinks) > 0 {","if n.nEmitters.Load() > 0 && len(n.sinks) > 0 {")
M['emit_async_delivery']=lambda s: rep(s,"""	e.n.emit(evt)
	e.w.emit(evt)""","""	go e.n.emit(evt)
	e.w.emit(evt)""")
M['multi_nodes_wrong_index']=lambda s: rep(s,"			out.nodes[i] = n\n","			out.nodes[i/2] = n\n")
M['wild_sweep_missing']=lambda s: rep(s,"""				for {
					select {
					case <-ch:
					default:
						return
					}
				}""","""				return""")
name=sys.argv[1]
if name=='list':
    print("\n".join(M)); sys.exit(0)
tier=sys.argv[2] if len(sys.argv)>2 else 'quick'
d='/tmp/c15-mutants/'+name
os.makedirs(d,exist_ok=True)
mut=M[name](src)
assert mut!=src
open(d+'/mutated.go.txt','w').write(mut)
json.dump({"Replace":{F:d+'/mutated.go.txt'}},open(d+'/overlay.json','w'))
env=dict(os.environ,VERIF_OVERLAY=d+'/overlay.json')
env.setdefault('VERIF_SEED','1')
t0=time.time()
p=subprocess.run(['/verif/check','C15',tier],env=env,capture_output=True,text=True)
out=p.stdout+p.stderr
sigs={}
for l in out.splitlines():
    m=re.search(r'signature=(\S+)',l)
    if l.startswith('  detail:') and m: sigs[m.group(1)]=sigs.get(m.group(1),0)+1
    if 'child process ended abnormally' in l: sigs['CRASH']=1
res=[l for l in out.splitlines() if l.startswith('RESULT') or l.startswith('INCONCLUSIVE')]
print(f"{name}: exit={p.returncode} wall={time.time()-t0:.0f}s sigs={sigs} {res[-1] if res else out[-600:]}")
