package c15

import (
	"fmt"
	"strings"
	"time"

	"github.com/libp2p/go-libp2p/core/event"
	"github.com/libp2p/go-libp2p/p2p/host/eventbus"

	"verif/harness/rig/run"
)

type oslS struct{ V int } // stateful
type oslP struct{ V int } // plain

// oddSubscribeLists: edge inputs of the multi-type Subscribe. (a) a list whose LATER entry is invalid
// (not a pointer) while an earlier entry is a stateful type holding a retained event, with a buffer
// too small for the replay: the call must come back (with its error) and the bus must go on working
// for everybody else - "never deadlocks", "every event ... is delivered". (b) a list naming one type
// twice: how often the events arrive is not judged (counted); Close must not panic, Out() must end,
// and an Emit after the Close must return.
func oddSubscribeLists(r *run.R) {
	const watchdog = 20 * time.Second
	// within runs fn on its own goroutine; false = it did not come back (or panicked: reported)
	within := func(caseID, what string, fn func()) (ok bool) {
		done := make(chan any, 1)
		go func() {
			defer func() { done <- recover() }()
			fn()
		}()
		select {
		case p := <-done:
			if p != nil {
				r.Violation(panicSig("odd-subscribe-list", fmt.Sprint(p)), caseID, fmt.Sprintf("%s panicked: %v", what, p), map[string]any{"panic": fmt.Sprint(p)})
				return false
			}
			return true
		case <-time.After(watchdog):
			dump := run.Stacks()
			if eb := eventbusGoroutines(dump, 12); strings.Contains(eb, "eventbus.") {
				r.Violation("deadlock:odd-subscribe-list/"+strings.SplitN(caseID, "/", 3)[1], caseID, fmt.Sprintf("%s did not return within %s; goroutines inside the event bus are blocked", what, watchdog), map[string]any{"goroutines": eb})
			} else {
				r.Inconclusive(caseID, what+" did not return, but no goroutine is inside the event bus")
			}
			return false
		}
	}
	for _, buf := range []int{0, 1} {
		for _, earlier := range []string{"stateful-with-retained-event", "plain"} {
			caseID := fmt.Sprintf("odd-subscribe-list/invalid-later-entry/%s/buf%d", earlier, buf)
			if !r.Want(caseID) {
				continue
			}
			r.Eval(1)
			bus := eventbus.NewBus()
			var em event.Emitter
			var sub0 event.Subscription
			var first any
			if earlier == "plain" {
				em, _ = bus.Emitter(new(oslP))
				sub0, _ = bus.Subscribe(new(oslP), eventbus.BufSize(4))
				first = new(oslP)
			} else {
				em, _ = bus.Emitter(new(oslS), eventbus.Stateful)
				em.Emit(oslS{1})
				sub0, _ = bus.Subscribe(new(oslS), eventbus.BufSize(4))
				<-sub0.Out() // the retained event
				first = new(oslS)
			}
			var serr error
			var s2 event.Subscription
			if !within(caseID, "Subscribe([valid, not-a-pointer])", func() { s2, serr = bus.Subscribe([]any{first, oslP{7}}, eventbus.BufSize(buf)) }) {
				continue
			}
			if serr == nil {
				r.Count("odd_list_invalid_entry_accepted(counted)", 1)
				if s2 != nil {
					go s2.Close()
				}
			} else {
				r.Count("odd_list_subscribe_refused", 1)
			}
			var got any
			if !within(caseID, "Emit after the refused Subscribe", func() {
				if earlier == "plain" {
					em.Emit(oslP{2})
				} else {
					em.Emit(oslS{2})
				}
			}) {
				continue
			}
			if !within(caseID, "reading the earlier subscriber", func() { got = <-sub0.Out() }) {
				continue
			}
			if fmt.Sprint(got) != "{2}" {
				r.Violation("odd-subscribe-list/earlier-subscriber-got-wrong-event", caseID, fmt.Sprintf("an existing subscriber read %v after the refused Subscribe, the event emitted is {2}", got), nil)
				continue
			}
			if !within(caseID, "closing emitter and subscription", func() { em.Close(); sub0.Close() }) {
				continue
			}
			r.Count("odd_list_bus_usable_after_refused_subscribe", 1)
			r.Nontrivial(caseID)
		}
	}
	for li, list := range [][]any{{new(oslP), new(oslP)}, {new(oslS), new(oslP), new(oslS)}, {new(oslP), new(oslP), new(oslP)}} {
		caseID := fmt.Sprintf("odd-subscribe-list/same-type-twice/list%d", li)
		if !r.Want(caseID) {
			continue
		}
		r.Eval(1)
		bus := eventbus.NewBus()
		emP, _ := bus.Emitter(new(oslP))
		emS, _ := bus.Emitter(new(oslS))
		var sub event.Subscription
		var serr error
		if !within(caseID, "Subscribe(list naming a type twice)", func() { sub, serr = bus.Subscribe(list, eventbus.BufSize(32)) }) {
			continue
		}
		if serr != nil {
			r.Count("odd_list_duplicate_type_refused(counted)", 1)
			continue
		}
		if !within(caseID, "Emit", func() {
			for k := 1; k <= 3; k++ {
				emP.Emit(oslP{k})
				emS.Emit(oslS{k})
			}
		}) {
			continue
		}
		seen := map[string]int{}
	drain:
		for {
			select {
			case v := <-sub.Out():
				seen[fmt.Sprintf("%T%v", v, v)]++
			case <-time.After(50 * time.Millisecond):
				break drain
			}
		}
		for k := 1; k <= 3; k++ {
			n := seen[fmt.Sprintf("c15.oslP{%d}", k)]
			if n == 0 {
				r.Violation("odd-subscribe-list/event-not-delivered", caseID, fmt.Sprintf("event oslP{%d} never reached a subscriber whose list names its type (twice); seen %v", k, seen), nil)
			} else if n > 1 {
				r.Count("odd_list_events_delivered_once_per_mention(counted)", 1)
			}
		}
		if !within(caseID, "Subscription.Close", func() { sub.Close() }) {
			continue
		}
		closed := false
		if !within(caseID, "Out() ending after Close", func() {
			for range sub.Out() {
			}
			closed = true
		}) {
			continue
		}
		if !within(caseID, "Emit after Close", func() { emP.Emit(oslP{9}); emS.Emit(oslS{9}) }) {
			continue
		}
		if closed {
			r.Count("odd_list_duplicate_type_subscriptions_closed_cleanly", 1)
			r.Nontrivial(caseID)
		}
		emP.Close()
		emS.Close()
	}
	r.Require("odd_list_bus_usable_after_refused_subscribe", 4)
	r.Require("odd_list_duplicate_type_subscriptions_closed_cleanly", 3)
}
