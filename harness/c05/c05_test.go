// C05 — Every dial request completes exactly once; dials are deduplicated and capped.
//
// The REAL swarm (dialSync, dial worker, limiter, ranker, back-off) runs on scripted transports in synctest
// bubbles. Event log from one logical clock: every caller's call/return, every transport Dial start/end
// (address, flags, ctx error), conn closes. Checks: exactly-once return within bounded virtual time, result
// sanity (right peer, not a conn that was already closed when the call was made, never nil/nil), attempted
// set vs a reference filter on error returns, at most one transport Dial per address per waiting epoch,
// in-flight caps from the transport log, prompt release of cancelled callers without cancelling the shared
// attempt, zero residue (accessor + transport log) after all callers returned.
package c05

import (
	"context"
	"errors"
	"fmt"
	"os"
	"sort"
	"strings"
	"sync"
	"testing"
	"testing/synctest"
	"time"

	"github.com/libp2p/go-libp2p/core/network"
	"github.com/libp2p/go-libp2p/core/peer"
	"github.com/libp2p/go-libp2p/core/peerstore"
	"github.com/libp2p/go-libp2p/p2p/net/swarm"
	"github.com/libp2p/go-libp2p/x/verifhook"
	ma "github.com/multiformats/go-multiaddr"

	"verif/harness/rig/run"
	"verif/harness/rig/scripttpt"
	"verif/harness/rig/swarmrig"
)

type addrSpec struct {
	Name   string `json:"name"`
	Addr   string `json:"addr"`
	Class  string `json:"class"`  // must | optional | filtered   (reference filter for a non force-direct caller)
	Relay  bool   `json:"relay"`  // filtered for force-direct callers
	FD     bool   `json:"fd"`     // consumes a file descriptor token (tcp / ws)
	Script string `json:"script"` // ok | fail | hang | wrongpeer
	DelayU int    `json:"delay_us"`
	Prog   bool   `json:"progress"`
	Late   bool   `json:"ignore_cancel"`
	AddAt  int    `json:"known_from_us"` // becomes known to the peerstore at this time (0: from the start)
	// Script2: outcome of the 2nd and later transport dials of this address ("" = same as Script)
	Script2 string `json:"script_from_2nd_dial,omitempty"`
	// WrapBackoff: a "fail" of this address returns an error that WRAPS swarm.ErrDialBackoff, as the relay
	// client does when its own dial to the relay is refused for back-off (the dial itself was executed)
	WrapBackoff bool `json:"failure_wraps_ErrDialBackoff,omitempty"`
	// ViaName: the peerstore does not list this address itself, only a DNS name that resolves to it
	ViaName bool `json:"known_only_through_a_dns_name,omitempty"`
}

// nameSpec: an address of the peer that starts with a DNS name, and what the (fake) resolver answers
type nameSpec struct {
	Addr    string   `json:"addr_in_peerstore"`
	Records []string `json:"resolves_to"` // every entry is an addrSpec of the scenario; dnsaddr records get the /p2p suffix at run time
	Fail    bool     `json:"resolver_returns_an_error,omitempty"`
}

type caller struct {
	AtU      int  `json:"at_us"`
	Force    bool `json:"force_direct"`
	Sim      bool `json:"simultaneous_connect"`
	CancelU  int  `json:"cancel_after_us"` // -1: never
	TimeoutU int  `json:"ctx_timeout_us"`  // 0: none
}

type scenario struct {
	ID         string     `json:"id"`
	Staggered  bool       `json:"staggered"` // starts, cancellations and completions never share an instant
	Addrs      []addrSpec `json:"addrs"`
	Callers    []caller   `json:"callers"`
	CloseAtU   []int      `json:"close_all_conns_at_us"`
	Round2U    int        `json:"second_round_after_us"` // 0: single round
	HookDelayU int        `json:"afterdial_hook_delay_us"`
	// backoff-join scenarios: caller Joiner joins a worker that is kept alive by a hanging address at a
	// time when address MustDial is certainly not (or no longer) in back-off for it: it must be handed
	// to a transport at or after the joiner's call, or the joiner must succeed
	Joiner   int    `json:"joiner,omitempty"`
	MustDial string `json:"address_out_of_backoff_for_the_joiner,omitempty"`
	PerPeer  int    `json:"per_peer_limit"`
	FDLimit  int    `json:"fd_limit"`
	// Names: addresses the peerstore lists as DNS names (multi-record /dns4, /dnsaddr, failing and empty names)
	Names []nameSpec `json:"dns_names,omitempty"`
}

type ev struct {
	T      int64  `json:"t"`
	AtU    int64  `json:"at_us"`
	Kind   string `json:"kind"` // call ret dial.start dial.end close
	Caller int    `json:"caller"`
	Addr   string `json:"addr,omitempty"`
	Info   string `json:"info,omitempty"`
}

type callerResult struct {
	Returned    bool   `json:"returned"`
	StartU      int64  `json:"start_us"`
	EndU        int64  `json:"end_us"`
	Err         string `json:"err,omitempty"`
	CtxErr      bool   `json:"err_is_context"`
	ConnID      string `json:"conn,omitempty"`
	ConnNil     bool   `json:"conn_nil"`
	RightPeer   bool   `json:"right_peer"`
	ConnLimited bool   `json:"conn_limited"`
	ConnAddr    string `json:"conn_addr"`
	ClosedAt    int64  `json:"conn_closed_before_call_t"` // logical time the conn was closed, if before the call
}

type result struct {
	Events  []ev
	Callers []callerResult
	Dials   []scripttpt.DialRecord
	State   swarm.VerifSwarmState
	Infl    int
	MaxPeer int
	MaxFD   int
	Stuck   string
	bubble  run.BubbleResult

	ResolverCalls int
}

const relayPeerIdx = 60

func universe(rng interface{ IntN(int) int }, relay peer.ID, staggered bool) []addrSpec {
	all := []addrSpec{
		{Name: "tcp-pub", Addr: "/ip4/1.2.3.4/tcp/4001", Class: "must", FD: true},
		{Name: "tcp-priv", Addr: "/ip4/192.168.1.7/tcp/4001", Class: "must", FD: true},
		{Name: "quic-pub", Addr: "/ip4/1.2.3.5/udp/4001/quic-v1", Class: "must"},
		{Name: "wt-pub", Addr: "/ip4/1.2.3.6/udp/4001/quic-v1/webtransport", Class: "must"},
		{Name: "ws-pub", Addr: "/ip4/1.2.3.7/tcp/4002/ws", Class: "must", FD: true},
		{Name: "tcp6-pub", Addr: "/ip6/2001:db9::7/tcp/4001", Class: "must", FD: true},
		{Name: "relay", Addr: fmt.Sprintf("/ip4/9.9.9.9/tcp/4001/p2p/%s/p2p-circuit", relay), Class: "must", Relay: true}, // relay dials take no fd token: the relay transport's own dial to the relay does
		{Name: "no-transport", Addr: "/ip4/1.2.3.8/udp/4001", Class: "filtered"},
		{Name: "wt-same-tuple-as-quic", Addr: "/ip4/1.2.3.5/udp/4001/quic-v1/webtransport", Class: "optional"},
		{Name: "own-listen-addr", Addr: "/ip4/7.7.7.7/tcp/4001", Class: "filtered", FD: true},
		{Name: "unspecified", Addr: "/ip4/0.0.0.0/tcp/4001", Class: "filtered", FD: true},
	}
	n := rng.IntN(9)
	perm := make([]int, len(all))
	for i := range perm {
		perm[i] = i
	}
	for i := len(perm) - 1; i > 0; i-- {
		j := rng.IntN(i + 1)
		perm[i], perm[j] = perm[j], perm[i]
	}
	var out []addrSpec
	for _, i := range perm[:n] {
		a := all[i]
		a.Script = []string{"ok", "fail", "fail", "hang", "ok", "fail"}[rng.IntN(6)]
		if rng.IntN(25) == 0 {
			a.Script = "wrongpeer"
		}
		d := []int{0, 1000, 249000, 250000, 251000, 499000, 500000, 1000000, 5000000, 16000000}[rng.IntN(10)]
		if staggered {
			d += 7 // completions never coincide with starts (x000 us) or cancellations (x300 us)
		}
		a.DelayU = d
		a.Prog = rng.IntN(4) == 0
		a.Late = rng.IntN(12) == 0 && a.Script != "hang"
		if rng.IntN(5) == 0 {
			a.AddAt = []int{1000, 100000, 300000}[rng.IntN(3)]
		}
		out = append(out, a)
	}
	return out
}

// genHandover: a worker hand-over at one instant - the last caller of a worker gives up exactly when a
// new caller arrives, with dials waiting on the per-peer / fd limits on both sides of the hand-over.
func genHandover(r *run.R, i int, perPeer, fd int) *scenario {
	rng := r.Rand(51, uint64(i))
	pool := swarmrig.Pool(64)
	sc := &scenario{ID: fmt.Sprintf("handover/pp%d-fd%d/%d", perPeer, fd, i), PerPeer: perPeer, FDLimit: fd}
	all := universe(rng, pool.ID[relayPeerIdx], false)
	for _, a := range all {
		if a.Class != "must" {
			continue
		}
		a.AddAt, a.Late, a.Prog = 0, false, rng.IntN(4) == 0
		a.Script = []string{"fail", "fail", "hang", "ok"}[rng.IntN(4)]
		a.DelayU = []int{0, 1000, 249000, 250000, 500000, 2000000}[rng.IntN(6)]
		sc.Addrs = append(sc.Addrs, a)
	}
	t := []int{0, 1000, 250000, 251000, 500000}[rng.IntN(5)]
	first := caller{AtU: 0, CancelU: -1, Force: rng.IntN(3) == 0}
	if rng.IntN(2) == 0 {
		first.TimeoutU = t + 1
	} else {
		first.CancelU = t
	}
	if first.TimeoutU == 1 {
		first.TimeoutU = 1000
		t = 999
	}
	sc.Callers = append(sc.Callers, first)
	n := 1 + rng.IntN(3)
	for k := 0; k < n; k++ {
		at := t
		if first.TimeoutU > 0 {
			at = first.TimeoutU
		}
		sc.Callers = append(sc.Callers, caller{AtU: at, CancelU: -1, Force: rng.IntN(3) == 0, Sim: rng.IntN(4) == 0})
	}
	return sc
}

// genLateJoin: one worker kept alive by an anchor caller waiting on a slow address while the peerstore
// learns further addresses; later callers (with wider address sets) join that worker, are answered by a
// higher-ranked address before the lower-ranked ones are due, the conns are closed, and more callers
// arrive while the anchor dial is still pending.
func genLateJoin(r *run.R, i int, perPeer, fd int) *scenario {
	rng := r.Rand(52, uint64(i))
	pool := swarmrig.Pool(64)
	sc := &scenario{ID: fmt.Sprintf("latejoin/pp%d-fd%d/%d", perPeer, fd, i), Staggered: rng.IntN(2) == 0, PerPeer: perPeer, FDLimit: fd}
	var must []addrSpec
	for _, a := range universe(rng, pool.ID[relayPeerIdx], sc.Staggered) {
		if a.Class == "must" {
			must = append(must, a)
		}
	}
	for len(must) < 3 {
		must = nil
		for _, a := range universe(rng, pool.ID[relayPeerIdx], sc.Staggered) {
			if a.Class == "must" {
				must = append(must, a)
			}
		}
	}
	t1 := []int{100000, 300000}[rng.IntN(2)]
	for k := range must {
		a := &must[k]
		a.Late, a.Prog = false, rng.IntN(4) == 0
		if k == 0 { // the anchor
			a.AddAt = 0
			a.Script = []string{"fail", "hang"}[rng.IntN(2)]
			a.DelayU = []int{5000000, 9000000, 16000000}[rng.IntN(3)]
		} else {
			a.AddAt = t1
			a.Script = []string{"ok", "ok", "fail"}[rng.IntN(3)]
			a.DelayU = []int{0, 1000, 249000, 251000}[rng.IntN(4)]
		}
		if sc.Staggered {
			a.DelayU += 7
		}
	}
	sc.Addrs = must
	sc.Callers = append(sc.Callers, caller{AtU: 0, CancelU: -1})
	sc.Callers = append(sc.Callers, caller{AtU: t1 + 1000, CancelU: -1, Sim: rng.IntN(5) == 0})
	if rng.IntN(3) > 0 {
		sc.CloseAtU = append(sc.CloseAtU, []int{1000500, 1500500}[rng.IntN(2)])
	}
	n := 1 + rng.IntN(2)
	for k := 0; k < n; k++ {
		sc.Callers = append(sc.Callers, caller{AtU: 2000000 + 1000*k, CancelU: -1, Force: rng.IntN(4) == 0, Sim: rng.IntN(5) == 0})
	}
	return sc
}

// genBackoffJoin: back-off state meets a long-lived worker. Round A: a first caller fails on address X
// (X goes into back-off, 5 s + 1 s after the first failure) and gives up. A second, ordinary caller then
// starts a worker while X is still in back-off (X is refused for it) and waits on a hanging address. The
// JOINER joins that worker either 10-12 s later (X's back-off has expired long ago) or within the back-off
// as a force-direct dial (which skips back-off): X "is neither filtered out nor in back-off" for it and
// must be handed to a transport. Variant wrapped: an address whose EXECUTED dial fails with an error that
// wraps ErrDialBackoff (relay client) must not be handed to a transport a second time while callers wait.
func genBackoffJoin(r *run.R, i int, perPeer, fd int) *scenario {
	rng := r.Rand(53, uint64(i))
	pool := swarmrig.Pool(64)
	sc := &scenario{ID: fmt.Sprintf("backoffjoin/pp%d-fd%d/%d", perPeer, fd, i), Staggered: true, PerPeer: perPeer, FDLimit: fd}
	x := addrSpec{Name: "tcp-pub", Addr: "/ip4/1.2.3.4/tcp/4001", Class: "must", FD: true, Script: "fail", Script2: []string{"ok", "fail"}[rng.IntN(2)], DelayU: 1007}
	y := addrSpec{Name: "quic-pub", Addr: "/ip4/1.2.3.5/udp/4001/quic-v1", Class: "must", Script: "hang", DelayU: 7}
	if rng.IntN(3) == 0 {
		x, y = addrSpec{Name: "quic-pub", Addr: "/ip4/1.2.3.5/udp/4001/quic-v1", Class: "must", Script: "fail", Script2: "ok", DelayU: 1007},
			addrSpec{Name: "tcp-pub", Addr: "/ip4/1.2.3.4/tcp/4001", Class: "must", FD: true, Script: "hang", DelayU: 7}
	}
	sc.Addrs = []addrSpec{x, y}
	switch rng.IntN(3) {
	case 0: // joiner after the back-off has expired
		sc.Callers = []caller{{AtU: 0, CancelU: -1, TimeoutU: 500300}, {AtU: 1000000, CancelU: -1}, {AtU: 10000000 + 1000000*rng.IntN(3), CancelU: -1}}
		sc.Joiner, sc.MustDial = 2, x.Addr
	case 1: // force-direct joiner inside the back-off
		sc.Callers = []caller{{AtU: 0, CancelU: -1, TimeoutU: 500300}, {AtU: 1000000, CancelU: -1}, {AtU: 3000000, CancelU: -1, Force: true}}
		sc.Joiner, sc.MustDial = 2, x.Addr
	default: // an executed relay dial that fails with a wrapped back-off error; a joiner after 8 s
		rel := addrSpec{Name: "relay", Addr: fmt.Sprintf("/ip4/9.9.9.9/tcp/4001/p2p/%s/p2p-circuit", pool.ID[relayPeerIdx]), Class: "must", Relay: true, Script: "fail", DelayU: 2007, WrapBackoff: true}
		sc.Addrs = []addrSpec{rel, y}
		sc.Callers = []caller{{AtU: 0, CancelU: -1}, {AtU: 8000000 + 1000000*rng.IntN(3), CancelU: -1}}
	}
	return sc
}

func gen(r *run.R, i int, perPeer, fd int) *scenario {
	rng := r.Rand(5, uint64(i))
	pool := swarmrig.Pool(64)
	sc := &scenario{ID: fmt.Sprintf("dial/pp%d-fd%d/%d", perPeer, fd, i), Staggered: rng.IntN(2) == 0, PerPeer: perPeer, FDLimit: fd}
	sc.Addrs = universe(rng, pool.ID[relayPeerIdx], sc.Staggered)
	if i%3 == 1 {
		dnsify(rng, sc)
	}
	n := 1 + rng.IntN(6)
	for k := 0; k < n; k++ {
		c := caller{AtU: []int{0, 0, 1000, 100000, 250000, 251000, 600000, 2000000}[rng.IntN(8)], CancelU: -1}
		c.Force, c.Sim = rng.IntN(4) == 0, rng.IntN(6) == 0
		switch rng.IntN(3) {
		case 0:
			c.CancelU = []int{0, 1000, 249000, 250000, 251000, 700000, 3000000}[rng.IntN(7)]
		case 1:
			c.TimeoutU = []int{1000, 250000, 251000, 1000000, 6000000}[rng.IntN(5)]
		}
		if sc.Staggered {
			if c.CancelU >= 0 {
				c.CancelU += 300
			}
			if c.TimeoutU > 0 {
				c.TimeoutU += 300
			}
		}
		sc.Callers = append(sc.Callers, c)
	}
	if rng.IntN(4) == 0 {
		sc.CloseAtU = append(sc.CloseAtU, []int{300500, 1000500, 5500500}[rng.IntN(3)])
	}
	if rng.IntN(4) == 0 {
		sc.Round2U = []int{100000500, 1000500, 30000500}[rng.IntN(3)]
	}
	if !sc.Staggered && rng.IntN(4) == 0 {
		sc.HookDelayU = []int{1, 1000, 250000}[rng.IntN(3)]
	}
	return sc
}

// dnsify hides some addresses of the scenario behind DNS names: a /dns4 name with 2-3 A records (one of
// them the scenario's public TCP address), a /dnsaddr name whose records are the QUIC-family addresses
// (which may be listed directly as well: duplicates), a name the resolver fails for and one without
// records. The candidate set - and so every rule of the oracle - stays a set of addrSpecs.
func dnsify(rng interface{ IntN(int) int }, sc *scenario) {
	script := func(a addrSpec) addrSpec {
		a.Script = []string{"ok", "fail", "fail", "hang", "fail", "fail"}[rng.IntN(6)]
		a.DelayU = []int{0, 1000, 250000, 499000, 1000000}[rng.IntN(5)]
		if sc.Staggered {
			a.DelayU += 7
		}
		return a
	}
	multi := nameSpec{Addr: "/dns4/multi.verif/tcp/4001"}
	found := false
	for k := range sc.Addrs {
		if sc.Addrs[k].Name == "tcp-pub" {
			sc.Addrs[k].ViaName, sc.Addrs[k].AddAt, found = true, 0, true
		}
	}
	if !found {
		sc.Addrs = append(sc.Addrs, script(addrSpec{Name: "tcp-pub", Addr: "/ip4/1.2.3.4/tcp/4001", Class: "must", FD: true, ViaName: true}))
	}
	multi.Records = append(multi.Records, "/ip4/1.2.3.4/tcp/4001")
	for k := 0; k < 1+rng.IntN(2); k++ {
		a := script(addrSpec{Name: fmt.Sprintf("tcp-pub-%c", 'b'+k), Addr: fmt.Sprintf("/ip4/1.2.3.%d/tcp/4001", 14+10*k), Class: "must", FD: true, ViaName: true})
		sc.Addrs = append(sc.Addrs, a)
		multi.Records = append(multi.Records, a.Addr)
	}
	sc.Names = append(sc.Names, multi)
	boot := nameSpec{Addr: "/dnsaddr/boot.verif"}
	for k := range sc.Addrs {
		if n := sc.Addrs[k].Name; n == "quic-pub" || n == "wt-pub" || n == "ws-pub" {
			boot.Records = append(boot.Records, sc.Addrs[k].Addr)
			sc.Addrs[k].AddAt = 0
			sc.Addrs[k].ViaName = rng.IntN(2) == 0
		}
	}
	if rng.IntN(3) > 0 {
		sc.Names = append(sc.Names, boot)
	} else {
		for k := range sc.Addrs {
			if n := sc.Addrs[k].Name; n == "quic-pub" || n == "wt-pub" || n == "ws-pub" {
				sc.Addrs[k].ViaName = false
			}
		}
	}
	if rng.IntN(2) == 0 {
		sc.Names = append(sc.Names, nameSpec{Addr: "/dns4/broken.verif/tcp/4001", Fail: true})
	}
	if rng.IntN(3) == 0 {
		sc.Names = append(sc.Names, nameSpec{Addr: "/dns6/empty.verif/tcp/4001"})
	}
}

// fakeResolver answers from the scenario's table, at once
type fakeResolver struct {
	names  map[string]nameSpec
	remote peer.ID
	mu     sync.Mutex
	calls  int
}

func (f *fakeResolver) lookup(a ma.Multiaddr, suffix bool) ([]ma.Multiaddr, error) {
	f.mu.Lock()
	f.calls++
	f.mu.Unlock()
	n, ok := f.names[a.String()]
	if !ok || n.Fail {
		return nil, fmt.Errorf("verif resolver: no such host %s", a)
	}
	var out []ma.Multiaddr
	for _, r := range n.Records {
		m := ma.StringCast(r)
		if suffix {
			m = m.Encapsulate(ma.StringCast("/p2p/" + f.remote.String()))
		}
		out = append(out, m)
	}
	return out, nil
}

func (f *fakeResolver) ResolveDNSAddr(_ context.Context, _ peer.ID, a ma.Multiaddr, _, _ int) ([]ma.Multiaddr, error) {
	return f.lookup(a, true)
}

func (f *fakeResolver) ResolveDNSComponent(_ context.Context, a ma.Multiaddr, _ int) ([]ma.Multiaddr, error) {
	return f.lookup(a, false)
}

var slots = swarmrig.NewSlots(40)

// hook point between a caller's dial returning and the ref-count decrement in dialSync.Dial: a virtual
// delay there keeps the worker alive a little longer after its last caller was answered
var afterDialDelay sync.Map // remote peer id -> time.Duration

func init() {
	verifhook.Set("swarm.dialSync.afterDial", func(_ string, arg any) {
		if p, ok := arg.(peer.ID); ok {
			if d, ok := afterDialDelay.Load(p); ok && d.(time.Duration) > 0 {
				time.Sleep(d.(time.Duration))
			}
		}
	})
}

func runScenario(t *testing.T, sc *scenario) (res result) {
	slot := slots.Get()
	defer slots.Put(slot)
	res.bubble = run.Bubble(t, func(t *testing.T) {
		pool := swarmrig.Pool(64)
		remote := pool.ID[slot]
		wrong := pool.ID[59]
		if sc.HookDelayU > 0 {
			afterDialDelay.Store(remote, time.Duration(sc.HookDelayU)*time.Microsecond)
			defer afterDialDelay.Delete(remote)
		}
		start := time.Now()
		us := func() int64 { return time.Since(start).Microseconds() }
		var mu sync.Mutex
		var clock int64
		add := func(e ev) int64 {
			mu.Lock()
			defer mu.Unlock()
			clock++
			e.T, e.AtU = clock, us()
			res.Events = append(res.Events, e)
			return clock
		}
		byAddr := map[string]*addrSpec{}
		for i := range sc.Addrs {
			byAddr[ma.StringCast(sc.Addrs[i].Addr).String()] = &sc.Addrs[i]
		}
		fres := &fakeResolver{names: map[string]nameSpec{}, remote: remote}
		for _, n := range sc.Names {
			fres.names[ma.StringCast(n.Addr).String()] = n
		}
		defer func() { res.ResolverCalls = fres.calls }()
		rig, err := swarmrig.New(20+slot%3, func(tpt string, a ma.Multiaddr, p peer.ID, attempt int) scripttpt.Outcome {
			sp := byAddr[a.String()]
			if sp == nil {
				return scripttpt.Outcome{Kind: "fail"}
			}
			out := scripttpt.Outcome{Kind: sp.Script, Delay: time.Duration(sp.DelayU) * time.Microsecond, Progress: sp.Prog, AsPeer: wrong, IgnoreCancel: sp.Late}
			if attempt > 0 && sp.Script2 != "" {
				out.Kind = sp.Script2
			}
			if sp.WrapBackoff {
				out.Err = fmt.Errorf("relay: failed to dial the relay: %w", swarm.ErrDialBackoff)
			}
			return out
		}, swarm.WithDialTimeout(15*time.Second), swarm.WithDialTimeoutLocal(5*time.Second), swarm.WithMultiaddrResolver(fres))
		if err != nil {
			panic(err)
		}
		sw := rig.Swarm
		fdInfl, maxFD := 0, 0
		rig.Log.OnEvent = func(kind string, d *scripttpt.DialRecord) {
			sp := byAddr[d.Addr]
			if kind == "start" {
				add(ev{Kind: "dial.start", Caller: -1, Addr: d.Addr, Info: fmt.Sprintf("force=%v sim=%v", d.ForceDirect, d.SimConnect)})
				if sp != nil && sp.FD {
					fdInfl++
					if fdInfl > maxFD {
						maxFD = fdInfl
					}
				}
			} else {
				add(ev{Kind: "dial.end", Caller: -1, Addr: d.Addr, Info: d.Result + " " + d.CtxErr})
				if sp != nil && sp.FD {
					fdInfl--
				}
			}
		}
		if err := sw.Listen(ma.StringCast("/ip4/7.7.7.7/tcp/4001")); err != nil {
			panic(err)
		}
		closedAt := map[string]int64{}
		var wg sync.WaitGroup
		for _, n := range sc.Names {
			rig.PS.AddAddrs(remote, []ma.Multiaddr{ma.StringCast(n.Addr)}, peerstore.PermanentAddrTTL)
		}
		for i := range sc.Addrs {
			a := sc.Addrs[i]
			m := ma.StringCast(a.Addr)
			if a.ViaName {
				continue
			}
			if a.AddAt == 0 {
				rig.PS.AddAddrs(remote, []ma.Multiaddr{m}, peerstore.PermanentAddrTTL)
				if i%3 == 0 { // the same address again, with the /p2p suffix
					rig.PS.AddAddrs(remote, []ma.Multiaddr{m.Encapsulate(ma.StringCast("/p2p/" + remote.String()))}, peerstore.PermanentAddrTTL)
				}
				continue
			}
			wg.Add(1)
			go func() {
				defer wg.Done()
				time.Sleep(time.Duration(a.AddAt) * time.Microsecond)
				rig.PS.AddAddrs(remote, []ma.Multiaddr{m}, peerstore.PermanentAddrTTL)
			}()
		}
		for _, at := range sc.CloseAtU {
			at := at
			wg.Add(1)
			go func() {
				defer wg.Done()
				time.Sleep(time.Duration(at) * time.Microsecond)
				for _, c := range sw.ConnsToPeer(remote) {
					c.Close()
					// stamped when Close has RETURNED: only then is "closed before the call was made" a fact
					// (a call made while Close is still running is concurrent with it and may get the conn)
					t := add(ev{Kind: "close", Caller: -1, Info: c.ID()})
					mu.Lock()
					closedAt[c.ID()] = t
					mu.Unlock()
				}
			}()
		}
		rounds := 1
		if sc.Round2U > 0 {
			rounds = 2
		}
		res.Callers = make([]callerResult, len(sc.Callers)*rounds)
		for rd := 0; rd < rounds; rd++ {
			for ci, c := range sc.Callers {
				ci, c, rd := ci, c, rd
				idx := rd*len(sc.Callers) + ci
				wg.Add(1)
				go func() {
					defer wg.Done()
					time.Sleep(time.Duration(c.AtU+rd*sc.Round2U) * time.Microsecond)
					ctx := context.Background()
					var cancel context.CancelFunc = func() {}
					if c.TimeoutU > 0 {
						ctx, cancel = context.WithTimeout(ctx, time.Duration(c.TimeoutU)*time.Microsecond)
					} else if c.CancelU >= 0 {
						ctx, cancel = context.WithCancel(ctx)
						cn := cancel
						d := time.Duration(c.CancelU) * time.Microsecond
						go func() { time.Sleep(d); cn() }()
					}
					defer cancel()
					if c.Force {
						ctx = network.WithForceDirectDial(ctx, "verif")
					}
					if c.Sim {
						ctx = network.WithSimultaneousConnect(ctx, idx%2 == 0, "verif")
					}
					cr := callerResult{StartU: us()}
					tcall := add(ev{Kind: "call", Caller: idx, Info: fmt.Sprintf("force=%v sim=%v", c.Force, c.Sim)})
					conn, err := sw.DialPeer(ctx, remote)
					cr.Returned, cr.EndU = true, us()
					if err != nil {
						cr.Err = err.Error()
						cr.CtxErr = errors.Is(err, context.Canceled) || errors.Is(err, context.DeadlineExceeded)
						if conn != nil {
							cr.ConnID = "conn-and-error"
						}
					} else if conn == nil {
						cr.ConnNil = true
					} else {
						cr.ConnID, cr.RightPeer, cr.ConnLimited = conn.ID(), conn.RemotePeer() == remote, conn.Stat().Limited
						cr.ConnAddr = conn.RemoteMultiaddr().String()
						mu.Lock()
						if t, ok := closedAt[conn.ID()]; ok && t < tcall {
							cr.ClosedAt = t
						}
						mu.Unlock()
					}
					add(ev{Kind: "ret", Caller: idx, Info: cr.Err + cr.ConnID})
					mu.Lock()
					res.Callers[idx] = cr
					mu.Unlock()
				}()
			}
		}
		waitV := func(f func(), d time.Duration) bool {
			done := make(chan struct{})
			go func() { f(); close(done) }()
			select {
			case <-done:
				return true
			case <-time.After(d):
				return false
			}
		}
		if !waitV(wg.Wait, 10*time.Minute) {
			res.Stuck = "a DialPeer call had not returned after 10 virtual minutes"
		}
		// late transports (ignore-cancel) and dial timeouts wind down
		time.Sleep(40 * time.Second)
		synctest.Wait()
		res.State = swarm.VerifState(sw)
		res.Infl = rig.Log.Inflight()
		res.Dials = rig.Log.Records()
		res.MaxPeer = rig.Log.MaxInflightPerPeer
		mu.Lock()
		res.MaxFD = maxFD
		mu.Unlock()
		waitV(func() { sw.Close() }, time.Minute)
		rig.PS.Close()
	})
	return
}

type finding struct{ sig, msg string }

func check(sc *scenario, res *result) (out []finding, st map[string]int) {
	st = map[string]int{}
	norm := map[string]*addrSpec{}
	for i := range sc.Addrs {
		norm[ma.StringCast(sc.Addrs[i].Addr).String()] = &sc.Addrs[i]
	}
	nCallers := len(sc.Callers)
	for idx, cr := range res.Callers {
		c := sc.Callers[idx%nCallers]
		rd := idx / nCallers
		if !cr.Returned {
			continue // reported as stuck
		}
		st["callers"]++
		switch {
		case cr.ConnNil:
			// "returns exactly once - with a usable connection to that very peer, or with an error"
			out = append(out, finding{"returned-nil-conn-and-nil-error", fmt.Sprintf("caller %d got (nil, nil)", idx)})
		case cr.ConnID == "conn-and-error":
			out = append(out, finding{"returned-conn-and-error", fmt.Sprintf("caller %d got a conn together with an error", idx)})
		case cr.Err == "":
			st["callers_succeeded"]++
			if !cr.RightPeer {
				out = append(out, finding{"conn-to-another-peer", fmt.Sprintf("caller %d got a connection authenticated as another peer", idx)})
			}
			if cr.ClosedAt != 0 {
				out = append(out, finding{"returned-conn-closed-before-the-call", fmt.Sprintf("caller %d got conn %s which had been closed before the call was made", idx, cr.ConnID)})
			}
			if c.Force && cr.ConnLimited {
				out = append(out, finding{"force-direct-got-limited-conn", fmt.Sprintf("caller %d demanded a direct connection and got a limited one", idx)})
			}
			if sp := norm[cr.ConnAddr]; sp != nil && sp.Script == "wrongpeer" {
				out = append(out, finding{"conn-from-wrong-peer-transport", "a conn the transport returned for another peer was handed out"})
			}
		default:
			st["callers_failed"]++
			if cr.CtxErr {
				st["callers_ctx_error"]++
			}
		}
		// "A caller whose context is cancelled is released promptly": at the very instant in virtual time
		if c.CancelU >= 0 || c.TimeoutU > 0 {
			lim := int64(c.CancelU)
			if c.TimeoutU > 0 {
				lim = int64(c.TimeoutU)
			}
			if cr.EndU-cr.StartU > lim+int64(sc.HookDelayU) { // the hook's own delay sits inside the caller's return path
				out = append(out, finding{"cancelled-caller-not-released-promptly", fmt.Sprintf("caller %d returned %d us after its call, its context ended after %d us", idx, cr.EndU-cr.StartU, lim)})
			} else if cr.CtxErr {
				st["cancelled_callers_released_at_once"]++
			}
		}
		// "with an error once every candidate address has failed or been refused": an error that is not
		// the caller's own context while a dialable address was never handed to a transport
		ownAlive := true // the caller's own context had not ended when it returned
		if c.TimeoutU > 0 && int64(c.TimeoutU) <= cr.EndU-cr.StartU {
			ownAlive = false
		}
		if c.CancelU >= 0 && c.TimeoutU == 0 && int64(c.CancelU) <= cr.EndU-cr.StartU {
			ownAlive = false
		}
		// with the default caps every address can be in flight at once: also an error caused by the
		// 60 s dial-peer timeout must not leave a dialable address unattempted ("every address that is
		// neither filtered out nor in back-off is attempted unless ... every caller has given up first")
		// with small caps the dials are serialised: the rule still applies when even the sum of all dial
		// durations (a hanging dial lasts until its 15 s dial timeout) fits well inside the 60 s
		var serial int64
		for _, sp := range sc.Addrs {
			d := int64(sp.DelayU)
			if sp.Script == "hang" || d > 15000000 {
				d = 15000000
			}
			serial += d + 1000000
		}
		timedOutWaiting := cr.CtxErr && ownAlive && ((sc.PerPeer >= 8 && sc.FDLimit >= 8) || serial < 50000000)
		if cr.Err != "" && (!cr.CtxErr || timedOutWaiting) && rd == 0 && sc.Round2U == 0 && !strings.Contains(cr.Err, "swarm closed") {
			for _, sp := range sc.Addrs {
				if sp.Class != "must" || (c.Force && sp.Relay) || int64(sp.AddAt) > cr.StartU-2 {
					continue
				}
				attempted := false
				for _, d := range res.Dials {
					if d.Addr == ma.StringCast(sp.Addr).String() && d.Start.Sub(res.Dials[0].Start) >= -time.Hour && usSince(res, d) <= cr.EndU {
						attempted = true
					}
				}
				if !attempted {
					out = append(out, finding{"error-although-address-never-attempted", fmt.Sprintf("caller %d failed with %q although %s (%s) was never handed to a transport", idx, cr.Err, sp.Name, sp.Addr)})
				} else {
					st["error_returns_with_all_attempted"]++
					if timedOutWaiting {
						st["dial_timeout_returns_with_all_attempted"]++
					}
				}
			}
		}
	}
	if len(sc.Names) > 0 {
		st["scenarios_with_dns_names"]++
		st["dns_resolver_calls"] += res.ResolverCalls
		for _, sp := range sc.Addrs {
			if sp.ViaName {
				for _, d := range res.Dials {
					if d.Addr == ma.StringCast(sp.Addr).String() {
						st["dials_of_addresses_known_only_through_a_dns_name"]++
					}
				}
			}
		}
	}
	// backoff-join: the address that is out of back-off for the joiner
	if sc.MustDial != "" && sc.Joiner < len(res.Callers) && res.Callers[sc.Joiner].Returned {
		jr := res.Callers[sc.Joiner]
		want := ma.StringCast(sc.MustDial).String()
		dialled := false
		for _, e := range res.Events {
			if e.Kind == "dial.start" && e.Addr == want && e.AtU >= jr.StartU {
				dialled = true
			}
		}
		st["backoff_join_scenarios"]++
		if dialled {
			st["backoff_join_address_dialled_for_the_joiner"]++
		} else if jr.Err != "" {
			out = append(out, finding{"error-although-address-out-of-backoff-never-attempted", fmt.Sprintf("caller %d (called at %d us, force-direct=%v) failed with %q although %s was not in back-off for it and was never handed to a transport after its call",
				sc.Joiner, jr.StartU, sc.Callers[sc.Joiner].Force, jr.Err, sc.MustDial)})
		}
	}
	// epochs of waiting callers over the logical clock (exact in staggered scenarios)
	if sc.Staggered {
		active := 0
		epoch := 0
		dialled := map[string]int{}
		startEpoch := map[string][]int{}
		for _, e := range res.Events {
			switch e.Kind {
			case "call":
				if active == 0 {
					epoch++
					dialled = map[string]int{}
				}
				active++
			case "ret":
				active--
			case "dial.start":
				startEpoch[e.Addr] = append(startEpoch[e.Addr], epoch)
				dialled[e.Addr]++
				// "While any caller is waiting, each address of the peer is handed to a transport at most once"
				if dialled[e.Addr] > 1 && active > 0 {
					out = append(out, finding{"address-dialled-twice-while-callers-waiting", fmt.Sprintf("%s was handed to a transport %d times during one waiting epoch", e.Addr, dialled[e.Addr])})
				}
			case "dial.end":
				// a dial that ends now may belong to an earlier epoch (a transport that reacts late)
				mine := true
				if q := startEpoch[e.Addr]; len(q) > 0 {
					mine = q[0] == epoch
					startEpoch[e.Addr] = q[1:]
				}
				// "released promptly without cancelling the shared attempt for the others"
				if mine && strings.Contains(e.Info, "context canceled") && active > 0 && stillWaitingAfter(res.Events, e.T) {
					out = append(out, finding{"shared-attempt-cancelled-while-callers-waiting", fmt.Sprintf("the dial of %s was cancelled while a caller was (and stayed) waiting", e.Addr)})
				}
			}
		}
		st["staggered_scenarios"]++
		// "success answers every request interested in the address": when a dial of an address succeeds,
		// every caller that was already waiting, knew that address when it called, accepts it and whose own
		// context has not ended, returns at that very instant (exact in staggered scenarios)
		type waiting struct {
			idx     int
			callAtU int64
		}
		open := map[int]waiting{}
		retAt := map[int]int64{}
		for _, e := range res.Events {
			if e.Kind == "ret" {
				retAt[e.Caller] = e.AtU
			}
		}
		for _, e := range res.Events {
			switch e.Kind {
			case "call":
				open[e.Caller] = waiting{e.Caller, e.AtU}
			case "ret":
				delete(open, e.Caller)
			case "dial.end":
				sp := norm[e.Addr]
				if !strings.HasPrefix(e.Info, "ok") || sp == nil || sp.Script != "ok" || sp.Class != "must" {
					continue // an address a caller may have filtered out (same 2-tuple) is not one it waits for
				}
				for _, w := range open {
					c := sc.Callers[w.idx%nCallers]
					rd := int64(w.idx/nCallers) * int64(sc.Round2U)
					if w.callAtU >= e.AtU || (c.Force && sp.Relay) || int64(sp.AddAt)+rd >= w.callAtU {
						continue
					}
					own := int64(1) << 62
					if c.TimeoutU > 0 {
						own = w.callAtU + int64(c.TimeoutU)
					} else if c.CancelU >= 0 {
						own = w.callAtU + int64(c.CancelU)
					}
					if own <= e.AtU {
						continue
					}
					closedSame := false
					for _, x := range res.Events {
						if x.Kind == "close" && x.AtU == e.AtU {
							closedSame = true
						}
					}
					if r, ok := retAt[w.idx]; ok && r > e.AtU && !closedSame {
						out = append(out, finding{"caller-kept-waiting-after-connection-obtained", fmt.Sprintf("caller %d was waiting when the dial of %s succeeded at %d us and returned only at %d us", w.idx, sp.Name, e.AtU, r)})
					} else {
						st["callers_released_by_shared_success"]++
					}
				}
			}
		}
	}
	// caps
	if res.MaxPeer > sc.PerPeer {
		out = append(out, finding{"per-peer-cap-exceeded", fmt.Sprintf("%d dials to the peer in flight, per-peer cap %d", res.MaxPeer, sc.PerPeer)})
	}
	if res.MaxFD > sc.FDLimit {
		out = append(out, finding{"fd-cap-exceeded", fmt.Sprintf("%d fd-consuming dials in flight, cap %d", res.MaxFD, sc.FDLimit)})
	}
	if res.MaxPeer == sc.PerPeer {
		st["per_peer_cap_reached"]++
	}
	if res.MaxFD == sc.FDLimit {
		st["fd_cap_reached"]++
	}
	// "once all callers have returned no attempt, token or worker remains"
	s := res.State
	if s.ActiveDials != 0 || s.DialRefs != 0 || s.LimiterFDConsuming != 0 || s.LimiterWaitingOnFD != 0 || s.LimiterActivePerPeer != 0 || s.LimiterWaitingOnPeer != 0 || res.Infl != 0 {
		out = append(out, finding{"residue-after-all-callers-returned", fmt.Sprintf("swarm state %+v, transport dials still in flight: %d", s, res.Infl)})
	}
	for _, d := range res.Dials {
		st["transport_dials"]++
		if d.ForceDirect && norm[d.Addr] != nil && norm[d.Addr].Relay {
			out = append(out, finding{"relay-dialled-under-force-direct", "a relay address was dialled with the force-direct flag"})
		}
		if sp := norm[d.Addr]; sp != nil && sp.Class == "filtered" {
			out = append(out, finding{"filtered-address-dialled/" + sp.Name, "an address that must be filtered out was handed to a transport: " + d.Addr})
		}
	}
	return
}

func usSince(res *result, d scripttpt.DialRecord) int64 {
	// virtual microseconds of the dial start relative to the scenario start: events carry AtU
	for _, e := range res.Events {
		if e.Kind == "dial.start" && e.Addr == d.Addr {
			return e.AtU
		}
	}
	return 1 << 62
}

func stillWaitingAfter(evs []ev, t int64) bool {
	// some caller that had called before t returns only at a later INSTANT than the cancellation
	var at int64
	for _, e := range evs {
		if e.T == t {
			at = e.AtU
		}
	}
	open := map[int]bool{}
	for _, e := range evs {
		if e.T < t && e.Kind == "call" {
			open[e.Caller] = true
		}
		if e.Kind == "ret" && e.T < t {
			delete(open, e.Caller)
		}
	}
	for _, e := range evs {
		if e.Kind == "ret" && e.T > t && open[e.Caller] && e.AtU > at {
			return true
		}
	}
	return false
}

func TestC05(t *testing.T) {
	r := run.New(t, "C05", "exploration")
	defer r.Finish()
	r.Rule("scenario = (0-8 addresses of the peer from a universe of public/private TCP, QUIC, WebTransport, WebSocket, IPv6, relay, no-transport, own listen address, unspecified, same-2-tuple duplicates, also with /p2p suffix, some learned later; per-address script ok/fail/hang/wrong-peer with delays around the ranker's 250 ms steps, optional handshake-progress update, optional late reaction to cancellation; 1-6 callers with start offsets, force-direct / simultaneous-connect flags, cancellation or timeout; optional close of all conns; optional second round inside/after back-off) x caps configuration; half of the scenarios are 'staggered' (starts, cancellations and completions never share a virtual instant: epoch-based rules are exact there), half aligned on the same instants (hostile coincidences). Non-trivial: >= 2 callers overlapped or a caller was cancelled while a dial was in flight; distinct by scenario id")
	r.Assume("transports are scripted: a well-behaved transport returns when its context ends unless the script says it reacts late",
		"the black-hole detector stays in its probing state (fresh swarm per scenario); its own behaviour is C20",
		"'eventually' is restated as: every caller returns within 10 virtual minutes, and nothing remains 40 virtual seconds after the last return")
	rankerPart(r)
	type capCfg struct{ perPeer, fd int }
	cfgs := []capCfg{{8, 160}, {1, 1}, {2, 2}, {3, 1}}
	n := r.Pick(5000, 120000)
	if os.Getenv("VERIF_RACE") == "1" {
		n = r.Pick(700, 5000)
	}
	defPP := swarm.DefaultPerPeerRateLimit
	defer func() { swarm.DefaultPerPeerRateLimit = defPP; os.Unsetenv("LIBP2P_SWARM_FD_LIMIT") }()
	for ci, cf := range cfgs {
		// caps are process-global knobs read by NewSwarm: one configuration at a time
		swarm.DefaultPerPeerRateLimit = cf.perPeer
		os.Setenv("LIBP2P_SWARM_FD_LIMIT", fmt.Sprint(cf.fd))
		run.Parallel(n, 0, func(i int) {
			sc := gen(r, ci*1000000+i, cf.perPeer, cf.fd)
			if i%4 == 3 {
				sc = genHandover(r, ci*1000000+i, cf.perPeer, cf.fd)
			}
			if i%8 == 5 {
				sc = genLateJoin(r, ci*1000000+i, cf.perPeer, cf.fd)
			}
			if i%16 == 9 {
				sc = genBackoffJoin(r, ci*1000000+i, cf.perPeer, cf.fd)
			}
			if !r.Want(sc.ID) || r.TooMany() {
				return
			}
			res := runScenario(t, sc)
			r.Eval(1)
			if res.Stuck != "" {
				r.Violation("caller-never-returned", sc.ID, res.Stuck, map[string]any{"scenario": sc, "events": res.Events, "callers": res.Callers})
				return
			}
			if r.BubbleFailed(res.bubble, "scenario", sc.ID, "the scenario never wound down (all goroutines blocked)", map[string]any{"scenario": sc}) {
				return
			}
			if res.State.PerPeerLimit != cf.perPeer || res.State.FDLimit != cf.fd {
				r.Inconclusive(sc.ID, fmt.Sprintf("caps knobs not applied: %+v", res.State))
				return
			}
			fs, st := check(sc, &res)
			seen := map[string]bool{}
			for _, f := range fs {
				if !seen[f.sig] {
					seen[f.sig] = true
					r.Violation(f.sig, sc.ID, f.msg, map[string]any{"scenario": sc, "events": res.Events, "callers": res.Callers, "state": res.State})
				}
			}
			for k, v := range st {
				r.Count(k, v)
			}
			if overlap(&res) {
				r.Nontrivial(sc.ID)
				r.Count("scenarios_with_overlapping_callers", 1)
			}
			if i == 13 && ci == 0 {
				r.Sample(map[string]any{"scenario": sc, "events_head": headEv(res.Events, 40), "callers": res.Callers})
			}
		})
	}
	r.Require("callers_succeeded", 500)
	r.Require("callers_failed", 500)
	r.Require("cancelled_callers_released_at_once", 200)
	r.Require("error_returns_with_all_attempted", 200)
	r.Require("per_peer_cap_reached", 50)
	r.Require("fd_cap_reached", 50)
	r.Require("scenarios_with_overlapping_callers", 500)
	r.Require("transport_dials", 2000)
	r.Require("callers_released_by_shared_success", 100)
	r.Require("backoff_join_address_dialled_for_the_joiner", 100)
	r.Require("scenarios_with_dns_names", 500)
	r.Require("dials_of_addresses_known_only_through_a_dns_name", 500)
}

func overlap(res *result) bool {
	active := 0
	for _, e := range res.Events {
		switch e.Kind {
		case "call":
			active++
			if active > 1 {
				return true
			}
		case "ret":
			active--
		}
	}
	return false
}

func headEv(e []ev, n int) []ev {
	if len(e) > n {
		return e[:n]
	}
	return e
}

// rankerPart: "DefaultDialRanker returns each input address exactly once with a delay" (function level).
func rankerPart(r *run.R) {
	pool := swarmrig.Pool(64)
	n := r.Pick(3000, 60000)
	run.Parallel(n, 0, func(i int) {
		id := fmt.Sprintf("ranker/%d", i)
		if !r.Want(id) {
			return
		}
		rng := r.Rand(55, uint64(i))
		specs := universe(rng, pool.ID[relayPeerIdx], false)
		var in []ma.Multiaddr
		for _, s := range specs {
			in = append(in, ma.StringCast(s.Addr))
		}
		// more addresses of the same kinds
		for k := 0; k < rng.IntN(6); k++ {
			in = append(in, ma.StringCast(fmt.Sprintf("/ip4/1.2.%d.%d/tcp/%d", rng.IntN(4), 1+rng.IntN(250), 1000+rng.IntN(3))))
			if rng.IntN(2) == 0 {
				in = append(in, ma.StringCast(fmt.Sprintf("/ip6/2001:db9::%x/udp/%d/quic-v1", 1+rng.IntN(200), 1000+rng.IntN(3))))
			}
		}
		for name, rk := range map[string]network.DialRanker{"default": swarm.DefaultDialRanker, "nodelay": swarm.NoDelayDialRanker} {
			cp := append([]ma.Multiaddr(nil), in...)
			out := rk(cp)
			want := map[string]int{}
			for _, a := range in {
				want[a.String()]++
			}
			got := map[string]int{}
			for _, ad := range out {
				got[ad.Addr.String()]++
				if ad.Delay < 0 {
					r.Violation("ranker:negative-delay/"+name, id, "negative delay for "+ad.Addr.String(), map[string]any{"input": fmt.Sprint(in)})
				}
			}
			keys := []string{}
			for k := range want {
				keys = append(keys, k)
			}
			sort.Strings(keys)
			for _, k := range keys {
				if got[k] != want[k] {
					r.Violation("ranker:not-a-permutation/"+name, id, fmt.Sprintf("%s occurs %d times in the input, %d times in the ranking", k, want[k], got[k]), map[string]any{"input": fmt.Sprint(in), "output": fmt.Sprint(out)})
					break
				}
			}
			if len(out) != len(in) {
				r.Violation("ranker:not-a-permutation/"+name, id, fmt.Sprintf("%d addresses in, %d out", len(in), len(out)), map[string]any{"input": fmt.Sprint(in)})
			}
		}
		r.Eval(1)
		r.Count("ranker_inputs", 1)
	})
}
