package c18

import (
	"errors"
	"fmt"
	"runtime"
	"sync"
	"testing/synctest"
	"time"

	"github.com/benbjohnson/clock"
	ic "github.com/libp2p/go-libp2p/core/crypto"
	libp2pwebtransport "github.com/libp2p/go-libp2p/p2p/transport/webtransport"
)

// stepClock is the benbjohnson mock clock the cert manager runs on, with one change that makes every
// step deterministic: the channel of each timer the manager creates is interposed (tap). The mock
// delivers a tick into the timer's own buffered channel *synchronously inside Set*, so after Set has
// returned the harness knows by a non-blocking receive whether the manager's timer fired. Only then
// is the tick handed to the manager's goroutine (unbuffered send = the goroutine has taken it), and
// the step is complete when the served config pointer has changed (rollConfig always installs a new
// *tls.Config, under the manager's lock, before it re-arms the timer and unlocks). Consequences:
//   - the manager never observes the clock moving while it handles a tick (Now() and Timer.Reset see
//     the same instant), which the bare mock does not guarantee;
//   - nothing is sampled before every due tick has been fully handled; there is no "maybe the
//     goroutine has not run yet" state, hence no wall-clock in any verdict. All waits are for a runnable
//     goroutine to make progress; a real-time watchdog on them yields "inconclusive", never a violation;
//   - a timer re-armed with a non-positive duration fires in the next flush round of the same step,
//     like a real timer would (the bare mock would leave it pending until the next Add).
// driver is what a trace needs from time: start managers and move to an instant such that everything
// due by then has been handled. Two implementations: stepClock (mock clock, below) and bubbleDriver
// (the production clock.New() inside a testing/synctest bubble: virtual time, synctest.Wait is the
// exact quiescence point; real timer semantics).
type driver interface {
	newManager(key ic.PrivKey) (*mgr, error)
	advance(to time.Time, ms ...*mgr) error
}

var bubbleEpoch = time.Date(2000, 1, 2, 0, 0, 0, 0, time.UTC) // virtual time starts at 2000-01-01

type bubbleDriver struct{}

func (bubbleDriver) newManager(key ic.PrivKey) (*mgr, error) {
	v, err := libp2pwebtransport.VerifNewCertManager(key, clock.New())
	if err != nil {
		return nil, err
	}
	synctest.Wait()
	return &mgr{v: v}, nil
}

func (bubbleDriver) advance(to time.Time, _ ...*mgr) error {
	if d := to.Sub(time.Now()); d > 0 {
		time.Sleep(d)
	}
	synctest.Wait()
	return nil
}

type stepClock struct {
	*clock.Mock
	mu      sync.Mutex
	lastTap *tap
}

type tap struct {
	inner <-chan time.Time // the mock sends the tick here (buffer 1)
	out   chan time.Time   // the manager's goroutine receives here
}

func newStepClock(at time.Time) *stepClock {
	m := clock.NewMock()
	m.Set(at)
	return &stepClock{Mock: m}
}

func (c *stepClock) Timer(d time.Duration) *clock.Timer {
	t := c.Mock.Timer(d)
	tp := &tap{inner: t.C, out: make(chan time.Time)}
	t.C = tp.out
	c.mu.Lock()
	c.lastTap = tp
	c.mu.Unlock()
	return t
}

// The manager only uses Now and Timer; anything else would bypass the tap, so make it loud.
func (c *stepClock) After(time.Duration) <-chan time.Time       { panic("c18: unexpected clock.After") }
func (c *stepClock) AfterFunc(time.Duration, func()) *clock.Timer { panic("c18: unexpected clock.AfterFunc") }
func (c *stepClock) Sleep(time.Duration)                        { panic("c18: unexpected clock.Sleep") }
func (c *stepClock) Tick(time.Duration) <-chan time.Time        { panic("c18: unexpected clock.Tick") }
func (c *stepClock) Ticker(time.Duration) *clock.Ticker         { panic("c18: unexpected clock.Ticker") }

// mgr is one running cert manager together with the tap of its rollover timer.
type mgr struct {
	v     *libp2pwebtransport.VerifCertManager
	tap   *tap
	rolls int // ticks handled
}

var errStall = errors.New("stall")

const settleWatchdog = 60 * time.Second

func (c *stepClock) newManager(key ic.PrivKey) (*mgr, error) {
	c.mu.Lock()
	c.lastTap = nil
	c.mu.Unlock()
	v, err := libp2pwebtransport.VerifNewCertManager(key, c)
	if err != nil {
		return nil, err
	}
	c.mu.Lock()
	tp := c.lastTap
	c.mu.Unlock()
	if tp == nil {
		v.Close()
		return nil, fmt.Errorf("cert manager created no timer on the supplied clock")
	}
	m := &mgr{v: v, tap: tp}
	// a timer created with a non-positive duration has already fired inside Mock.Timer
	if err := c.flush(m); err != nil {
		v.Close()
		return nil, err
	}
	return m, nil
}

// pump hands a pending tick (if any) to the manager and waits until it has been handled.
func (m *mgr) pump() (bool, error) {
	select {
	case tk := <-m.tap.inner:
		before := m.v.GetConfig()
		select {
		case m.tap.out <- tk:
		case <-time.After(settleWatchdog):
			return false, fmt.Errorf("%w: manager goroutine did not take the timer tick", errStall)
		}
		deadline := time.Now().Add(settleWatchdog)
		for i := 0; m.v.GetConfig() == before; i++ {
			if i < 200 {
				runtime.Gosched()
			} else {
				time.Sleep(50 * time.Microsecond)
				if time.Now().After(deadline) {
					return false, fmt.Errorf("%w: served config unchanged after a delivered timer tick", errStall)
				}
			}
		}
		m.rolls++
		return true, nil
	default:
		return false, nil
	}
}

// flush handles ticks that are already pending at the current instant, re-running the mock at the
// same instant until no timer is due any more.
func (c *stepClock) flush(ms ...*mgr) error {
	for round := 0; ; round++ {
		progressed := false
		for _, m := range ms {
			if m == nil {
				continue
			}
			p, err := m.pump()
			if err != nil {
				return err
			}
			progressed = progressed || p
		}
		if !progressed {
			return nil
		}
		if round > 200 {
			return fmt.Errorf("%w: timer keeps firing at one instant (>200 rounds)", errStall)
		}
		c.Mock.Set(c.Mock.Now()) // fire timers re-armed with a non-positive duration
	}
}

// advance moves the clock to `to` and returns when every timer due by then has been handled.
func (c *stepClock) advance(to time.Time, ms ...*mgr) error {
	c.Mock.Set(to)
	return c.flush(ms...)
}
