package c18

import (
	"crypto/ecdsa"
	"crypto/ed25519"
	"crypto/elliptic"
	"crypto/rsa"
	"crypto/x509"
	"errors"
	"fmt"
	"math/big"
	"math/rand/v2"
	"sync"

	ic "github.com/libp2p/go-libp2p/core/crypto"
)

// Host keys are derived from the run's PRNG only (crypto/rsa and crypto/ecdsa key generation read a
// non-deterministic number of bytes from a custom reader, so primes and scalars are derived by hand).

const (
	ktEd25519 = iota
	ktSecp256k1
	ktECDSA
	ktRSA
)

var ktNames = []string{"ed25519", "secp256k1", "ecdsa", "rsa2048"}

type rngReader struct{ r *rand.Rand }

func (x rngReader) Read(p []byte) (int, error) {
	for i := range p {
		p[i] = byte(x.r.Uint32())
	}
	return len(p), nil
}

func rngBytes(r *rand.Rand, n int) []byte {
	b := make([]byte, n)
	rngReader{r}.Read(b)
	return b
}

func detPrime(r *rand.Rand, bits int) *big.Int {
	for {
		b := rngBytes(r, bits/8)
		b[0] |= 0xC0
		b[len(b)-1] |= 1
		p := new(big.Int).SetBytes(b)
		if !p.ProbablyPrime(20) {
			continue
		}
		pm1 := new(big.Int).Sub(p, big.NewInt(1))
		if new(big.Int).GCD(nil, nil, pm1, big.NewInt(65537)).Cmp(big.NewInt(1)) != 0 {
			continue
		}
		return p
	}
}

func detRSAKey(r *rand.Rand, bits int) *rsa.PrivateKey {
	for {
		p, q := detPrime(r, bits/2), detPrime(r, bits/2)
		if p.Cmp(q) == 0 {
			continue
		}
		n := new(big.Int).Mul(p, q)
		if n.BitLen() != bits {
			continue
		}
		phi := new(big.Int).Mul(new(big.Int).Sub(p, big.NewInt(1)), new(big.Int).Sub(q, big.NewInt(1)))
		d := new(big.Int).ModInverse(big.NewInt(65537), phi)
		if d == nil {
			continue
		}
		k := &rsa.PrivateKey{PublicKey: rsa.PublicKey{N: n, E: 65537}, D: d, Primes: []*big.Int{p, q}}
		k.Precompute()
		if k.Validate() != nil {
			continue
		}
		return k
	}
}

func detECDSAKey(r *rand.Rand) *ecdsa.PrivateKey {
	for {
		k, err := ecdsa.ParseRawPrivateKey(elliptic.P256(), rngBytes(r, 32))
		if err == nil {
			return k
		}
	}
}

func detEd25519Key(r *rand.Rand) ed25519.PrivateKey {
	return ed25519.NewKeyFromSeed(rngBytes(r, 32))
}

// hostKey derives one libp2p host key of the given type.
func hostKey(r *rand.Rand, kt int) (ic.PrivKey, error) {
	switch kt {
	case ktEd25519:
		return ic.UnmarshalEd25519PrivateKey(detEd25519Key(r))
	case ktSecp256k1:
		for {
			k, err := ic.UnmarshalSecp256k1PrivateKey(rngBytes(r, 32))
			if err == nil {
				return k, nil
			}
		}
	case ktECDSA:
		k, _, err := ic.ECDSAKeyPairFromKey(detECDSAKey(r))
		return k, err
	case ktRSA:
		return ic.UnmarshalRsaPrivateKey(x509.MarshalPKCS1PrivateKey(detRSAKey(r, 2048)))
	}
	return nil, fmt.Errorf("key type %d", kt)
}

// ed25519KeyWithOffset searches (deterministically) for an Ed25519 host key whose bucket offset, as
// the independent computation derives it from the public key bytes, is wantMin minutes. Used to pin
// the extreme offsets (0, one minute below the certificate validity, exactly the period, above it).
func ed25519KeyWithOffset(r *rand.Rand, wantMin int64) (ic.PrivKey, error) {
	for i := 0; i < 4_000_000; i++ {
		sk := detEd25519Key(r)
		pub := sk.Public().(ed25519.PublicKey)
		if offsetMinutes(pub) == wantMin {
			return ic.UnmarshalEd25519PrivateKey(sk)
		}
	}
	return nil, fmt.Errorf("no key with offset %d min found", wantMin)
}

// flakyKey: the host key whose Raw() fails ONCE, at the n-th call after it was armed (the cert manager
// derives every certificate from Raw(): a rollover whose derivation fails has to be made up for).
type flakyKey struct {
	ic.PrivKey
	mu    sync.Mutex
	armed bool
	left  int
	fired int
}

func (k *flakyKey) arm(n int) {
	k.mu.Lock()
	k.armed, k.left = true, n
	k.mu.Unlock()
}

func (k *flakyKey) disarm() {
	k.mu.Lock()
	k.armed = false
	k.mu.Unlock()
}

func (k *flakyKey) firedCount() int {
	k.mu.Lock()
	defer k.mu.Unlock()
	return k.fired
}

func (k *flakyKey) Raw() ([]byte, error) {
	k.mu.Lock()
	if k.armed {
		k.left--
		if k.left == 0 {
			k.armed = false
			k.fired++
			k.mu.Unlock()
			return nil, errors.New("verif: host key temporarily unavailable")
		}
	}
	k.mu.Unlock()
	return k.PrivKey.Raw()
}
