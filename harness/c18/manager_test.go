package c18

import (
	"bytes"
	"crypto/ecdsa"
	"crypto/sha256"
	"crypto/tls"
	"crypto/x509"
	"errors"
	"fmt"
	"math/rand/v2"
	"os"
	"runtime"
	"sort"
	"testing"
	"time"

	ic "github.com/libp2p/go-libp2p/core/crypto"
	libp2pwebtransport "github.com/libp2p/go-libp2p/p2p/transport/webtransport"
	ma "github.com/multiformats/go-multiaddr"
	"github.com/multiformats/go-multibase"
	"github.com/multiformats/go-multihash"

	"verif/harness/rig/run"
)

// ---- constants of the statement -------------------------------------------------------------

const (
	maxLifetime = 14 * 24 * time.Hour // "whose validity period does not exceed 14 days"
	skew        = libp2pwebtransport.VerifClockSkewAllowance
	// serving period: a certificate of at most 14 d that must have been valid for `skew` and stay
	// valid for `skew` can be served for at most 14 d - 2*skew; the implementation uses exactly that.
	period = maxLifetime - 2*skew
)

// ---- independent bucket arithmetic (integers only; mechanism of the property record:
// "init picks the bucket containing now-skew", buckets of length 14d-2*skew counted from the epoch
// plus a per-key offset of (first two public key bytes, little endian) minutes modulo 14 days) ----

func offsetMinutes(pubRaw []byte) int64 {
	return (int64(pubRaw[0]) | int64(pubRaw[1])<<8) % (14 * 24 * 60)
}

func floorDiv(a, b int64) int64 {
	q := a / b
	if a%b != 0 && (a < 0) != (b < 0) {
		q--
	}
	return q
}

type bucketing struct{ offMs, perMs, skewMs int64 }

func newBucketing(pubRaw []byte) bucketing {
	return bucketing{offMs: offsetMinutes(pubRaw) * 60_000, perMs: period.Milliseconds(), skewMs: skew.Milliseconds()}
}

// index of the bucket that contains instant x (Unix ms), and that bucket's start.
func (b bucketing) indexOf(xMs int64) int64 { return floorDiv(xMs-b.offMs, b.perMs) }
func (b bucketing) startOf(idx int64) int64 { return b.offMs + idx*b.perMs }
func (b bucketing) servedIndex(t time.Time) int64 {
	return b.indexOf(floorDiv(t.UnixNano(), 1e6) - b.skewMs)
}

// tie: t-skew is exactly a bucket start; the rollover timer is due at exactly this instant, and both
// the outgoing and the incoming certificate satisfy the statement.
func (b bucketing) tie(t time.Time) bool {
	ns := t.UnixNano()
	if ns%1e6 != 0 {
		return false
	}
	x := ns/1e6 - b.skewMs
	return x == b.startOf(b.indexOf(x))
}

// ---- observation ------------------------------------------------------------------------------

type certInfo struct {
	raw    []byte
	hash   [32]byte
	nb, na time.Time
	idx    int64 // bucket index of NotBefore under the independent arithmetic
	keyOK  bool
	leafOK bool // tls.Certificate.Leaf agrees with the bytes served
}

func inspect(conf *tls.Config, b bucketing) (*certInfo, error) {
	if conf == nil || len(conf.Certificates) == 0 || len(conf.Certificates[0].Certificate) == 0 {
		return nil, errors.New("served tls.Config has no certificate")
	}
	tc := conf.Certificates[0]
	raw := tc.Certificate[0] // the bytes crypto/tls puts on the wire first
	c, err := x509.ParseCertificate(raw)
	if err != nil {
		return nil, fmt.Errorf("served certificate does not parse: %w", err)
	}
	ci := &certInfo{raw: raw, hash: sha256.Sum256(raw), nb: c.NotBefore, na: c.NotAfter}
	ci.idx = b.indexOf(c.NotBefore.UnixMilli())
	if pk, ok := tc.PrivateKey.(*ecdsa.PrivateKey); ok {
		if pub, ok := c.PublicKey.(*ecdsa.PublicKey); ok {
			ci.keyOK = pk.PublicKey.Equal(pub)
		}
	} else {
		ci.keyOK = tc.PrivateKey != nil // other signer kinds: not compared
	}
	ci.leafOK = tc.Leaf == nil || bytes.Equal(tc.Leaf.Raw, raw)
	return ci, nil
}

// hashSet is the set of SHA-256 digests carried with multihash code sha2-256 (the only ones a dialer
// matches), plus the number of entries under other codes / undecodable.
type hashSet struct {
	d     [][32]byte
	other int
}

func (h hashSet) has(x [32]byte) bool {
	for _, d := range h.d {
		if d == x {
			return true
		}
	}
	return false
}

func (h hashSet) subsetOf(o hashSet) bool {
	for _, d := range h.d {
		if !o.has(d) {
			return false
		}
	}
	return true
}

func (h hashSet) equal(o hashSet) bool { return len(h.d) == len(o.d) && h.subsetOf(o) && o.subsetOf(h) }

func (h hashSet) String() string {
	s := "["
	for i, d := range h.d {
		if i > 0 {
			s += " "
		}
		s += fmt.Sprintf("%x", d[:6])
	}
	if h.other > 0 {
		s += fmt.Sprintf(" +%d other", h.other)
	}
	return s + "]"
}

func (h *hashSet) addMultihash(b []byte) {
	dh, err := multihash.Decode(b)
	if err != nil || dh.Code != multihash.SHA2_256 || len(dh.Digest) != 32 {
		h.other++
		return
	}
	var x [32]byte
	copy(x[:], dh.Digest)
	h.d = append(h.d, x)
}

func addrHashes(a ma.Multiaddr) hashSet {
	var h hashSet
	ma.ForEach(a, func(c ma.Component) bool {
		if c.Protocol().Code != ma.P_CERTHASH {
			return true
		}
		_, b, err := multibase.Decode(c.Value())
		if err != nil {
			h.other++
			return true
		}
		h.addMultihash(b)
		return true
	})
	return h
}

func serializedHashes(bs [][]byte) hashSet {
	var h hashSet
	for _, b := range bs {
		h.addMultihash(b)
	}
	return h
}

type sample struct {
	t     time.Time
	gen   int // manager generation (restarts)
	ci    *certInfo
	addr  hashSet // AddrComponent(): what goes into listen addresses
	early hashSet // SerializedCertHashes(): what the server confirms in the Noise early data
	addrB []byte
	tie   bool
}

func observe(m *mgr, t time.Time, b bucketing, cache map[*tls.Config]*certInfo) (*sample, error) {
	conf := m.v.GetConfig()
	ci := cache[conf]
	if ci == nil {
		var err error
		if ci, err = inspect(conf, b); err != nil {
			return nil, err
		}
		if cache != nil {
			cache[conf] = ci
		}
	}
	a := m.v.AddrComponent()
	return &sample{t: t, ci: ci, addr: addrHashes(a), early: serializedHashes(m.v.SerializedCertHashes()), addrB: a.Bytes(), tie: b.tie(t)}, nil
}

// ---- trace generation -------------------------------------------------------------------------

var boundaryNames = []string{"bucket-start", "start+skew", "end-2skew", "end-skew", "end"}
var boundaryOff = []time.Duration{0, skew, maxLifetime - 2*skew, maxLifetime - skew, maxLifetime}
var deltas = []time.Duration{0, time.Millisecond, -time.Millisecond, time.Second, -time.Second, time.Hour, -time.Hour}

type traceSpec struct {
	KeyType   string   `json:"key_type"`
	OffsetMin int64    `json:"offset_min"`
	Bucket    int64    `json:"bucket_index"`
	Boundary  string   `json:"start_boundary"`
	Delta     string   `json:"start_delta"`
	Start     string   `json:"start"`
	Rollovers int      `json:"rollovers"`
	Instants  []string `json:"instants,omitempty"` // ns offsets from start; "R": the manager is restarted at this instant (down since the previous one)
}

type step struct {
	t       time.Time
	restart bool // the running manager is closed before the clock moves; a new one is started at t
}

// buildTrace: start instant at boundary b of bucket `idx` shifted by delta; then a grid that is dense
// (±0, 1 ns, 1 ms, 1 s, 1 h) around every instant at which something changes in each of the following
// `rollovers` periods (bucket start = NotBefore of the incoming certificate, +skew = rollover,
// +2*skew = NotAfter of the outgoing certificate), plus a few random instants, with restarts.
func buildTrace(rng *rand.Rand, bk bucketing, idx int64, bnd, dl, rollovers int, fine bool) (time.Time, []step) {
	B := time.UnixMilli(bk.startOf(idx))
	t0 := B.Add(boundaryOff[bnd]).Add(deltas[dl])
	first := bk.servedIndex(t0)
	var pts []time.Time
	near := []time.Duration{0, time.Millisecond, -time.Millisecond, time.Second, -time.Second}
	if fine {
		near = append(near, time.Nanosecond, -time.Nanosecond, time.Microsecond, -time.Microsecond)
	}
	for m := first; m <= first+int64(rollovers)+1; m++ {
		Bm := time.UnixMilli(bk.startOf(m))
		for _, c := range []time.Duration{0, skew, 2 * skew} {
			for _, d := range near {
				pts = append(pts, Bm.Add(c+d))
			}
		}
		pts = append(pts, Bm.Add(-skew), Bm.Add(3*skew))
		for i := 0; i < 3; i++ {
			pts = append(pts, Bm.Add(3*skew+time.Duration(rng.Int64N(int64(period-4*skew)))).Truncate(time.Millisecond))
		}
	}
	// the trace ends just before rollover number rollovers+1 would happen
	end := time.UnixMilli(bk.startOf(first + int64(rollovers) + 1)).Add(skew - time.Millisecond)
	sort.Slice(pts, func(i, j int) bool { return pts[i].Before(pts[j]) })
	var steps []step
	last := t0
	for _, p := range pts {
		if !p.After(last) || p.After(end) {
			continue
		}
		steps = append(steps, step{t: p})
		last = p
	}
	// restarts: in half of the traces, before ~1 in 12 instants; one in three restarts comes with a down
	// time of up to two periods and happens at an arbitrary instant (not a grid instant)
	if rng.IntN(2) == 0 {
		var out []step
		for i := 0; i < len(steps); i++ {
			if rng.IntN(12) != 0 {
				out = append(out, steps[i])
				continue
			}
			at := steps[i].t
			if rng.IntN(3) == 0 {
				at = at.Add(time.Duration(rng.Int64N(int64(2 * period))))
				if rng.IntN(2) == 0 {
					at = at.Truncate(time.Millisecond)
				}
				for i+1 < len(steps) && !steps[i+1].t.After(at) {
					i++
				}
			}
			out = append(out, step{t: at, restart: true})
		}
		steps = out
	}
	return t0, steps
}

// ---- the monitor ------------------------------------------------------------------------------

type traceResult struct {
	samples, rollovers, restarts, ties, fresh, nearBoundary int
	retroNext, retroConfirm, restartUnconfirmed             int
}

type complaint struct {
	sig, msg string
	at       time.Time
}

type tracer struct {
	bk       bucketing
	key      ic.PrivKey
	clk      driver // nil: a stepClock starting at t0
	cache    map[*tls.Config]*certInfo
	samples  []*sample
	res      traceResult
	problems []complaint
	flaky    *flakyKey // host key whose Raw() fails once (virtual-time traces only)
	failAt   int
}

func (tr *tracer) complain(at time.Time, sig, format string, a ...any) {
	if len(tr.problems) < 8 {
		tr.problems = append(tr.problems, complaint{sig: sig, msg: fmt.Sprintf(format, a...), at: at})
	}
}

func ts(t time.Time) string { return t.UTC().Format("2006-01-02T15:04:05.000000000Z") }

// instant clauses, evaluated on one manager at one settled instant t.
func (tr *tracer) checkInstant(s *sample, who string) {
	t, ci := s.t, s.ci
	// "serves a certificate that has been valid for at least the clock-skew allowance"
	if ci.nb.After(t.Add(-skew)) {
		tr.complain(t, "serve:not-valid-since-skew", "%s at t=%s serves a certificate with NotBefore=%s > t-skew", who, ts(t), ts(ci.nb))
	}
	// "and stays valid for at least that long"
	if ci.na.Before(t.Add(skew)) {
		tr.complain(t, "serve:not-valid-for-skew", "%s at t=%s serves a certificate with NotAfter=%s < t+skew", who, ts(t), ts(ci.na))
	}
	// "whose validity period does not exceed 14 days"
	if ci.na.Sub(ci.nb) > maxLifetime {
		tr.complain(t, "serve:lifetime-exceeds-14d", "%s at t=%s serves a certificate valid for %s", who, ts(t), ci.na.Sub(ci.nb))
	}
	if !ci.keyOK || !ci.leafOK {
		tr.complain(t, "serve:config-inconsistent", "%s at t=%s: private key matches certificate: %v, Leaf matches served bytes: %v", who, ts(t), ci.keyOK, ci.leafOK)
	}
	// "the certificate hashes it advertises always contain the hash of the certificate being served"
	if !s.addr.has(ci.hash) {
		tr.complain(t, "advertise:addr-lacks-served", "%s at t=%s: address component %v lacks the served certificate %x", who, ts(t), s.addr, ci.hash[:6])
	}
	if !s.early.has(ci.hash) {
		tr.complain(t, "advertise:earlydata-lacks-served", "%s at t=%s: serialized hashes %v lack the served certificate %x", who, ts(t), s.early, ci.hash[:6])
	}
	// independent bucket computation: the period served at t is the bucket containing t-skew
	want := tr.bk.servedIndex(t)
	wantNB := time.UnixMilli(tr.bk.startOf(want))
	okBucket := ci.nb.Equal(wantNB)
	if !okBucket && s.tie {
		okBucket = ci.nb.Equal(time.UnixMilli(tr.bk.startOf(want - 1)))
	}
	if !okBucket {
		tr.complain(t, "bucket:served-period-differs-from-independent-computation", "%s at t=%s serves NotBefore=%s, the bucket containing t-skew starts at %s", who, ts(t), ts(ci.nb), ts(wantNB))
	}
}

// retrospective clauses over the whole trace.
func (tr *tracer) checkRetrospective() {
	type served struct {
		ci   *certInfo
		last int // index of the last sample at which it was served
	}
	var order []*served
	byHash := map[[32]byte]*served{}
	for i, s := range tr.samples {
		sv := byHash[s.ci.hash]
		if sv == nil {
			sv = &served{ci: s.ci}
			byHash[s.ci.hash] = sv
			order = append(order, sv)
		}
		sv.last = i
	}
	// "…and of the one served next, so an address learned at any time keeps verifying through the
	// current and the following certificate period": every certificate ever served must be in what was
	// advertised at every earlier sampled instant from the start of the previous period on.
	for _, sv := range order {
		for i := 0; i <= sv.last; i++ {
			s := tr.samples[i]
			if s.ci.idx != sv.ci.idx && s.ci.idx != sv.ci.idx-1 {
				continue
			}
			if s.ci.hash == sv.ci.hash {
				continue // instant clause
			}
			kind := "next"
			if s.ci.idx == sv.ci.idx {
				kind = "same-period" // two different certificates for one period: the address learned from one does not verify the other
			}
			tr.res.retroNext++
			if !s.addr.has(sv.ci.hash) {
				tr.complain(s.t, "advertise:addr-lacks-"+kind, "address component %v learned at t=%s (period %d, manager #%d) lacks certificate %x (period %d) served at t=%s",
					s.addr, ts(s.t), s.ci.idx, s.gen, sv.ci.hash[:6], sv.ci.idx, ts(tr.samples[sv.last].t))
			}
			if !s.early.has(sv.ci.hash) {
				tr.complain(s.t, "advertise:earlydata-lacks-"+kind, "serialized hashes %v at t=%s (period %d, manager #%d) lack certificate %x (period %d) served at t=%s",
					s.early, ts(s.t), s.ci.idx, s.gen, sv.ci.hash[:6], sv.ci.idx, ts(tr.samples[sv.last].t))
			}
		}
	}
	// A dialer completes only if the server confirms EVERY hash of the dialed address, so "keeps
	// verifying through the following period" needs the server at t_j to still confirm the whole address
	// handed out at t_i. Raised for one uninterrupted manager; across a restart it is only counted
	// (see the report: the restarted manager does not know the previous period's certificate).
	type version struct {
		s *sample
	}
	var versions []version
	for _, s := range tr.samples {
		if n := len(versions); n == 0 || !versions[n-1].s.addr.equal(s.addr) || versions[n-1].s.gen != s.gen {
			versions = append(versions, version{s})
		}
		for _, v := range versions {
			if s.ci.idx > v.s.ci.idx+1 || v.s == s {
				continue
			}
			tr.res.retroConfirm++
			if v.s.addr.subsetOf(s.early) {
				continue
			}
			if v.s.gen == s.gen {
				tr.complain(s.t, "advertise:learned-address-not-confirmed-later", "address %v handed out at t=%s (period %d) is not fully confirmed by the serialized hashes %v at t=%s (period %d) of the same manager",
					v.s.addr, ts(v.s.t), v.s.ci.idx, s.early, ts(s.t), s.ci.idx)
			} else {
				tr.res.restartUnconfirmed++
			}
		}
	}
}

func (tr *tracer) run(t0 time.Time, steps []step) error {
	if tr.clk == nil {
		tr.clk = newStepClock(t0)
	}
	tr.cache = map[*tls.Config]*certInfo{}
	m, err := tr.clk.newManager(tr.key)
	if err != nil {
		return err
	}
	if tr.flaky != nil {
		tr.flaky.arm(tr.failAt)
	}
	gen := 0
	defer func() {
		if m != nil {
			m.v.Close()
		}
	}()
	sampleAt := func(t time.Time, fresh bool) error {
		s, err := observe(m, t, tr.bk, tr.cache)
		if err != nil {
			return err
		}
		s.gen = gen
		if n := len(tr.samples); n > 0 && tr.samples[n-1].ci.hash != s.ci.hash && tr.samples[n-1].gen == gen {
			tr.res.rollovers++
		}
		tr.samples = append(tr.samples, s)
		tr.res.samples++
		if s.tie {
			tr.res.ties++
		}
		tr.checkInstant(s, fmt.Sprintf("manager #%d", gen))
		if !fresh {
			return nil
		}
		// "certificates are a deterministic function of the host key and the time bucket": a manager
		// started fresh at t must serve what the long-running one serves at t.
		fk := tr.key
		if tr.flaky != nil {
			fk = tr.flaky.PrivKey // the comparison manager gets the plain key
		}
		f, err := tr.clk.newManager(fk)
		if err != nil {
			return err
		}
		fs, err := observe(f, t, tr.bk, nil)
		f.v.Close()
		if err != nil {
			return err
		}
		tr.res.fresh++
		tr.checkInstant(fs, "fresh manager")
		if !bytes.Equal(fs.ci.raw, s.ci.raw) {
			// at a tie both neighbours are legitimate
			if !(s.tie && (fs.ci.idx-s.ci.idx == 1 || s.ci.idx-fs.ci.idx == 1)) {
				tr.complain(t, "determinism:fresh-manager-serves-different-certificate", "at t=%s manager #%d serves %x (NotBefore %s), a manager started now serves %x (NotBefore %s)",
					ts(t), gen, s.ci.hash[:6], ts(s.ci.nb), fs.ci.hash[:6], ts(fs.ci.nb))
			}
		} else if !bytes.Equal(fs.addrB, s.addrB) {
			tr.complain(t, "determinism:fresh-manager-advertises-different-address", "at t=%s manager #%d advertises %v, a manager started now advertises %v", ts(t), gen, s.addr, fs.addr)
		}
		return nil
	}
	if err := sampleAt(t0, false); err != nil {
		return err
	}
	for _, st := range steps {
		if st.restart {
			m.v.Close()
			m = nil
			if err := tr.clk.advance(st.t); err != nil {
				return err
			}
			if tr.flaky != nil {
				tr.flaky.disarm()
			}
			if m, err = tr.clk.newManager(tr.key); err != nil {
				return err
			}
			if tr.flaky != nil && tr.flaky.firedCount() == 0 {
				tr.flaky.arm(1)
			}
			gen++
			tr.res.restarts++
			if err := sampleAt(st.t, false); err != nil {
				return err
			}
			continue
		}
		if err := tr.clk.advance(st.t, m); err != nil {
			return err
		}
		if err := sampleAt(st.t, true); err != nil {
			return err
		}
	}
	tr.checkRetrospective()
	return nil
}

// ---- case list --------------------------------------------------------------------------------

type hostKeySpec struct {
	kt  int
	key ic.PrivKey
	bk  bucketing
	off int64
}

func buildKeys(r *run.R, n int) ([]hostKeySpec, error) {
	keys := make([]hostKeySpec, n)
	errs := make([]error, n)
	// pinned offsets first: 0, 14d-1min (max), exactly the period, one minute either side of it
	special := []int64{0, 14*24*60 - 1, int64(period / time.Minute), int64(period/time.Minute) + 1, int64(period/time.Minute) - 1, 1}
	run.Parallel(n, 0, func(i int) {
		rng := r.Rand(1, uint64(i))
		var k ic.PrivKey
		var err error
		kt := ktEd25519
		switch {
		case i < len(special):
			k, err = ed25519KeyWithOffset(rng, special[i])
		default:
			// RSA and ECDSA public keys start with a fixed DER header (one offset each): few of them
			switch x := i % 20; {
			case x == 7:
				kt = ktRSA
			case x == 13:
				kt = ktECDSA
			case x%2 == 1:
				kt = ktSecp256k1
			}
			k, err = hostKey(rng, kt)
		}
		if err != nil {
			errs[i] = err
			return
		}
		pub, err := k.GetPublic().Raw()
		if err != nil {
			errs[i] = err
			return
		}
		keys[i] = hostKeySpec{kt: kt, key: k, bk: newBucketing(pub), off: offsetMinutes(pub)}
	})
	for _, e := range errs {
		if e != nil {
			return nil, e
		}
	}
	return keys, nil
}

func managerCases(r *run.R) {
	nKeys := r.Pick(200, 2000)
	tracesPerKey := r.Pick(12, 16)
	if os.Getenv("VERIF_RACE") == "1" { // race pass: getters spin against the rollover goroutine
		nKeys, tracesPerKey = 48, 4
	}
	keys, err := buildKeys(r, nKeys)
	if err != nil {
		r.Inconclusive("keys", "host key derivation failed: "+err.Error())
		return
	}
	for _, k := range keys {
		r.Count("host_keys_"+ktNames[k.kt], 1)
		switch k.off {
		case 0:
			r.Count("host_keys_offset_zero", 1)
		case 14*24*60 - 1:
			r.Count("host_keys_offset_max", 1)
		}
		if k.off >= int64(period/time.Minute) {
			r.Count("host_keys_offset_beyond_period", 1)
		}
	}
	// bucket indices: from 1971 to ~2190 (a period is ~13.9 days)
	const minIdx, maxIdx = 30, 5800
	workers := 4 * runtime.GOMAXPROCS(0)
	run.Parallel(nKeys*tracesPerKey, workers, func(c int) {
		ki, ti := c/tracesPerKey, c%tracesPerKey
		caseID := fmt.Sprintf("mgr/key%d/trace%d", ki, ti)
		if !r.Want(caseID) || r.TooMany() {
			return
		}
		k := keys[ki]
		rng := r.Rand(2, uint64(ki), uint64(ti))
		idx := minIdx + rng.Int64N(maxIdx-minIdx)
		// start category: every (boundary, delta) pair is visited round-robin over the cases
		cat := (c*7 + ki) % (len(boundaryOff) * len(deltas))
		bnd, dl := cat/len(deltas), cat%len(deltas)
		rollovers := rng.IntN(7)
		t0, steps := buildTrace(rng, k.bk, idx, bnd, dl, rollovers, !r.Quick() || ti == 0)
		tr := &tracer{bk: k.bk, key: k.key}
		var err error
		// one trace in eight runs on the production clock (clock.New()) in virtual time instead of the mock
		virtual := ti%8 == 5 && t0.After(bubbleEpoch)
		if virtual && ki%2 == 0 && rollovers > 0 {
			// ... half of them with a host key whose Raw() fails once, at one of the rollovers' derivations
			tr.flaky = &flakyKey{PrivKey: k.key}
			tr.key, tr.failAt = tr.flaky, 1+rng.IntN(rollovers)
		}
		if virtual {
			res := run.Bubble(r.T, func(*testing.T) {
				bd := bubbleDriver{}
				bd.advance(t0)
				tr.clk = bd
				err = tr.run(t0, steps)
			})
			if !res.OK() {
				if res.Panic != nil {
					r.Violation("manager:panic", caseID, fmt.Sprint("panic while driving the cert manager in virtual time: ", res.Panic), map[string]any{"stack": res.Dump})
				} else {
					r.Inconclusive(caseID, "virtual-time bubble deadlocked: "+res.Dump)
				}
				return
			}
			r.Count("mgr_traces_virtual_time_real_clock", 1)
		} else {
			err = tr.run(t0, steps)
			r.Count("mgr_traces_mock_clock", 1)
		}
		spec := traceSpec{KeyType: ktNames[k.kt], OffsetMin: k.off, Bucket: idx, Boundary: boundaryNames[bnd], Delta: deltas[dl].String(),
			Start: ts(t0), Rollovers: rollovers}
		if err != nil {
			if errors.Is(err, errStall) {
				r.Inconclusive(caseID, err.Error())
			} else {
				r.Violation("manager:error", caseID, err.Error(), spec)
			}
			return
		}
		r.Eval(1)
		res := tr.res
		r.Count("mgr_samples", res.samples)
		r.Count("mgr_rollovers_observed", res.rollovers)
		r.Count("mgr_restarts", res.restarts)
		r.Count("mgr_tie_instants", res.ties)
		r.Count("mgr_fresh_managers_compared", res.fresh)
		r.Count("mgr_retro_next_checks", res.retroNext)
		r.Count("mgr_retro_confirm_checks", res.retroConfirm)
		r.Count("mgr_restart_prev_address_unconfirmed", res.restartUnconfirmed)
		if tr.flaky != nil {
			r.Count("mgr_traces_with_a_flaky_host_key", 1)
			r.Count("mgr_certificate_derivations_failed_once", tr.flaky.firedCount())
		}
		r.Count("mgr_start_"+boundaryNames[bnd], 1)
		r.Count("mgr_traces_rollovers_"+fmt.Sprint(rollovers), 1)
		if res.rollovers > 0 || res.restarts > 0 {
			r.Nontrivial(caseID)
		}
		if len(tr.problems) > 0 {
			for _, st := range steps {
				mark := ""
				if st.restart {
					mark = "R"
				}
				spec.Instants = append(spec.Instants, fmt.Sprintf("%s+%dns", mark, st.t.Sub(t0).Nanoseconds()))
			}
			seen := map[string]bool{}
			for _, p := range tr.problems {
				if seen[p.sig] {
					continue
				}
				seen[p.sig] = true
				r.Violation(p.sig, caseID, p.msg, map[string]any{"trace": spec, "all_complaints": tr.problems})
			}
		} else if r.SampleN() < 2 && res.rollovers >= 2 {
			r.Sample(map[string]any{"case": caseID, "trace": spec, "samples": res.samples, "rollovers_observed": res.rollovers, "restarts": res.restarts})
		}
	})
}
