package c18

import (
	"crypto"
	"crypto/ecdsa"
	"crypto/elliptic"
	"crypto/sha256"
	"crypto/sha512"
	"crypto/tls"
	"crypto/x509"
	"crypto/x509/pkix"
	"fmt"
	"math/big"
	"math/rand/v2"
	"net"
	"strings"
	"time"

	libp2pwebtransport "github.com/libp2p/go-libp2p/p2p/transport/webtransport"
	ma "github.com/multiformats/go-multiaddr"
	"github.com/multiformats/go-multibase"
	"github.com/multiformats/go-multihash"

	"verif/harness/rig/run"
)

// Verifier clause: "A dialer accepts a server certificate only if its SHA-256 equals one of the hashes
// in the dialed address and it meets the validity rules (not RSA, at most 14 days, currently valid)".
// "Its" = the certificate the server actually serves and proves possession of: in crypto/tls that is
// rawCerts[0] (the handshake signature is verified against certificates[0]; further entries are
// merely transported). Every generated certificate carries ground-truth labels from its construction.

type certKind struct {
	name   string
	rsaKey bool // subject public key is RSA
	rsaSig bool // signed with an RSA algorithm (by itself or by an RSA issuer)
}

type keyPool struct {
	ecdsa, ecdsa2, p384 *ecdsa.PrivateKey
	ed                  crypto.Signer
	rsa, rsa2           crypto.Signer
}

func newKeyPool(r *run.R) *keyPool {
	p := &keyPool{}
	run.Parallel(6, 0, func(i int) {
		rng := r.Rand(3, uint64(i))
		switch i {
		case 0:
			p.rsa = detRSAKey(rng, 2048)
		case 1:
			p.rsa2 = detRSAKey(rng, 2048)
		case 2:
			p.ecdsa = detECDSAKey(rng)
		case 3:
			p.ecdsa2 = detECDSAKey(rng)
		case 4:
			for p.p384 == nil {
				p.p384, _ = ecdsa.ParseRawPrivateKey(elliptic.P384(), rngBytes(rng, 48))
			}
		case 5:
			p.ed = detEd25519Key(rng)
		}
	})
	return p
}

var certKinds = []certKind{
	{"ecdsa-p256-self", false, false},
	{"ecdsa-p384-self", false, false},
	{"ed25519-self", false, false},
	{"ecdsa-key-ecdsa-issuer", false, false},
	{"rsa-pkcs1v15-self", true, true},
	{"rsa-pss-self", true, true},
	{"rsa-key-ecdsa-issuer", true, false},
	{"rsa-key-ed25519-issuer", true, false},
	{"ecdsa-key-rsa-issuer", false, true}, // only the issuer's signature is RSA: either verdict is allowed
}

type genCert struct {
	kind           certKind
	raw            []byte
	key            crypto.Signer
	nb, na         time.Time
	window         string
	lifetimeOK     bool
	currentlyValid bool
	expired        bool
	parses         bool
}

func (g *genCert) describe() string {
	return fmt.Sprintf("%s/%s", g.kind.name, g.window)
}

// rule the certificate breaks ("" = meets all validity rules of the statement)
func (g *genCert) brokenRule() string {
	switch {
	case !g.parses:
		return "unparsable"
	case g.kind.rsaKey:
		return "rsa:" + g.kind.name
	case !g.lifetimeOK:
		return "lifetime-over-14d"
	case !g.currentlyValid && g.expired:
		return "expired"
	case !g.currentlyValid:
		return "not-yet-valid"
	}
	return ""
}

type window struct {
	name         string
	nbOff, naOff time.Duration // relative to now
}

// Every edge is at least 10 minutes away from the real now, so labels cannot depend on run timing.
var windows = []window{
	{"valid-2h", -time.Hour, time.Hour},
	{"valid-20min", -10 * time.Minute, 10 * time.Minute},
	{"valid-14d-minus-1s", -7 * 24 * time.Hour, 7*24*time.Hour - time.Second},
	{"valid-14d", -7 * 24 * time.Hour, 7 * 24 * time.Hour},
	{"valid-14d-plus-1s", -7 * 24 * time.Hour, 7*24*time.Hour + time.Second},
	{"valid-15d", -7 * 24 * time.Hour, 8 * 24 * time.Hour},
	{"expired", -2 * 24 * time.Hour, -10 * time.Minute},
	{"expired-14d", -14*24*time.Hour - 10*time.Minute, -10 * time.Minute},
	{"not-yet-valid", 10 * time.Minute, 2 * 24 * time.Hour},
	{"not-yet-valid-14d", 10 * time.Minute, 14*24*time.Hour + 10*time.Minute},
}

func (p *keyPool) make(rng *rand.Rand, k certKind, w window, now time.Time) (*genCert, error) {
	nb, na := now.Add(w.nbOff).Truncate(time.Second), now.Add(w.naOff).Truncate(time.Second)
	tmpl := func() *x509.Certificate {
		return &x509.Certificate{
			SerialNumber:          new(big.Int).SetUint64(rng.Uint64()>>1 | 1),
			NotBefore:             nb,
			NotAfter:              na,
			IsCA:                  true,
			BasicConstraintsValid: true,
			KeyUsage:              x509.KeyUsageDigitalSignature | x509.KeyUsageCertSign,
			ExtKeyUsage:           []x509.ExtKeyUsage{x509.ExtKeyUsageClientAuth, x509.ExtKeyUsageServerAuth},
		}
	}
	leaf := tmpl()
	var subject, issuerKey crypto.Signer
	issuer := leaf
	switch k.name {
	case "ecdsa-p256-self":
		subject, issuerKey = p.ecdsa, p.ecdsa
	case "ecdsa-p384-self":
		subject, issuerKey = p.p384, p.p384
	case "ed25519-self":
		subject, issuerKey = p.ed, p.ed
	case "rsa-pkcs1v15-self":
		subject, issuerKey = p.rsa, p.rsa
		leaf.SignatureAlgorithm = x509.SHA256WithRSA
	case "rsa-pss-self":
		subject, issuerKey = p.rsa, p.rsa
		leaf.SignatureAlgorithm = x509.SHA256WithRSAPSS
	case "ecdsa-key-ecdsa-issuer":
		subject, issuerKey = p.ecdsa, p.ecdsa2
	case "rsa-key-ecdsa-issuer":
		subject, issuerKey = p.rsa, p.ecdsa2
	case "rsa-key-ed25519-issuer":
		subject, issuerKey = p.rsa, p.ed
	case "ecdsa-key-rsa-issuer":
		subject, issuerKey = p.ecdsa, p.rsa2
		leaf.SignatureAlgorithm = x509.SHA256WithRSA
	default:
		return nil, fmt.Errorf("kind %s", k.name)
	}
	if strings.Contains(k.name, "-issuer") {
		issuer = tmpl()
		issuer.Subject = pkix.Name{CommonName: "issuer"}
		issuer.NotBefore, issuer.NotAfter = now.Add(-24*time.Hour), now.Add(24*time.Hour)
		leaf.IsCA = false
		leaf.KeyUsage = x509.KeyUsageDigitalSignature
	}
	der, err := x509.CreateCertificate(rngReader{rng}, leaf, issuer, subject.Public(), issuerKey)
	if err != nil {
		return nil, fmt.Errorf("%s/%s: %w", k.name, w.name, err)
	}
	g := &genCert{kind: k, raw: der, key: subject, nb: nb, na: na, window: w.name, parses: true}
	g.lifetimeOK = na.Sub(nb) <= maxLifetime // "at most 14 days"
	g.currentlyValid = !now.Before(nb) && !now.After(na)
	g.expired = now.After(na)
	// the labels must not be able to flip while the run lasts
	for _, edge := range []time.Time{nb, na} {
		if d := now.Sub(edge); d > -5*time.Minute && d < 5*time.Minute {
			return nil, fmt.Errorf("window %s has an edge within 5 minutes of now", w.name)
		}
	}
	return g, nil
}

func mh(code uint64, digest []byte) multihash.DecodedMultihash {
	return multihash.DecodedMultihash{Code: code, Name: multihash.Codes[code], Length: len(digest), Digest: digest}
}

type hashList struct {
	name string
	// pinned: does the list contain SHA-256(cert) under the sha2-256 code
	build func(cert []byte, other []byte) []multihash.DecodedMultihash
}

func sum256(b []byte) []byte { h := sha256.Sum256(b); return h[:] }
func sum512(b []byte) []byte { h := sha512.Sum512(b); return h[:] }

var hashLists = []hashList{
	{"exact", func(c, o []byte) []multihash.DecodedMultihash { return []multihash.DecodedMultihash{mh(multihash.SHA2_256, sum256(c))} }},
	{"exact+bogus", func(c, o []byte) []multihash.DecodedMultihash {
		return []multihash.DecodedMultihash{mh(multihash.SHA2_256, sum256(c)), mh(multihash.SHA2_256, sum256(o))}
	}},
	{"bogus+exact", func(c, o []byte) []multihash.DecodedMultihash {
		return []multihash.DecodedMultihash{mh(multihash.SHA2_256, sum256(o)), mh(multihash.SHA2_256, sum256(c))}
	}},
	{"absent", func(c, o []byte) []multihash.DecodedMultihash { return []multihash.DecodedMultihash{mh(multihash.SHA2_256, sum256(o))} }},
	{"absent-two", func(c, o []byte) []multihash.DecodedMultihash {
		return []multihash.DecodedMultihash{mh(multihash.SHA2_256, sum256(o)), mh(multihash.SHA2_256, sum256(append([]byte{1}, o...)))}
	}},
	{"nil-list", func(c, o []byte) []multihash.DecodedMultihash { return nil }},
	{"empty-list", func(c, o []byte) []multihash.DecodedMultihash { return []multihash.DecodedMultihash{} }},
	{"digest-under-sha2-512-code", func(c, o []byte) []multihash.DecodedMultihash { return []multihash.DecodedMultihash{mh(multihash.SHA2_512, sum256(c))} }},
	{"digest-under-identity-code", func(c, o []byte) []multihash.DecodedMultihash { return []multihash.DecodedMultihash{mh(multihash.IDENTITY, sum256(c))} }},
	{"digest-under-sha3-256-code", func(c, o []byte) []multihash.DecodedMultihash { return []multihash.DecodedMultihash{mh(multihash.SHA3_256, sum256(c))} }},
	{"digest-under-dbl-sha2-256-code", func(c, o []byte) []multihash.DecodedMultihash {
		return []multihash.DecodedMultihash{mh(multihash.DBL_SHA2_256, sum256(c)), mh(multihash.SHA2_256, sum256(o))}
	}},
	{"real-sha2-512", func(c, o []byte) []multihash.DecodedMultihash { return []multihash.DecodedMultihash{mh(multihash.SHA2_512, sum512(c))} }},
	{"truncated-digest", func(c, o []byte) []multihash.DecodedMultihash { return []multihash.DecodedMultihash{mh(multihash.SHA2_256, sum256(c)[:16])} }},
	{"zero-digest", func(c, o []byte) []multihash.DecodedMultihash { return []multihash.DecodedMultihash{mh(multihash.SHA2_256, make([]byte, 32))} }},
}

// pinned reports, from the statement alone, whether SHA-256(cert) equals one of the hashes.
func pinned(cert []byte, list []multihash.DecodedMultihash) bool {
	want := sha256.Sum256(cert)
	for _, h := range list {
		if h.Code == multihash.SHA2_256 && len(h.Digest) == 32 && [32]byte(h.Digest) == want {
			return true
		}
	}
	return false
}

type verdict struct {
	accepted bool
	errText  string
}

func callVerifier(chain [][]byte, list []multihash.DecodedMultihash) (v verdict) {
	defer func() {
		if p := recover(); p != nil {
			v = verdict{false, fmt.Sprint("panic: ", p)}
		}
	}()
	err := libp2pwebtransport.VerifVerifyRawCerts(chain, list)
	if err != nil {
		return verdict{false, err.Error()}
	}
	return verdict{true, ""}
}

func listString(l []multihash.DecodedMultihash) string {
	var sb strings.Builder
	sb.WriteString("[")
	for i, h := range l {
		if i > 0 {
			sb.WriteString(" ")
		}
		fmt.Fprintf(&sb, "%s:%x", multihash.Codes[h.Code], h.Digest[:min(6, len(h.Digest))])
	}
	return sb.String() + "]"
}

func verifierCases(r *run.R) {
	pool := newKeyPool(r)
	now := time.Now()
	rng := r.Rand(4)
	other := []byte("some other certificate")
	report := func(sig, caseID, msg string, chain []*genCert, list []multihash.DecodedMultihash, v verdict) {
		var cs []map[string]any
		for i, g := range chain {
			cs = append(cs, map[string]any{"position": i, "kind": g.kind.name, "window": g.window, "not_before": ts(g.nb), "not_after": ts(g.na),
				"sha256": fmt.Sprintf("%x", sum256(g.raw)), "breaks_rule": g.brokenRule(), "der": g.raw})
		}
		if !sigs.first(r, sig) {
			return
		}
		r.Violation(sig, caseID, msg, map[string]any{"chain": cs, "hash_list": listString(list), "verifier_error": v.errText, "real_now": ts(now)})
	}

	// -- single certificates: every kind x window x hash list ------------------------------------
	certs := map[string]*genCert{}
	for _, k := range certKinds {
		for _, w := range windows {
			g, err := pool.make(rng, k, w, now)
			if err != nil {
				r.Inconclusive("verify/gen", err.Error())
				return
			}
			certs[g.describe()] = g
		}
	}
	good := certs["ecdsa-p256-self/valid-2h"]
	for _, k := range certKinds {
		for _, w := range windows {
			g := certs[k.name+"/"+w.name]
			for _, hl := range hashLists {
				caseID := fmt.Sprintf("verify/single/%s/%s/%s", k.name, w.name, hl.name)
				if !r.Want(caseID) || labelsStale(r, now) {
					continue
				}
				list := hl.build(g.raw, other)
				v := callVerifier([][]byte{g.raw}, list)
				r.Eval(1)
				isPinned := pinned(g.raw, list)
				rule := g.brokenRule()
				allowed := isPinned && rule == ""
				switch {
				case v.accepted && !isPinned:
					r.Count("verify_accepted_forbidden", 1)
					report("verify:accepted-unpinned:"+hl.name, caseID, fmt.Sprintf("verifier accepted %s although its SHA-256 is not in the hash list (%s)", g.describe(), hl.name), []*genCert{g}, list, v)
				case v.accepted && !allowed:
					r.Count("verify_accepted_forbidden", 1)
					report("verify:accepted-invalid:"+rule, caseID, fmt.Sprintf("verifier accepted pinned certificate %s that breaks rule %q", g.describe(), rule), []*genCert{g}, list, v)
				case v.accepted:
					r.Count("verify_accepted_allowed", 1)
					r.Nontrivial(caseID)
				case allowed && !k.rsaSig:
					// not demanded by "only if", but a verifier that refuses what the statement allows would
					// make the other counters vacuous: measured, and required to be the exception
					r.Count("verify_rejected_although_allowed", 1)
				default:
					r.Count("verify_rejected", 1)
					if isPinned && rule == "" {
						r.Count("verify_rejected_rsa_signature_only", 1)
					} else if isPinned {
						r.Count("verify_rejected_pinned_rule_"+strings.SplitN(rule, ":", 2)[0], 1)
						r.Nontrivial(caseID)
					} else {
						r.Count("verify_rejected_unpinned_"+hl.name, 1)
					}
				}
			}
		}
	}

	// -- degenerate chains -------------------------------------------------------------------------
	for i, chain := range [][][]byte{nil, {}} {
		for _, hl := range hashLists {
			caseID := fmt.Sprintf("verify/empty-chain%d/%s", i, hl.name)
			if !r.Want(caseID) {
				continue
			}
			list := hl.build(good.raw, other)
			v := callVerifier(chain, list)
			r.Eval(1)
			if v.accepted {
				report("verify:accepted-empty-chain", caseID, "verifier accepted an empty certificate chain", nil, list, v)
			} else {
				r.Count("verify_rejected_empty_chain", 1)
			}
		}
	}
	for i, junk := range [][]byte{[]byte("foobar"), good.raw[:len(good.raw)-1], append(append([]byte{}, good.raw...), 0), {}} {
		caseID := fmt.Sprintf("verify/garbage%d", i)
		if !r.Want(caseID) {
			continue
		}
		list := []multihash.DecodedMultihash{mh(multihash.SHA2_256, sum256(junk))}
		v := callVerifier([][]byte{junk}, list)
		r.Eval(1)
		if v.accepted {
			g := &genCert{kind: certKind{name: "garbage"}, raw: junk}
			report("verify:accepted-invalid:unparsable", caseID, "verifier accepted pinned bytes that are not a certificate", []*genCert{g}, list, v)
		} else {
			r.Count("verify_rejected_garbage", 1)
		}
	}

	// -- chains of two: the served certificate is the FIRST entry -----------------------------------
	// [bad, good] with the hash list pinning `good`: the server proves possession of bad's key only.
	bads := []struct {
		name string
		g    *genCert
		pin  bool // is the bad certificate's own hash in the list as well
	}{
		{"unpinned-otherwise-good", certs["ecdsa-key-ecdsa-issuer/valid-2h"], false},
		{"unpinned-rsa", certs["rsa-pss-self/valid-2h"], false},
		{"unpinned-long-lived", certs["ecdsa-p256-self/valid-15d"], false},
		{"unpinned-expired", certs["ecdsa-p256-self/expired"], false},
		{"pinned-rsa", certs["rsa-pkcs1v15-self/valid-2h"], true},
		{"pinned-rsa-ecdsa-issuer", certs["rsa-key-ecdsa-issuer/valid-2h"], true},
		{"pinned-long-lived", certs["ecdsa-p256-self/valid-14d-plus-1s"], true},
		{"pinned-expired", certs["ed25519-self/expired"], true},
		{"pinned-not-yet-valid", certs["ecdsa-p256-self/not-yet-valid"], true},
	}
	type forbiddenChain struct {
		caseID, variant, sig, msg string
		chain                     []*genCert
		list                      []multihash.DecodedMultihash
		v                         verdict
	}
	var accepted []forbiddenChain
	for _, b := range bads {
		for _, order := range []string{"bad-first", "good-first"} {
			caseID := fmt.Sprintf("verify/chain2/%s/%s", b.name, order)
			if !r.Want(caseID) {
				continue
			}
			list := []multihash.DecodedMultihash{mh(multihash.SHA2_256, sum256(good.raw))}
			if b.pin {
				list = append(list, mh(multihash.SHA2_256, sum256(b.g.raw)))
			}
			chain := []*genCert{b.g, good}
			if order == "good-first" {
				chain = []*genCert{good, b.g}
			}
			raws := [][]byte{chain[0].raw, chain[1].raw}
			v := callVerifier(raws, list)
			r.Eval(1)
			served := chain[0]
			allowed := pinned(served.raw, list) && served.brokenRule() == ""
			switch {
			case v.accepted && !allowed:
				r.Count("verify_accepted_forbidden", 1)
				lastOK := pinned(chain[1].raw, list) && chain[1].brokenRule() == ""
				sig := "verify:accepted-invalid-chain"
				if !pinned(served.raw, list) {
					sig = "verify:accepted-unpinned-chain"
				}
				if lastOK && !callVerifier(raws[:1], list).accepted {
					// entry 0 alone is refused, followed by a good pinned entry it is accepted: the verifier
					// judges the last entry instead of the served one
					sig = "verify:chain-leaf-is-last-not-first"
				}
				tlsOK, tlsErr := tlsHandshakeAccepts(raws, served.key, list)
				why := "its SHA-256 is not in the hash list"
				if pinned(served.raw, list) {
					why = "it breaks rule " + served.brokenRule()
				}
				accepted = append(accepted, forbiddenChain{caseID, b.name, sig, fmt.Sprintf("verifier accepted the chain [%s, %s]: the served certificate is entry 0, %s; entry 1 is a pinned valid certificate. A crypto/tls handshake with a server that holds only entry 0's key, client configured like transport.dial with this verifier, completed: %v %s",
					chain[0].describe(), chain[1].describe(), why, tlsOK, tlsErr), chain, list, v})
			case v.accepted:
				r.Count("verify_chain2_accepted_allowed", 1)
				r.Nontrivial(caseID)
			default:
				r.Count("verify_chain2_rejected", 1)
				if !allowed {
					r.Nontrivial(caseID)
				}
			}
		}
	}
	// one violation per signature (shortest variant first), the other accepted variants named in it
	reported := map[string]bool{}
	for _, a := range accepted {
		if reported[a.sig] {
			continue
		}
		reported[a.sig] = true
		var also []string
		for _, o := range accepted {
			if o.sig == a.sig && o.caseID != a.caseID {
				also = append(also, o.variant)
			}
		}
		msg := a.msg
		if len(also) > 0 {
			msg += fmt.Sprintf(" Also accepted with entry 0 = %v.", also)
		}
		report(a.sig, a.caseID, msg, a.chain, a.list, a.v)
	}

	// -- random crossings (thorough: many more) -----------------------------------------------------
	n := r.Pick(300, 6000)
	for i := 0; i < n && !r.TooMany(); i++ {
		caseID := fmt.Sprintf("verify/random/%d", i)
		if !r.Want(caseID) || labelsStale(r, now) {
			continue
		}
		rg := r.Rand(5, uint64(i))
		k := certKinds[rg.IntN(len(certKinds))]
		// random window, edges at least 10 minutes from now, lengths straddling 14 days
		var w window
		switch rg.IntN(4) {
		case 0: // valid now
			w = window{"random-valid", -10*time.Minute - time.Duration(rg.Int64N(int64(13*24*time.Hour))), 10*time.Minute + time.Duration(rg.Int64N(int64(24*time.Hour)))}
		case 1: // around the lifetime limit, valid now
			nb := -10*time.Minute - time.Duration(rg.Int64N(int64(13*24*time.Hour)))
			w = window{"random-limit", nb, nb + maxLifetime + time.Duration(rg.IntN(5)-2)*time.Second}
		case 2:
			na := -10*time.Minute - time.Duration(rg.Int64N(int64(24*time.Hour)))
			w = window{"expired", na - time.Duration(rg.Int64N(int64(15*24*time.Hour))) - time.Second, na}
		default:
			nb := 10*time.Minute + time.Duration(rg.Int64N(int64(24*time.Hour)))
			w = window{"not-yet-valid", nb, nb + time.Second + time.Duration(rg.Int64N(int64(15*24*time.Hour)))}
		}
		g, err := pool.make(rg, k, w, now)
		if err != nil {
			r.Inconclusive(caseID, err.Error())
			continue
		}
		hl := hashLists[rg.IntN(len(hashLists))]
		list := hl.build(g.raw, rngBytes(rg, 40))
		v := callVerifier([][]byte{g.raw}, list)
		r.Eval(1)
		isPinned, rule := pinned(g.raw, list), g.brokenRule()
		switch {
		case v.accepted && !isPinned:
			report("verify:accepted-unpinned:"+hl.name, caseID, fmt.Sprintf("verifier accepted %s although its SHA-256 is not in the hash list (%s)", g.describe(), hl.name), []*genCert{g}, list, v)
		case v.accepted && rule != "":
			report("verify:accepted-invalid:"+rule, caseID, fmt.Sprintf("verifier accepted pinned certificate %s that breaks rule %q", g.describe(), rule), []*genCert{g}, list, v)
		case v.accepted:
			r.Count("verify_accepted_allowed", 1)
			r.Nontrivial(caseID)
		case isPinned && rule == "" && !k.rsaSig:
			r.Count("verify_rejected_although_allowed", 1)
		default:
			r.Count("verify_rejected", 1)
			if isPinned && rule == "" {
				r.Count("verify_rejected_rsa_signature_only", 1)
			} else if isPinned {
				r.Count("verify_rejected_pinned_rule_"+strings.SplitN(rule, ":", 2)[0], 1)
				r.Nontrivial(caseID)
			}
		}
	}
	if r.SampleN() < 4 {
		g := certs["rsa-key-ecdsa-issuer/valid-2h"]
		r.Sample(map[string]any{"case": "verify/single/rsa-key-ecdsa-issuer/valid-2h/exact", "not_before": ts(g.nb), "not_after": ts(g.na), "label": g.brokenRule(),
			"hash_list": "exact", "expected": "reject"})
	}

	listenerOwnCertificates(r, now)
}

// listenerOwnCertificates: "an address learned at any time keeps verifying through the current and the
// following certificate period" — the certificate a listener serves at the real now must pass the
// dialer's verifier against the address the listener hands out now and against the one it handed out
// one period earlier. (The served certificate is valid from now-skew to now+skew at least, so the
// verdict does not depend on run timing.)
func listenerOwnCertificates(r *run.R, now time.Time) {
	n := r.Pick(40, 400)
	for i := 0; i < n && !r.TooMany(); i++ {
		caseID := fmt.Sprintf("verify/listener/%d", i)
		if !r.Want(caseID) || labelsStale(r, now) {
			continue
		}
		rg := r.Rand(6, uint64(i))
		kt := []int{ktEd25519, ktEd25519, ktSecp256k1, ktECDSA}[i%4]
		key, err := hostKey(rg, kt)
		if err != nil {
			r.Inconclusive(caseID, err.Error())
			continue
		}
		at := now.Truncate(time.Millisecond)
		earlier := at.Add(-period + time.Duration(rg.Int64N(int64(period-skew))))
		var addrs []ma.Multiaddr
		var served []byte
		for _, t := range []time.Time{earlier, at} {
			clk := newStepClock(t)
			m, err := clk.newManager(key)
			if err != nil {
				r.Inconclusive(caseID, err.Error())
				break
			}
			addrs = append(addrs, m.v.AddrComponent())
			served = m.v.GetConfig().Certificates[0].Certificate[0]
			m.v.Close()
		}
		if len(addrs) != 2 {
			continue
		}
		r.Eval(1)
		for j, a := range addrs {
			list, err := decodeAddr(a)
			if err != nil {
				r.Violation("advertise:addr-undecodable", caseID, err.Error(), map[string]any{"addr": a.String()})
				continue
			}
			v := callVerifier([][]byte{served}, list)
			if !v.accepted {
				r.Violation("verify:listener-certificate-rejected", caseID,
					fmt.Sprintf("the certificate the listener serves now is refused by the dialer's verifier against the address handed out %s: %s", []string{"up to one period earlier", "now"}[j], v.errText),
					map[string]any{"key_type": ktNames[kt], "addr": a.String(), "learned_at": ts([]time.Time{earlier, at}[j]), "served_at": ts(at), "der": served, "verifier_error": v.errText})
			} else {
				r.Count("verify_listener_certificate_accepted", 1)
			}
		}
	}
}

// decodeAddr extracts the certhash components the way a dialer does.
func decodeAddr(a ma.Multiaddr) ([]multihash.DecodedMultihash, error) {
	var out []multihash.DecodedMultihash
	var ferr error
	ma.ForEach(a, func(c ma.Component) bool {
		if c.Protocol().Code != ma.P_CERTHASH {
			return true
		}
		_, b, err := multibase.Decode(c.Value())
		if err != nil {
			ferr = err
			return false
		}
		dh, err := multihash.Decode(b)
		if err != nil {
			ferr = err
			return false
		}
		out = append(out, *dh)
		return true
	})
	return out, ferr
}

// tlsHandshakeAccepts runs a real crypto/tls handshake over an in-memory pipe: the server presents
// `chain` and holds the private key of chain[0] only; the client is configured exactly like
// transport.dial (InsecureSkipVerify + VerifyPeerCertificate = the real verifier).
func tlsHandshakeAccepts(chain [][]byte, key crypto.Signer, list []multihash.DecodedMultihash) (bool, string) {
	cp, sp := net.Pipe()
	defer cp.Close()
	defer sp.Close()
	dl := time.Now().Add(20 * time.Second)
	cp.SetDeadline(dl)
	sp.SetDeadline(dl)
	srv := tls.Server(sp, &tls.Config{Certificates: []tls.Certificate{{Certificate: chain, PrivateKey: key}}, MinVersion: tls.VersionTLS13, SessionTicketsDisabled: true})
	cli := tls.Client(cp, &tls.Config{InsecureSkipVerify: true, MinVersion: tls.VersionTLS13,
		VerifyPeerCertificate: func(raw [][]byte, _ [][]*x509.Certificate) error {
			return libp2pwebtransport.VerifVerifyRawCerts(raw, list)
		}})
	errc := make(chan error, 1)
	go func() { errc <- srv.Handshake() }()
	cerr := cli.Handshake()
	serr := <-errc
	if cerr != nil || serr != nil {
		return false, fmt.Sprintf("(client: %v, server: %v)", cerr, serr)
	}
	return true, ""
}
