package c18

import (
	"context"
	"crypto"
	"crypto/tls"
	"crypto/x509"
	"fmt"
	"io"
	"net"
	"net/http"
	"strings"
	"sync"
	"time"

	"github.com/benbjohnson/clock"
	ic "github.com/libp2p/go-libp2p/core/crypto"
	"github.com/libp2p/go-libp2p/core/peer"
	tpt "github.com/libp2p/go-libp2p/core/transport"
	"github.com/libp2p/go-libp2p/p2p/security/noise"
	"github.com/libp2p/go-libp2p/p2p/security/noise/pb"
	"github.com/libp2p/go-libp2p/p2p/transport/quicreuse"
	libp2pwebtransport "github.com/libp2p/go-libp2p/p2p/transport/webtransport"
	ma "github.com/multiformats/go-multiaddr"
	manet "github.com/multiformats/go-multiaddr/net"
	"github.com/multiformats/go-multibase"
	"github.com/multiformats/go-multihash"
	"github.com/quic-go/quic-go"
	"github.com/quic-go/quic-go/http3"
	"github.com/quic-go/webtransport-go"

	"verif/harness/rig/run"
)

// Dial clause: "[a dialer] completes the connection only if the server confirms, inside the
// authenticated handshake, every certificate hash the dialer relied on".
//
// "Relied on", settled from the statement and transport.go: the dialer's verifier accepts the served
// certificate if it matches ANY hash of the dialed address, so every one of them is a trust anchor
// the dialer was prepared to (and, for all the server knows, did) authenticate the TLS session with;
// upgrade() says the same: "the certhashes we used to dial is a subset of the certhashes we
// received from the server". Hence: relied on = all certhash components of the dialed address, equal
// as (multihash code, digest) pairs.
//
// The REAL transport dials over loopback UDP. The server side is scripted (webtransport-go + the real
// libp2p Noise transport, ~ listener.go's handler) so that the certificate chain it serves and the
// hashes it confirms in the Noise early data are ground truth by construction; the real listener is
// used as well (own certificates, mock-clock rollover, restart).
//
// Oracle (only-if, so a dial that fails for any reason — including load — is never a violation):
//   completed  =>  SHA-256(served chain[0]) is a sha2-256 hash of the dialed address
//              and chain[0] meets the validity rules
//              and every hash of the dialed address is among the hashes the server confirmed.

const wtEndpoint = "/.well-known/libp2p-webtransport"

type earlySender struct{ ext *pb.NoiseExtensions }

func (e earlySender) Send(context.Context, net.Conn, peer.ID) *pb.NoiseExtensions { return e.ext }
func (e earlySender) Received(context.Context, net.Conn, *pb.NoiseExtensions) error {
	return nil
}

type wtConn struct {
	*webtransport.Stream
	sess *webtransport.Session
}

func (c wtConn) LocalAddr() net.Addr  { return c.sess.LocalAddr() }
func (c wtConn) RemoteAddr() net.Addr { return c.sess.RemoteAddr() }

// scriptedServer serves `chain` (holding chain[0]'s key) and confirms exactly `confirm`.
type scriptedServer struct {
	id      peer.ID
	addr    ma.Multiaddr // /ip4/127.0.0.1/udp/<port>/quic-v1/webtransport (no certhashes)
	srv     *webtransport.Server
	pc      net.PacketConn
	mu      sync.Mutex
	confirm [][]byte // serialized multihashes; nil = no extension field at all
	noExt   bool
	secured int // Noise handshakes completed on the server side
}

func newScriptedServer(host ic.PrivKey, chain [][]byte, key crypto.Signer) (*scriptedServer, error) {
	id, err := peer.IDFromPrivateKey(host)
	if err != nil {
		return nil, err
	}
	nt, err := noise.New(noise.ID, host, nil)
	if err != nil {
		return nil, err
	}
	pc, err := net.ListenUDP("udp4", &net.UDPAddr{IP: net.IPv4(127, 0, 0, 1)})
	if err != nil {
		return nil, err
	}
	s := &scriptedServer{id: id, pc: pc}
	s.addr = ma.StringCast(fmt.Sprintf("/ip4/127.0.0.1/udp/%d/quic-v1/webtransport", pc.LocalAddr().(*net.UDPAddr).Port))
	mux := http.NewServeMux()
	s.srv = &webtransport.Server{
		H3: &http3.Server{
			TLSConfig:       &tls.Config{Certificates: []tls.Certificate{{Certificate: chain, PrivateKey: key}}, NextProtos: []string{http3.NextProtoH3}},
			Handler:         mux,
			EnableDatagrams: true,
		},
		CheckOrigin: func(*http.Request) bool { return true },
	}
	webtransport.ConfigureHTTP3Server(s.srv.H3)
	mux.HandleFunc(wtEndpoint, func(w http.ResponseWriter, r *http.Request) {
		sess, err := s.srv.Upgrade(w, r)
		if err != nil {
			w.WriteHeader(500)
			return
		}
		ctx, cancel := context.WithTimeout(context.Background(), 20*time.Second)
		defer cancel()
		str, err := sess.AcceptStream(ctx)
		if err != nil {
			sess.CloseWithError(1, "")
			return
		}
		s.mu.Lock()
		var ext *pb.NoiseExtensions
		if !s.noExt {
			ext = &pb.NoiseExtensions{WebtransportCerthashes: s.confirm}
		}
		s.mu.Unlock()
		n, err := nt.WithSessionOptions(noise.EarlyData(nil, earlySender{ext}))
		if err != nil {
			sess.CloseWithError(1, "")
			return
		}
		c, err := n.SecureInbound(ctx, wtConn{Stream: str, sess: sess}, "")
		if err != nil {
			sess.CloseWithError(1, "")
			return
		}
		s.mu.Lock()
		s.secured++
		s.mu.Unlock()
		_ = c
		<-sess.Context().Done() // until the dialer closes
	})
	go s.srv.Serve(pc)
	return s, nil
}

func (s *scriptedServer) setConfirm(c [][]byte, noExt bool) {
	s.mu.Lock()
	s.confirm, s.noExt = c, noExt
	s.mu.Unlock()
}

func (s *scriptedServer) close() {
	s.srv.Close()
	s.pc.Close()
}

// ---- address and hash helpers -----------------------------------------------------------------

type hashSpec struct {
	code   uint64
	digest []byte
}

func (h hashSpec) encode() []byte {
	b, err := multihash.Encode(h.digest, h.code)
	if err != nil {
		panic(err)
	}
	return b
}

func (h hashSpec) String() string {
	return fmt.Sprintf("%s:%x", multihash.Codes[h.code], h.digest[:min(6, len(h.digest))])
}

func withHashes(base ma.Multiaddr, hs []hashSpec) (ma.Multiaddr, error) {
	a := base
	for _, h := range hs {
		s, err := multibase.Encode(multibase.Base58BTC, h.encode())
		if err != nil {
			return nil, err
		}
		c, err := ma.NewComponent(ma.ProtocolWithCode(ma.P_CERTHASH).Name, s)
		if err != nil {
			return nil, err
		}
		a = a.AppendComponent(c)
	}
	return a, nil
}

func stripHashes(a ma.Multiaddr) ma.Multiaddr {
	out, _ := ma.SplitFunc(a, func(c ma.Component) bool { return c.Protocol().Code == ma.P_CERTHASH })
	return out
}

func specsOf(a ma.Multiaddr) []hashSpec {
	l, _ := decodeAddr(a)
	var out []hashSpec
	for _, h := range l {
		out = append(out, hashSpec{h.Code, h.Digest})
	}
	return out
}

func sha(b []byte) hashSpec { return hashSpec{multihash.SHA2_256, sum256(b)} }

func containsSpec(set []hashSpec, h hashSpec) bool {
	for _, x := range set {
		if x.code == h.code && string(x.digest) == string(h.digest) {
			return true
		}
	}
	return false
}

// ---- dialing ------------------------------------------------------------------------------------

type dialer struct {
	tr tpt.Transport
	cm *quicreuse.ConnManager
}

func newDialer(key ic.PrivKey) (*dialer, error) {
	cm, err := quicreuse.NewConnManager(quic.StatelessResetKey{}, quic.TokenGeneratorKey{})
	if err != nil {
		return nil, err
	}
	tr, err := libp2pwebtransport.New(key, nil, cm, nil, nil)
	if err != nil {
		cm.Close()
		return nil, err
	}
	return &dialer{tr: tr, cm: cm}, nil
}

func (d *dialer) close() {
	d.tr.(io.Closer).Close()
	d.cm.Close()
}

// dial returns whether the real transport completed the connection.
func (d *dialer) dial(addr ma.Multiaddr, p peer.ID, attempts int) (bool, string) {
	var last string
	for i := 0; i < attempts; i++ {
		ctx, cancel := context.WithTimeout(context.Background(), 20*time.Second)
		c, err := d.tr.Dial(ctx, addr, p)
		cancel()
		if err == nil {
			c.Close()
			return true, ""
		}
		last = err.Error()
		// only a timeout is worth another attempt; a refusal is a verdict
		if !strings.Contains(last, "deadline") && !strings.Contains(last, "timeout") {
			break
		}
	}
	return false, last
}

// chainLeafConfusion: the verifier refuses entry 0 on its own but accepts it when a good pinned entry
// follows, i.e. it judges the last entry instead of the served one.
func chainLeafConfusion(served []*genCert, addr []hashSpec) bool {
	if len(served) < 2 {
		return false
	}
	var list []multihash.DecodedMultihash
	for _, h := range addr {
		list = append(list, mh(h.code, h.digest))
	}
	var raws [][]byte
	for _, g := range served {
		raws = append(raws, g.raw)
	}
	return !callVerifier(raws[:1], list).accepted && callVerifier(raws, list).accepted
}

func raise(r *run.R, sig, caseID, msg string, detail any) {
	if sigs.first(r, sig) {
		r.Violation(sig, caseID, msg, detail)
	}
}

type dialCase struct {
	name    string
	addr    []hashSpec // certhashes of the dialed address
	confirm []hashSpec // what the server confirms
	noExt   bool       // server sends no Noise extensions at all
}

func dialCases(r *run.R) {
	now := time.Now()
	rng := r.Rand(7)
	pool := &keyPool{ecdsa: detECDSAKey(rng), ecdsa2: detECDSAKey(rng), ed: detEd25519Key(rng)}
	if !r.Quick() {
		pool.rsa = detRSAKey(rng, 2048)
	}
	serverKey, _ := hostKey(rng, ktEd25519)
	clientKey, _ := hostKey(rng, ktEd25519)
	d, err := newDialer(clientKey)
	if err != nil {
		r.Inconclusive("dial/setup", err.Error())
		return
	}
	defer d.close()

	mk := func(kind, win string) *genCert {
		var k certKind
		for _, x := range certKinds {
			if x.name == kind {
				k = x
			}
		}
		var w window
		for _, x := range windows {
			if x.name == win {
				w = x
			}
		}
		g, err := pool.make(rng, k, w, now)
		if err != nil {
			panic(err)
		}
		return g
	}
	good := mk("ecdsa-p256-self", "valid-14d")
	nextCert := mk("ecdsa-key-ecdsa-issuer", "valid-2h") // stands for "the next certificate": only its hash is used
	G, N := sha(good.raw), sha(nextCert.raw)
	bogus := sha([]byte("foobar"))
	gSha3 := hashSpec{multihash.SHA3_256, G.digest}
	gSha512 := hashSpec{multihash.SHA2_512, sum512(good.raw)}

	judge := func(caseID string, served []*genCert, dc dialCase, completed bool, errText string) {
		r.Eval(1)
		first := served[0]
		pinnedOK := containsSpec(dc.addr, sha(first.raw))
		rule := first.brokenRule()
		var unconfirmed []string
		if dc.noExt {
			dc.confirm = nil
		}
		for _, h := range dc.addr {
			if !containsSpec(dc.confirm, h) {
				unconfirmed = append(unconfirmed, h.String())
			}
		}
		allowed := pinnedOK && rule == "" && len(unconfirmed) == 0
		detail := map[string]any{"dialed_hashes": fmt.Sprint(dc.addr), "server_confirms": fmt.Sprint(dc.confirm), "server_sends_no_extensions": dc.noExt,
			"served_chain": func() (s []string) {
				for _, g := range served {
					s = append(s, g.describe()+" sha256="+sha(g.raw).String())
				}
				return
			}(), "dial_error": errText}
		switch {
		case completed && !pinnedOK:
			sig := "dial:completed-served-certificate-not-pinned"
			if chainLeafConfusion(served, dc.addr) {
				sig = "verify:chain-leaf-is-last-not-first"
			}
			raise(r, sig, caseID, "dial completed although the SHA-256 of the served certificate is not in the dialed address", detail)
		case completed && rule != "":
			sig := "dial:completed-invalid-certificate:" + rule
			if chainLeafConfusion(served, dc.addr) {
				sig = "verify:chain-leaf-is-last-not-first"
			}
			raise(r, sig, caseID, "dial completed although the served certificate breaks rule "+rule, detail)
		case completed && len(unconfirmed) > 0:
			raise(r, "dial:completed-with-unconfirmed-hash", caseID, fmt.Sprintf("dial completed although the server did not confirm %v of the dialed address", unconfirmed), detail)
		case completed:
			r.Count("dial_completed_allowed", 1)
			r.Nontrivial(caseID)
		case allowed:
			r.Count("dial_failed_although_allowed", 1) // not a violation of "only if"
			r.Extra("dial_failed_although_allowed_last", caseID+": "+errText)
		default:
			r.Count("dial_refused_forbidden", 1)
			switch {
			case !pinnedOK:
				r.Count("dial_refused_unpinned", 1)
			case rule != "":
				r.Count("dial_refused_invalid_certificate", 1)
			default:
				r.Count("dial_refused_unconfirmed", 1)
			}
			r.Nontrivial(caseID)
		}
	}

	// -- scripted server A: serves [good]; what it confirms varies per case -------------------------
	cases := []dialCase{
		{"exact", []hashSpec{G, N}, []hashSpec{G, N}, false},
		{"exact-three-confirmed", []hashSpec{G, N}, []hashSpec{bogus, G, N}, false},
		{"subset-served-only", []hashSpec{G}, []hashSpec{G, N}, false},
		{"subset-next-only", []hashSpec{N}, []hashSpec{G, N}, false},
		{"genuine+bogus", []hashSpec{G, bogus}, []hashSpec{G, N}, false},
		{"bogus+genuine", []hashSpec{bogus, G}, []hashSpec{G, N}, false},
		{"only-bogus", []hashSpec{bogus}, []hashSpec{G, N}, false},
		{"genuine+same-digest-other-code", []hashSpec{G, gSha3}, []hashSpec{G, N}, false},
		{"only-other-hash-function", []hashSpec{gSha512}, []hashSpec{G, N, gSha512}, false},
		{"served-hash-not-confirmed", []hashSpec{G}, []hashSpec{N}, false},
		{"one-of-two-not-confirmed", []hashSpec{G, N}, []hashSpec{G}, false},
		{"nothing-confirmed", []hashSpec{G}, nil, false},
		{"no-extensions", []hashSpec{G}, nil, true},
		{"confirmed-under-other-code", []hashSpec{G}, []hashSpec{gSha3}, false},
		// repeated entries on either side: a repeated confirmation does not stand for another hash
		{"served-confirmed-twice+bogus-dialed", []hashSpec{G, bogus}, []hashSpec{G, G}, false},
		{"served-confirmed-twice+next-dialed", []hashSpec{G, N}, []hashSpec{G, G}, false},
		{"served-confirmed-thrice+two-unconfirmed", []hashSpec{bogus, G, N}, []hashSpec{G, G, G}, false},
		{"next-confirmed-twice+served-dialed", []hashSpec{G, N}, []hashSpec{N, N}, false},
		{"dialed-twice-confirmed-once", []hashSpec{G, G}, []hashSpec{G}, false},
		{"dialed-twice+bogus-confirmed-twice", []hashSpec{G, G, bogus}, []hashSpec{G, N, G}, false},
		{"all-confirmed-with-repeats", []hashSpec{G, N}, []hashSpec{G, G, N, N}, false},
	}
	srvA, err := newScriptedServer(serverKey, [][]byte{good.raw}, good.key)
	if err != nil {
		r.Inconclusive("dial/setup", err.Error())
		return
	}
	defer srvA.close()
	reps := r.Pick(1, 5)
	for rep := 0; rep < reps; rep++ {
		for _, dc := range cases {
			caseID := fmt.Sprintf("dial/scripted/%s/%d", dc.name, rep)
			if !r.Want(caseID) || r.TooMany() || labelsStale(r, now) {
				continue
			}
			var cf [][]byte
			for _, h := range dc.confirm {
				cf = append(cf, h.encode())
			}
			srvA.setConfirm(cf, dc.noExt)
			addr, err := withHashes(srvA.addr, dc.addr)
			if err != nil {
				r.Inconclusive(caseID, err.Error())
				continue
			}
			ok, et := d.dial(addr, srvA.id, 3)
			judge(caseID, []*genCert{good}, dc, ok, et)
		}
	}
	if r.SampleN() < 5 {
		r.Sample(map[string]any{"case": "dial/scripted/genuine+bogus/0", "served": good.describe(), "dialed_hashes": fmt.Sprint([]hashSpec{G, bogus}),
			"server_confirms": fmt.Sprint([]hashSpec{G, N}), "expected": "must not complete (bogus hash is not confirmed)"})
	}

	// -- scripted servers B: certificates that break a validity rule, pinned and confirmed ----------
	type badServer struct {
		name  string
		chain []*genCert
	}
	bad := []badServer{
		{"lifetime-14d-plus-1s", []*genCert{mk("ecdsa-p256-self", "valid-14d-plus-1s")}},
		{"expired", []*genCert{mk("ecdsa-p256-self", "expired")}},
		{"not-yet-valid", []*genCert{mk("ed25519-self", "not-yet-valid")}},
		// chain of two: the server holds entry 0's key only; entry 1 is somebody's good pinned certificate
		{"chain2-unpinned-first", []*genCert{mk("ecdsa-key-ecdsa-issuer", "valid-20min"), good}},
		{"chain2-expired-first", []*genCert{mk("ecdsa-p256-self", "expired"), good}},
	}
	if pool.rsa != nil {
		bad = append(bad,
			badServer{"rsa-pss", []*genCert{mk("rsa-pss-self", "valid-2h")}},
			badServer{"rsa-key-ecdsa-issuer", []*genCert{mk("rsa-key-ecdsa-issuer", "valid-2h")}},
			badServer{"chain2-rsa-first", []*genCert{mk("rsa-pkcs1v15-self", "valid-2h"), good}})
	}
	for _, b := range bad {
		caseID := "dial/scripted-bad/" + b.name
		if !r.Want(caseID) || r.TooMany() || labelsStale(r, now) {
			continue
		}
		var raws [][]byte
		for _, g := range b.chain {
			raws = append(raws, g.raw)
		}
		srv, err := newScriptedServer(serverKey, raws, b.chain[0].key)
		if err != nil {
			r.Inconclusive(caseID, err.Error())
			continue
		}
		// pin what an attacker can pin: for a single certificate its own hash; for the chain of two the
		// good certificate's hash (plus, for the rule-breaking first entries, their own hash too)
		dc := dialCase{name: b.name}
		if len(b.chain) == 1 {
			dc.addr = []hashSpec{sha(b.chain[0].raw)}
		} else if strings.Contains(b.name, "unpinned") {
			dc.addr = []hashSpec{G}
		} else {
			dc.addr = []hashSpec{G, sha(b.chain[0].raw)}
		}
		dc.confirm = dc.addr
		var cf [][]byte
		for _, h := range dc.confirm {
			cf = append(cf, h.encode())
		}
		srv.setConfirm(cf, false)
		addr, _ := withHashes(srv.addr, dc.addr)
		ok, et := d.dial(addr, srv.id, 1)
		judge(caseID, b.chain, dc, ok, et)
		srv.close()
	}

	realListenerCases(r, d, now)
	listenHistories(r, now)
}

// realListenerCases: the real listener as the server. Ground truth: the certificate it serves is fetched
// with an independent plain QUIC/TLS probe; what a freshly started listener confirms are the hashes of
// its own listen address (a bogus hash is confirmed by no honest server).
func realListenerCases(r *run.R, d *dialer, now time.Time) {
	n := r.Pick(2, 12)
	for i := 0; i < n && !r.TooMany() && !labelsStale(r, now); i++ {
		rng := r.Rand(8, uint64(i))
		kt := []int{ktEd25519, ktSecp256k1, ktECDSA, ktEd25519}[i%4]
		key, err := hostKey(rng, kt)
		if err != nil {
			r.Inconclusive("dial/real/setup", err.Error())
			return
		}
		pid, _ := peer.IDFromPrivateKey(key)
		pub, _ := key.GetPublic().Raw()
		bk := newBucketing(pub)

		start := func(opts ...libp2pwebtransport.Option) (tpt.Listener, func(), error) {
			cm, err := quicreuse.NewConnManager(quic.StatelessResetKey{}, quic.TokenGeneratorKey{})
			if err != nil {
				return nil, nil, err
			}
			tr, err := libp2pwebtransport.New(key, nil, cm, nil, nil, opts...)
			if err != nil {
				cm.Close()
				return nil, nil, err
			}
			ln, err := tr.Listen(ma.StringCast("/ip4/127.0.0.1/udp/0/quic-v1/webtransport"))
			if err != nil {
				tr.(io.Closer).Close()
				cm.Close()
				return nil, nil, err
			}
			go func() {
				for {
					c, err := ln.Accept()
					if err != nil {
						return
					}
					go func() { time.Sleep(50 * time.Millisecond); c.Close() }()
				}
			}()
			return ln, func() { ln.Close(); tr.(io.Closer).Close(); cm.Close() }, nil
		}

		at := now.Truncate(time.Millisecond)
		if bk.servedIndex(at.Add(-10*time.Minute)) != bk.servedIndex(at.Add(30*time.Minute)) {
			r.Count("dial_real_skipped_rollover_due", 1)
			continue // a rollover of this key is due within minutes of the real now: timing would matter
		}
		// (a) fresh listener on the real clock: confirms {current, next} = the hashes of its address
		ln, stop, err := start()
		if err != nil {
			r.Inconclusive("dial/real/setup", err.Error())
			return
		}
		own := specsOf(ln.Multiaddr())
		base := stripHashes(ln.Multiaddr())
		if len(own) < 2 {
			r.Violation("advertise:listener-address-without-two-hashes", fmt.Sprintf("dial/real/%d", i), "listener address does not carry two certhashes: "+ln.Multiaddr().String(), nil)
			stop()
			continue
		}
		// which certificate is served: fetched with a plain QUIC/TLS probe that accepts anything
		chainRaw, err := fetchServedChain(base)
		if err != nil || len(chainRaw) == 0 {
			r.Count("dial_real_skipped_probe_failed", 1) // load; the required counters keep the part from being vacuous
			stop()
			continue
		}
		servedRaw := chainRaw[0]
		served, edgeNear := labelFromDER(servedRaw, now)
		if edgeNear {
			r.Count("dial_real_skipped_validity_edge_near_now", 1)
			stop()
			continue
		}
		bogus := sha([]byte("foobar"))
		cur := sha(servedRaw)
		var notServed []hashSpec
		for _, h := range own {
			if !containsSpec([]hashSpec{cur}, h) {
				notServed = append(notServed, h)
			}
		}
		for _, dc := range []dialCase{
			{"exact", own, own, false},
			{"subset-current", []hashSpec{cur}, own, false},
			{"subset-next", notServed, own, false},
			{"genuine+bogus", []hashSpec{cur, bogus}, own, false},
			{"only-bogus", []hashSpec{bogus}, own, false},
		} {
			caseID := fmt.Sprintf("dial/real/%s/%s/%d", ktNames[kt], dc.name, i)
			if !r.Want(caseID) {
				continue
			}
			addr, _ := withHashes(base, dc.addr)
			ok, et := d.dial(addr, pid, 3)
			realJudge(r, caseID, served, dc, ok, et)
		}
		stop()

		// (b) previous-period address: long-running listener (mock clock rolled over into the real now)
		// versus a listener restarted now. Counted, not judged (see r.Assume in TestC18).
		caseID := fmt.Sprintf("dial/real/%s/previous-period-address/%d", ktNames[kt], i)
		if !r.Want(caseID) {
			continue
		}
		mc := clock.NewMock()
		mc.Set(at.Add(-period))
		ln1, stop1, err := start(libp2pwebtransport.WithClock(mc))
		if err != nil {
			r.Inconclusive(caseID, err.Error())
			continue
		}
		prevAddrHashes := specsOf(ln1.Multiaddr())
		before := ln1.Multiaddr().String()
		mc.Set(at)
		rolled := false
		for w := 0; w < 400; w++ { // liveness of the bare mock, not an oracle: bounded wait
			if ln1.Multiaddr().String() != before {
				rolled = true
				break
			}
			time.Sleep(5 * time.Millisecond)
		}
		if rolled {
			// the address the long-running listener advertises NOW (after its rollover) must verify: the
			// server confirms, inside the handshake, the hashes it advertises at that moment
			cur := ln1.Multiaddr()
			ok, et := d.dial(cur, pid, 3)
			r.Eval(1)
			switch {
			case ok:
				r.Count("dial_current_address_of_rolled_listener_completed", 1)
			case strings.Contains(et, "cert hash") || strings.Contains(et, "certhash"):
				r.Violation("dial:rolled-listener-does-not-confirm-the-hashes-it-advertises", caseID,
					"after a rollover, a dial with the address the listener advertises at that moment is refused: "+et, map[string]any{"address": cur.String(), "error": et})
			default:
				r.Count("dial_current_address_of_rolled_listener_failed_otherwise(load)", 1)
			}
		}
		if rolled && len(prevAddrHashes) == 2 {
			addr, _ := withHashes(stripHashes(ln1.Multiaddr()), prevAddrHashes)
			ok, _ := d.dial(addr, pid, 3)
			r.Eval(1)
			if ok {
				r.Count("dial_prev_period_address_long_running_completed", 1)
				r.Nontrivial(caseID)
			} else {
				r.Count("dial_prev_period_address_long_running_failed", 1)
			}
		}
		stop1()
		ln2, stop2, err := start()
		if err != nil {
			r.Inconclusive(caseID, err.Error())
			continue
		}
		if len(prevAddrHashes) == 2 {
			addr, _ := withHashes(stripHashes(ln2.Multiaddr()), prevAddrHashes)
			ok, et := d.dial(addr, pid, 1)
			r.Eval(1)
			if ok {
				r.Count("dial_prev_period_address_after_restart_completed", 1)
			} else {
				r.Count("dial_prev_period_address_after_restart_failed", 1)
				if strings.Contains(et, "missing cert hash") {
					r.Count("dial_prev_period_address_after_restart_failed_missing_cert_hash", 1)
				}
			}
		}
		stop2()
	}
}

// listenHistories: ONE transport, several Listen calls of which some fail (UDP port taken), on a mock
// clock that is then moved one period ahead. Every listener that is open must roll its advertised
// hashes like the listener of a transport whose only Listen succeeded (the control, same process, same
// moment): "at every instant the served certificate is valid now and for at least the clock-skew
// allowance" cannot hold for a listener whose certificate manager no longer rolls. The control also
// calibrates the bounded real-time wait the bare mock clock needs (no roll of the control: inconclusive).
func listenHistories(r *run.R, now time.Time) {
	patterns := [][]string{{"fail", "ok"}, {"ok", "fail", "ok"}, {"fail", "fail", "ok"}, {"ok", "close", "ok"}}
	for pi, pat := range patterns {
		caseID := fmt.Sprintf("listen-history/%s", strings.Join(pat, "+"))
		if !r.Want(caseID) || r.TooMany() {
			continue
		}
		rng := r.Rand(81, uint64(pi))
		key, err := hostKey(rng, ktEd25519)
		if err != nil {
			r.Inconclusive(caseID, err.Error())
			return
		}
		at := now.Truncate(time.Millisecond)
		type node struct {
			mc   *clock.Mock
			tr   tpt.Transport
			cm   *quicreuse.ConnManager
			lns  []tpt.Listener
			open []tpt.Listener
		}
		mk := func() (*node, error) {
			n := &node{mc: clock.NewMock()}
			n.mc.Set(at)
			cm, err := quicreuse.NewConnManager(quic.StatelessResetKey{}, quic.TokenGeneratorKey{})
			if err != nil {
				return nil, err
			}
			tr, err := libp2pwebtransport.New(key, nil, cm, nil, nil, libp2pwebtransport.WithClock(n.mc))
			if err != nil {
				cm.Close()
				return nil, err
			}
			n.tr, n.cm = tr, cm
			return n, nil
		}
		closeNode := func(n *node) {
			for _, l := range n.open {
				l.Close()
			}
			n.tr.(io.Closer).Close()
			n.cm.Close()
		}
		subj, err := mk()
		if err != nil {
			r.Inconclusive(caseID, err.Error())
			continue
		}
		ctrl, err := mk()
		if err != nil {
			closeNode(subj)
			r.Inconclusive(caseID, err.Error())
			continue
		}
		var taken []*net.UDPConn
		failed, setupBad := 0, ""
		for _, step := range pat {
			switch step {
			case "ok":
				l, err := subj.tr.Listen(ma.StringCast("/ip4/127.0.0.1/udp/0/quic-v1/webtransport"))
				if err != nil {
					setupBad = "Listen on a free port failed: " + err.Error()
					break
				}
				subj.open = append(subj.open, l)
			case "close":
				if len(subj.open) > 0 {
					subj.open[0].Close()
					subj.open = subj.open[1:]
				}
			case "fail":
				u, err := net.ListenUDP("udp4", &net.UDPAddr{IP: net.IPv4(127, 0, 0, 1)})
				if err != nil {
					setupBad = err.Error()
					break
				}
				taken = append(taken, u)
				port := u.LocalAddr().(*net.UDPAddr).Port
				if l, err := subj.tr.Listen(ma.StringCast(fmt.Sprintf("/ip4/127.0.0.1/udp/%d/quic-v1/webtransport", port))); err == nil {
					l.Close() // the port could be shared after all: not the history we wanted
				} else {
					failed++
				}
			}
		}
		cl, cerr := ctrl.tr.Listen(ma.StringCast("/ip4/127.0.0.1/udp/0/quic-v1/webtransport"))
		if cerr == nil {
			ctrl.open = append(ctrl.open, cl)
		}
		done := func() {
			closeNode(subj)
			closeNode(ctrl)
			for _, u := range taken {
				u.Close()
			}
		}
		wantFails := 0
		for _, s := range pat {
			if s == "fail" {
				wantFails++
			}
		}
		if setupBad != "" || cerr != nil || len(subj.open) == 0 || failed != wantFails {
			r.Count("listen_history_setup_not_as_planned", 1)
			done()
			continue
		}
		before := map[tpt.Listener]string{}
		for _, l := range append(append([]tpt.Listener{}, subj.open...), ctrl.open...) {
			before[l] = l.Multiaddr().String()
		}
		// one whole period ahead: every certificate served before is past its end
		subj.mc.Set(at.Add(period))
		ctrl.mc.Set(at.Add(period))
		rolled := func(l tpt.Listener) bool { return l.Multiaddr().String() != before[l] }
		ctrlRolled := false
		for w := 0; w < 1000 && !ctrlRolled; w++ { // bounded wait for the bare mock (not an oracle)
			ctrlRolled = rolled(ctrl.open[0])
			if !ctrlRolled {
				time.Sleep(5 * time.Millisecond)
			}
		}
		r.Eval(1)
		if !ctrlRolled {
			r.Count("listen_history_control_did_not_roll(load)", 1)
			done()
			continue
		}
		// the subject gets up to 10 s of real time after the control has rolled (load); a certificate manager
		// that was closed never rolls, however long one waits
		var stuck []string
		for w := 0; w < 2000; w++ {
			stuck = stuck[:0]
			for _, l := range subj.open {
				if !rolled(l) {
					stuck = append(stuck, l.Multiaddr().String())
				}
			}
			if len(stuck) == 0 {
				break
			}
			time.Sleep(5 * time.Millisecond)
		}
		r.Count("listen_histories_with_failed_listens_checked", 1)
		r.Nontrivial(caseID)
		if len(stuck) > 0 {
			r.Violation("rollover:listener-never-rolls-after-listen-history/"+strings.Join(pat, "+"), caseID,
				fmt.Sprintf("one period after its start a listener of a transport with the Listen history %v still advertises the hashes of the expired certificates, while the listener of a transport whose only Listen succeeded has rolled", pat),
				map[string]any{"history": pat, "stuck_listener_addresses": stuck, "control_before": before[ctrl.open[0]], "control_after": ctrl.open[0].Multiaddr().String()})
		}
		done()
	}
}

// fetchServedChain connects with plain QUIC/TLS (no pinning, nothing verified) and returns the chain the
// listener presents.
func fetchServedChain(base ma.Multiaddr) ([][]byte, error) {
	_, hostport, err := manet.DialArgs(base)
	if err != nil {
		return nil, err
	}
	var got [][]byte
	ctx, cancel := context.WithTimeout(context.Background(), 20*time.Second)
	defer cancel()
	conn, err := quic.DialAddr(ctx, hostport, &tls.Config{InsecureSkipVerify: true, NextProtos: []string{http3.NextProtoH3},
		VerifyPeerCertificate: func(raw [][]byte, _ [][]*x509.Certificate) error {
			for _, c := range raw {
				got = append(got, append([]byte{}, c...))
			}
			return nil
		}}, &quic.Config{})
	if err == nil {
		conn.CloseWithError(0, "")
	}
	if got != nil {
		return got, nil
	}
	return nil, err
}

// labelFromDER derives the statement's labels from a certificate's own fields; edgeNear reports a
// validity edge within 5 minutes of now (then timing could matter and the case is skipped).
func labelFromDER(raw []byte, now time.Time) (*genCert, bool) {
	g := &genCert{kind: certKind{name: "fetched"}, raw: raw, window: "as-served"}
	c, err := x509.ParseCertificate(raw)
	if err != nil {
		return g, false
	}
	g.parses = true
	g.nb, g.na = c.NotBefore, c.NotAfter
	g.kind.rsaKey = c.PublicKeyAlgorithm == x509.RSA
	g.lifetimeOK = c.NotAfter.Sub(c.NotBefore) <= maxLifetime
	g.currentlyValid = !now.Before(c.NotBefore) && !now.After(c.NotAfter)
	g.expired = now.After(c.NotAfter)
	for _, e := range []time.Time{c.NotBefore, c.NotAfter} {
		if d := now.Sub(e); d > -5*time.Minute && d < 5*time.Minute {
			return g, true
		}
	}
	return g, false
}

func realJudge(r *run.R, caseID string, served *genCert, dc dialCase, completed bool, errText string) {
	r.Eval(1)
	pinnedOK := containsSpec(dc.addr, sha(served.raw))
	var unconfirmed []string
	for _, h := range dc.addr {
		if !containsSpec(dc.confirm, h) {
			unconfirmed = append(unconfirmed, h.String())
		}
	}
	detail := map[string]any{"dialed_hashes": fmt.Sprint(dc.addr), "listener_address_hashes": fmt.Sprint(dc.confirm), "served_sha256": sha(served.raw).String(), "dial_error": errText}
	rule := served.brokenRule()
	switch {
	case completed && !pinnedOK:
		raise(r, "dial:completed-served-certificate-not-pinned", caseID, "dial to the real listener completed although the SHA-256 of the served certificate is not in the dialed address", detail)
	case completed && rule != "":
		raise(r, "dial:completed-invalid-certificate:"+rule, caseID, "dial to the real listener completed although the served certificate breaks rule "+rule, detail)
	case completed && len(unconfirmed) > 0:
		raise(r, "dial:completed-with-unconfirmed-hash", caseID, fmt.Sprintf("dial to the real listener completed although it does not confirm %v", unconfirmed), detail)
	case completed:
		r.Count("dial_completed_allowed", 1)
		r.Count("dial_real_listener_completed", 1)
		r.Nontrivial(caseID)
	case pinnedOK && len(unconfirmed) == 0 && rule == "":
		r.Count("dial_failed_although_allowed", 1)
		r.Extra("dial_failed_although_allowed_last", caseID+": "+errText)
	default:
		r.Count("dial_refused_forbidden", 1)
		r.Count("dial_real_listener_refused", 1)
		r.Nontrivial(caseID)
	}
}
