// C18 — WebTransport serves a valid, advertised certificate at all times; dialers pin it.
package c18

import (
	"testing"

	"verif/harness/rig/run"
)

func TestC18(t *testing.T) {
	r := run.New(t, "C18", "exploration")
	defer r.Finish()
	managerCases(r)
}
