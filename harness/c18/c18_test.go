// C18 — WebTransport serves a valid, advertised certificate at all times; dialers pin it.
//
// Three monitors over the REAL code (certManager, verifyRawCerts, the transport's Dial):
//
//	manager_test.go   the cert manager on a mock clock, stepped over a grid that is dense around every
//	                  instant at which anything changes (timeline_test.go makes each step deterministic):
//	                  validity/lifetime of the served certificate, advertised hashes (address component
//	                  and Noise early data) now and retrospectively, determinism against a manager
//	                  started fresh at the same instant, independent integer bucket arithmetic.
//	verify_test.go    the dialer's verifier on crypto/x509-generated certificates with ground-truth
//	                  labels (key/signature algorithm, lifetime, validity window around the real now),
//	                  hash lists (exact, absent, other multihash code, empty) and chains (empty, of two).
//	dial_test.go      the real transport dialing over loopback UDP against a scripted server whose
//	                  certificate chain and confirmed hashes are ground truth, and against the real
//	                  listener.
package c18

import (
	"os"
	"sync"
	"testing"
	"time"

	"verif/harness/rig/run"
)

// sigCap lets each structural signature be raised at most twice by the verifier and dial parts (the same
// defect shows up in every validity window / hash list crossing); further hits are only counted.
type sigCap struct {
	mu sync.Mutex
	n  map[string]int
}

var sigs = &sigCap{n: map[string]int{}}

func (c *sigCap) first(r *run.R, sig string) bool {
	c.mu.Lock()
	defer c.mu.Unlock()
	c.n[sig]++
	if c.n[sig] > 2 {
		r.Count("violations_same_signature_not_repeated", 1)
		return false
	}
	return true
}

// labelsStale: the verifier reads the real clock; the generated validity edges keep >= 10 minutes from
// the `now` the labels were computed with. Cases reached later than 4 minutes after that are skipped
// (counted), so that no label can have flipped. Not part of any verdict.
func labelsStale(r *run.R, now time.Time) bool {
	if time.Since(now) > 4*time.Minute {
		r.Count("skipped_labels_older_than_4min", 1)
		return true
	}
	return false
}

func TestC18(t *testing.T) {
	r := run.New(t, "C18", "exploration")
	defer r.Finish()
	r.Rule("manager: one case = (host key, start instant at a boundary of its bucket ± {0,1ms,1s,1h}, 0-6 rollovers, restarts) stepped on a boundary-dense grid with the real certManager on a mock clock, every instant compared with a manager started fresh at that instant; non-trivial if at least one rollover or restart was observed. " +
		"verifier: one case = (certificate kind, validity window, hash list | chain shape) judged by the real verifyRawCerts; non-trivial if the certificate was pinned and the verdict hinged on a validity rule, or it was accepted. " +
		"dial: one case = (served chain, confirmed hashes, dialed hashes) dialed by the real transport over loopback; non-trivial if the dial completed where allowed or was refused where forbidden. distinct = distinct case ids")
	r.Assume(
		"crypto/tls authenticates the server with rawCerts[0] (the handshake signature is checked against the first certificate); crypto/x509, crypto/tls, quic-go, webtransport-go and the Noise primitives are trusted",
		"'at every instant' is decided on a grid: every instant at which a certificate starts/stops being servable or valid ± {0, 1 ms, 1 s, 1 h} (thorough and one trace per key in quick also ± {1 ns, 1 µs}), plus random instants; bucket indices 30..5800 (years 1971-2190)",
		"'every hash the dialer relied on' = every certhash component of the dialed address (the verifier accepts a match with any of them; transport.go upgrade() requires all of them in the server's early data)",
		"the clock-skew allowance is read from the code (1 h); the 14-day limit is the statement's",
		"narrow reading of 'an address keeps verifying through the following period': the certificate pin check. That a manager RESTARTED in the following period no longer confirms the previous period's hash in its early data (lastConfig is nil after a restart, so a dial with an address handed out in the previous period fails with 'missing cert hash') is measured (mgr_restart_prev_address_unconfirmed, dial_prev_period_address_after_restart_failed) and not raised; for one uninterrupted manager the same relation is a hard clause",
		"the verifier reads the real clock: every generated validity edge is at least 10 minutes away from the real now, so no verdict depends on run timing")

	start := time.Now()
	var wg sync.WaitGroup
	part := func(name string, f func(*run.R)) {
		wg.Add(1)
		go func() {
			defer wg.Done()
			t0 := time.Now()
			f(r)
			r.Extra("wall_s_"+name, time.Since(t0).Seconds())
		}()
	}
	if os.Getenv("VERIF_RACE") == "1" {
		// race pass: the only concurrency is manager goroutine vs getters; run a reduced manager part
		part("manager", managerCases)
		wg.Wait()
		return
	}
	part("dial", dialCases)
	part("verifier", verifierCases)
	part("manager", managerCases)
	wg.Wait()
	_ = start

	// path classes the check exists to exercise
	r.Require("mgr_rollovers_observed", r.Pick(1000, 10000))
	r.Require("mgr_restarts", r.Pick(500, 5000))
	r.Require("mgr_fresh_managers_compared", r.Pick(20000, 200000))
	r.Require("mgr_tie_instants", 100)
	if os.Getenv("VERIF_RACE") != "1" { // the race pass runs no virtual-time traces
		r.Require("mgr_certificate_derivations_failed_once", 20)
	}
	r.Require("listen_histories_with_failed_listens_checked", 1)
	r.Require("mgr_retro_next_checks", r.Pick(10000, 100000))
	r.Require("mgr_retro_confirm_checks", r.Pick(10000, 100000))
	for _, b := range boundaryNames {
		r.Require("mgr_start_"+b, 20)
	}
	for _, k := range ktNames {
		r.Require("host_keys_"+k, 5)
	}
	r.Require("host_keys_offset_zero", 1)
	r.Require("host_keys_offset_max", 1)
	r.Require("host_keys_offset_beyond_period", 1)
	r.Require("verify_accepted_allowed", 30)
	r.Require("verify_rejected_pinned_rule_rsa", 50)
	r.Require("verify_rejected_pinned_rule_lifetime-over-14d", 10)
	r.Require("verify_rejected_pinned_rule_expired", 10)
	r.Require("verify_rejected_pinned_rule_not-yet-valid", 10)
	r.Require("verify_rejected_unpinned_absent", 10)
	r.Require("verify_rejected_unpinned_digest-under-sha2-512-code", 10)
	r.Require("verify_rejected_unpinned_empty-list", 10)
	r.Require("verify_rejected_empty_chain", 10)
	r.Require("verify_chain2_rejected", 9)
	r.Require("verify_listener_certificate_accepted", 40)
	r.Require("dial_completed_allowed", 4)
	r.Require("dial_refused_unconfirmed", 4)
	r.Require("dial_refused_unpinned", 2)
	r.Require("dial_refused_invalid_certificate", 3)
}
