package c18

import (
	"fmt"
	"math/rand/v2"
	"testing"
	"time"
)

func TestProbeRestart(t *testing.T) {
	rng := rand.New(rand.NewPCG(1, 2))
	key, _ := hostKey(rng, ktEd25519)
	pub, _ := key.GetPublic().Raw()
	bk := newBucketing(pub)
	idx := bk.indexOf(time.Date(2026, 9, 25, 0, 0, 0, 0, time.UTC).UnixMilli())
	B := time.UnixMilli(bk.startOf(idx))
	t1 := B.Add(5 * 24 * time.Hour)
	clk := newStepClock(t1)
	m, _ := clk.newManager(key)
	s1, _ := observe(m, t1, bk, nil)
	fmt.Printf("t1=%s period=%d served=%x addr=%v early=%v\n", ts(t1), s1.ci.idx, s1.ci.hash[:6], s1.addr, s1.early)
	t2 := t1.Add(period)
	// long-running
	clk.advance(t2, m)
	s2, _ := observe(m, t2, bk, nil)
	fmt.Printf("long-running t2=%s period=%d served=%x addr=%v early=%v  addr(t1) subset early(t2): %v\n", ts(t2), s2.ci.idx, s2.ci.hash[:6], s2.addr, s2.early, s1.addr.subsetOf(s2.early))
	m.v.Close()
	f, _ := clk.newManager(key)
	s3, _ := observe(f, t2, bk, nil)
	fmt.Printf("restarted    t2=%s period=%d served=%x addr=%v early=%v  addr(t1) subset early(t2): %v\n", ts(t2), s3.ci.idx, s3.ci.hash[:6], s3.addr, s3.early, s1.addr.subsetOf(s3.early))
	f.v.Close()
}
