package c20

import (
	"context"
	"errors"
	"fmt"
	"sync"
	"testing"
	"time"

	"github.com/libp2p/go-libp2p/core/peer"
	"github.com/libp2p/go-libp2p/core/peerstore"
	"github.com/libp2p/go-libp2p/p2p/net/swarm"
	"github.com/libp2p/go-libp2p/x/verifhook"
	ma "github.com/multiformats/go-multiaddr"

	"verif/harness/rig/run"
	"verif/harness/rig/scripttpt"
	"verif/harness/rig/swarmrig"
)

// hook point between the dial limiter's "is this job cancelled?" check and the dial function: what a
// caller's cancel() does when it lands exactly there (dispatch by address: handlers are process-global)
var beforeDialFunc sync.Map // address string -> func()

func init() {
	verifhook.Set("swarm.limiter.beforeDialFunc", func(_ string, arg any) {
		if a, ok := arg.(ma.Multiaddr); ok {
			if f, ok := beforeDialFunc.Load(a.String()); ok {
				f.(func())()
			}
		}
	})
}

// ctxEndsBeforeDial: "blocks public UDP (or IPv6) addresses only after a full observation window in
// which fewer than the required number of dials succeeded". Dial attempts whose context ends after the
// limiter let them through but before any transport was asked are no observation at all: 2N such
// attempts to public UDP addresses (zero transport dials, by the transports' own log) must leave the
// detector where it was, and the next ordinary dial of a public UDP address must reach its transport.
func ctxEndsBeforeDial(r *run.R) {
	pool := peerPool()
	for _, n := range []int{2, 4} {
		caseID := fmt.Sprintf("swarm/ctx-ends-between-limiter-and-dial/N=%d", n)
		if !r.Want(caseID) {
			continue
		}
		var hooked, transportDials, lateDials int
		var stateAfter, lastErr string
		var refused bool
		b := run.Bubble(r.T, func(*testing.T) {
			udp := &swarm.BlackHoleSuccessCounter{N: n, MinSuccesses: 1, Name: "UDP"}
			ip6 := &swarm.BlackHoleSuccessCounter{N: n, MinSuccesses: 1, Name: "IPv6"}
			rig, err := swarmrig.New(62, func(tpt string, a ma.Multiaddr, p peer.ID, attempt int) scripttpt.Outcome {
				return scripttpt.Outcome{Kind: "ok", Delay: time.Millisecond}
			}, swarm.WithUDPBlackHoleSuccessCounter(udp), swarm.WithIPv6BlackHoleSuccessCounter(ip6), swarm.WithDialTimeout(dialTimeout), swarm.WithDialTimeoutLocal(dialTimeout))
			if err != nil {
				panic(err)
			}
			defer func() { rig.Swarm.Close(); rig.PS.Close() }()
			for i := 0; i < 2*n; i++ {
				pid := pool[i]
				a := ma.StringCast(fmt.Sprintf("/ip4/15.%d.7.%d/udp/4001/quic-v1", n, i+1))
				rig.PS.AddAddrs(pid, []ma.Multiaddr{a}, peerstore.PermanentAddrTTL)
				ctx, cancel := context.WithCancel(context.Background())
				beforeDialFunc.Store(a.String(), func() {
					hooked++
					cancel()
					time.Sleep(time.Millisecond) // the caller leaves, the shared dial is given up
				})
				_, err := rig.Swarm.DialPeer(ctx, pid)
				cancel()
				beforeDialFunc.Delete(a.String())
				if err != nil {
					lastErr = err.Error()
				}
				time.Sleep(10 * time.Millisecond)
			}
			transportDials = len(rig.Log.Records())
			stateAfter = snap(udp)
			pid := pool[2*n]
			a := ma.StringCast(fmt.Sprintf("/ip4/15.%d.8.1/udp/4001/quic-v1", n))
			rig.PS.AddAddrs(pid, []ma.Multiaddr{a}, peerstore.PermanentAddrTTL)
			ctx, cancel := context.WithTimeout(context.Background(), time.Minute)
			_, err = rig.Swarm.DialPeer(ctx, pid)
			cancel()
			refused = err != nil && errors.Is(err, swarm.ErrDialRefusedBlackHole)
			if err != nil {
				lastErr = err.Error()
			}
			lateDials = len(rig.Log.Records()) - transportDials
		})
		r.Eval(1)
		detail := map[string]any{"N": n, "attempts_cancelled_at_the_hook": hooked, "transport_dials_during_those_attempts": transportDials,
			"udp_counter_afterwards": stateAfter, "ordinary_dial_reached_a_transport": lateDials > 0, "last_error": lastErr}
		if r.BubbleFailed(b, "swarm", caseID, "the swarm never wound down", detail) {
			continue
		}
		r.Count("sw_dial_attempts_cancelled_between_limiter_and_dial", hooked)
		if hooked == 0 || transportDials != 0 {
			r.Count("sw_ctx_end_placement_missed", 1) // the caller's cancel did not land where intended: nothing to judge
			continue
		}
		if refused || lateDials == 0 {
			r.Violation("swarm:blocked-without-a-window-of-observed-dials/ctx-ended-before-dial", caseID,
				fmt.Sprintf("%d dial attempts to public UDP addresses ended before any transport was asked (0 transport dials); afterwards an ordinary dial of a public UDP address was refused (counter: %s)", hooked, stateAfter), detail)
			continue
		}
		r.Nontrivial(caseID)
	}
	r.Require("sw_dial_attempts_cancelled_between_limiter_and_dial", 4)
}
