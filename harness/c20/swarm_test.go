// C20, swarm-level part: how the REAL swarm.Swarm uses the black-hole detector when dialing.
//
// A real swarm on scripted transports (rig/swarmrig, rig/scripttpt) runs in a synctest bubble with two
// small success counters passed through the swarm options. A generated history is a sequence of steps;
// each step launches one DialPeer (sequential families) or a few DialPeers at the same virtual instant
// (concurrent family) to FRESH peers whose address sets mix public/private, UDP(quic-v1)/TCP,
// IPv4/IPv6 and relay addresses, waits for all of them and for every transport dial to wind down
// (quiescence), and records: which addresses were handed to a transport (dial log), how each of those
// dials ended and when (virtual), the DialPeer result, and the counters' State().
//
// Observation is exact by construction: every scripted success takes >= 3 virtual seconds, longer than
// the sum of all dial-ranking delays, and the peers are fresh (no backoff, no dedup), so an address
// that passed the filter is always handed to its transport before the DialPeer can end; "not handed to
// a transport" therefore means "withheld by the swarm's address filtering".
//
// Oracle: a nondeterministic reference written from the statement. It keeps the SET of model
// configurations (per kind: results since the last reset, at most the last N; bookkeeping for the
// probe clause) that explain everything observed so far. Requests: every configuration offers the
// verdicts the statement permits (window not full: let through; full and enough successes: let
// through; Blocked: refuse, or let through as the probe - at least one and at most one probe in N
// consecutive requests, phase free), the verdicts of the two kinds determine which addresses may be
// withheld, and only configurations whose prediction equals the observed hand-over survive. Results:
// only dials of public UDP / public IPv6 addresses count, in the order of their virtual end times
// (ties: every order; a dial cancelled because the DialPeer was already answered: counted as a
// failure or not counted - the statement does not say). An empty set is a violation.
package c20

import (
	"bytes"
	"context"
	"crypto/sha256"
	"errors"
	"fmt"
	"math/rand/v2"
	"os"
	"reflect"
	"sort"
	"strings"
	"sync"
	"testing"
	"testing/synctest"
	"time"

	"github.com/libp2p/go-libp2p/core/crypto"
	"github.com/libp2p/go-libp2p/core/network"
	"github.com/libp2p/go-libp2p/core/peer"
	"github.com/libp2p/go-libp2p/core/peerstore"
	"github.com/libp2p/go-libp2p/p2p/net/swarm"
	ma "github.com/multiformats/go-multiaddr"
	manet "github.com/multiformats/go-multiaddr/net"

	"verif/harness/rig/run"
	"verif/harness/rig/scripttpt"
	"verif/harness/rig/swarmrig"
)

// ---------------------------------------------------------------------------------------------------
// generated cases

const (
	kUDP = 0
	kIP6 = 1
)

var kindName = [2]string{"udp", "ipv6"}

type addrSpec struct {
	Addr   string `json:"addr"`
	Class  string `json:"class"`
	Public bool   `json:"public"`
	UDP    bool   `json:"udp"`
	IP6    bool   `json:"ip6"`
	Kind   string `json:"script"` // ok | fail | hang
	DelayU int    `json:"delay_us"`
	Late   bool   `json:"ignores_cancel,omitempty"`
}

type dialSpec struct {
	Op    string     `json:"op"` // dial | candial | redial (DialPeer to the last peer that is still connected)
	RO    bool       `json:"read_only_swarm,omitempty"`
	Peer  int        `json:"peer"`
	Addrs []addrSpec `json:"addrs,omitempty"`
}

type stepSpec struct {
	Weather string     `json:"weather"`
	Dials   []dialSpec `json:"dials"`
}

type history struct {
	ID      string     `json:"id"`
	Fam     string     `json:"family"`
	N       [2]int     `json:"window_N"` // [udp, ipv6]
	Min     [2]int     `json:"min_successes"`
	Enabled [2]bool    `json:"counter_present"`
	Ranker  string     `json:"ranker"`
	Steps   []stepSpec `json:"steps"`
}

func (h *history) hasRO() bool {
	for _, s := range h.Steps {
		for _, d := range s.Dials {
			if d.RO {
				return true
			}
		}
	}
	return false
}

type classDef struct {
	name             string
	public, udp, ip6 bool
	weight           int
	mk               func(c int) string
}

var (
	poolOnce sync.Once
	poolIDs  []peer.ID
)

const poolSize = 640

// peers are data: identities derived from fixed seeds, the same in every process
func peerPool() []peer.ID {
	poolOnce.Do(func() {
		for i := 0; i < poolSize; i++ {
			seed := sha256.Sum256([]byte(fmt.Sprintf("c20-swarm-peer-%d", i)))
			_, pub, err := crypto.GenerateEd25519Key(bytes.NewReader(append(seed[:], seed[:]...)))
			if err != nil {
				panic(err)
			}
			id, err := peer.IDFromPublicKey(pub)
			if err != nil {
				panic(err)
			}
			poolIDs = append(poolIDs, id)
		}
	})
	return poolIDs
}

func classes() []classDef {
	relay := peerPool()[poolSize-1].String()
	abc := func(c int) string { return fmt.Sprintf("%d.%d.%d", (c>>16)&255, (c>>8)&255, c&255) }
	hx := func(c int) string { return fmt.Sprintf("%x:%x", ((c+1)>>16)&0xffff, (c+1)&0xffff) }
	return []classDef{
		{"pubUDP4", true, true, false, 30, func(c int) string { return "/ip4/11." + abc(c) + "/udp/4001/quic-v1" }},
		{"pubUDP6", true, true, true, 16, func(c int) string { return "/ip6/2604:1::" + hx(c) + "/udp/4001/quic-v1" }},
		{"pubTCP4", true, false, false, 18, func(c int) string { return "/ip4/12." + abc(c) + "/tcp/4001" }},
		{"pubTCP6", true, false, true, 12, func(c int) string { return "/ip6/2604:2::" + hx(c) + "/tcp/4001" }},
		{"nat64UDP6", true, true, true, 2, func(c int) string {
			return fmt.Sprintf("/ip6/64:ff9b::b%02x:%x/udp/4001/quic-v1", ((c+1)>>16)&255, (c+1)&0xffff)
		}},
		{"privUDP4", false, true, false, 8, func(c int) string { return "/ip4/10." + abc(c) + "/udp/4001/quic-v1" }},
		{"privTCP4", false, false, false, 5, func(c int) string { return fmt.Sprintf("/ip4/192.168.%d.%d/tcp/4001", (c>>8)&255, c&255) }},
		{"privUDP6", false, true, true, 4, func(c int) string { return "/ip6/fd00::" + hx(c) + "/udp/4001/quic-v1" }},
		{"privTCP6", false, false, true, 2, func(c int) string { return "/ip6/fd00:1::" + hx(c) + "/tcp/4001" }},
		// neither public nor private for go-multiaddr/net (benchmark net, documentation prefix, class E):
		// the statement only ever speaks of PUBLIC addresses - these are never removed and their dial
		// outcomes are no observation of the public internet
		{"unroutableUDP4", false, true, false, 5, func(c int) string { return fmt.Sprintf("/ip4/198.18.%d.%d/udp/4001/quic-v1", (c>>8)&255, c&255) }},
		{"docUDP6", false, true, true, 4, func(c int) string { return "/ip6/2001:db8::" + hx(c) + "/udp/4001/quic-v1" }},
		{"classEUDP4", false, true, false, 2, func(c int) string { return fmt.Sprintf("/ip4/240.1.%d.%d/udp/4001/quic-v1", (c>>8)&255, c&255) }},
		{"loopUDP4", false, true, false, 2, func(c int) string { return fmt.Sprintf("/ip4/127.0.%d.1/udp/%d/quic-v1", (c>>14)&255, 1024+c&16383) }},
		{"relayTCP4", true, false, false, 3, func(c int) string { return "/ip4/13." + abc(c) + "/tcp/4001/p2p/" + relay + "/p2p-circuit" }},
		{"relayUDP4", true, true, false, 2, func(c int) string {
			return "/ip4/14." + abc(c) + "/udp/4001/quic-v1/p2p/" + relay + "/p2p-circuit"
		}},
	}
}

type weather struct {
	name         string
	udpOK, ip6OK bool
}

var weathers = []weather{{"fine", true, true}, {"udp-blackholed", false, true}, {"ipv6-blackholed", true, false}, {"both-blackholed", false, false}}

type gen struct {
	rng   *rand.Rand
	cls   []classDef
	wsum  int
	addrC int
	peerC int
	flaky float64
}

func (g *gen) addr(w weather, onlyClass int) addrSpec {
	ci := onlyClass
	if ci < 0 {
		x := g.rng.IntN(g.wsum)
		for i, c := range g.cls {
			if x < c.weight {
				ci = i
				break
			}
			x -= c.weight
		}
	}
	c := g.cls[ci]
	g.addrC++
	a := addrSpec{Addr: ma.StringCast(c.mk(g.addrC)).String(), Class: c.name, Public: c.public, UDP: c.udp, IP6: c.ip6}
	var ok bool
	switch {
	case !c.public:
		ok = g.rng.Float64() < 0.15
	case strings.HasPrefix(c.name, "relayTCP"):
		ok = g.rng.Float64() < 0.3
	case !c.udp && !c.ip6:
		ok = g.rng.Float64() < 0.6
	default:
		ok = (!c.udp || w.udpOK) && (!c.ip6 || w.ip6OK)
		if g.rng.Float64() < g.flaky {
			ok = !ok
		}
		if ok && strings.HasPrefix(c.name, "relay") {
			ok = g.rng.IntN(2) == 0
		}
	}
	// every delay is a whole number of milliseconds plus a residue that is unique within the step (set
	// by the caller), so that a success and a failure never end at the same virtual instant unless a
	// case asks for it
	if ok {
		a.Kind, a.DelayU = "ok", (3000+g.rng.IntN(3000))*1000
	} else {
		switch x := g.rng.IntN(100); {
		case x < 60:
			a.Kind, a.DelayU = "fail", (5+g.rng.IntN(2500))*1000
		case x < 85:
			a.Kind = "hang"
		default:
			a.Kind, a.DelayU, a.Late = "fail", (6500+g.rng.IntN(3000))*1000, true
		}
	}
	return a
}

func (g *gen) dial(w weather, ro bool) dialSpec {
	d := dialSpec{Op: "dial", RO: ro, Peer: g.peerC}
	g.peerC++
	n := 1 + g.rng.IntN(5)
	if g.rng.IntN(6) == 0 { // a peer with a single public UDP or IPv6 address: refused as a whole while blocked
		d.Addrs = append(d.Addrs, g.addr(w, g.rng.IntN(4)))
		return d
	}
	for i := 0; i < n; i++ {
		d.Addrs = append(d.Addrs, g.addr(w, -1))
	}
	return d
}

// genHistory makes one case. Families: "seq" (one DialPeer at a time on the regular swarm, plus CanDial
// queries and re-dials of a connected peer), "ro" (as seq, interleaved with dials of a read-only swarm
// that shares the counters; judged also against its twin without the read-only traffic), "conc" (groups
// of DialPeers launched at the same virtual instant, regular and read-only mixed).
func genHistory(r *run.R, fam string, idx int, maxSteps int) *history {
	rng := r.Rand(2020, uint64(len(fam)), uint64(idx))
	h := &history{ID: fmt.Sprintf("swarm/%s/%d", fam, idx), Fam: fam, Ranker: "default"}
	if rng.IntN(4) == 0 {
		h.Ranker = "nodelay"
	}
	for k := 0; k < 2; k++ {
		h.Enabled[k] = rng.IntN(10) != 0
		h.N[k] = 2 + rng.IntN(5)
		switch x := rng.IntN(10); {
		case x == 0:
			h.Min[k] = 0
		case x == 1:
			h.Min[k] = h.N[k]
		default:
			h.Min[k] = 1 + rng.IntN(h.N[k])
		}
	}
	g := &gen{rng: rng, cls: classes(), flaky: []float64{0, 0, 0.1, 0.3}[rng.IntN(4)]}
	for _, c := range g.cls {
		g.wsum += c.weight
	}
	maxN := max(h.N[0], h.N[1])
	w := weathers[rng.IntN(len(weathers))]
	left := 0
	for len(h.Steps) < maxSteps && g.peerC < poolSize-12 {
		if left == 0 {
			nw := weathers[rng.IntN(len(weathers))]
			for nw == w {
				nw = weathers[rng.IntN(len(weathers))]
			}
			w = nw
			left = maxN + rng.IntN(2*maxN+3)
		}
		left--
		st := stepSpec{Weather: w.name}
		switch fam {
		case "seq", "ro":
			switch x := rng.IntN(100); {
			case x < 8:
				d := dialSpec{Op: "candial", Peer: g.peerC, Addrs: []addrSpec{g.addr(w, -1)}}
				g.peerC++
				st.Dials = append(st.Dials, d)
			case x < 12:
				st.Dials = append(st.Dials, dialSpec{Op: "redial"})
			default:
				st.Dials = append(st.Dials, g.dial(w, false))
			}
		case "conc":
			n := 1 + rng.IntN(4)
			for i := 0; i < n; i++ {
				st.Dials = append(st.Dials, g.dial(w, rng.IntN(5) == 0))
			}
			if rng.IntN(5) == 0 { // ask for ties: equal whole delays, no residue
				for di := range st.Dials {
					for ai := range st.Dials[di].Addrs {
						a := &st.Dials[di].Addrs[ai]
						if a.Kind != "hang" && !a.Late {
							a.DelayU = 4000 * 1000
						}
					}
				}
				st.Weather += "+ties"
			}
		}
		if !strings.HasSuffix(st.Weather, "+ties") {
			res := 0
			for di := range st.Dials {
				for ai := range st.Dials[di].Addrs {
					res++
					st.Dials[di].Addrs[ai].DelayU += res
				}
			}
		}
		h.Steps = append(h.Steps, st)
		if fam == "ro" && rng.IntN(3) == 0 {
			ro := stepSpec{Weather: w.name}
			if rng.IntN(6) == 0 {
				d := dialSpec{Op: "candial", RO: true, Peer: g.peerC, Addrs: []addrSpec{g.addr(w, -1)}}
				g.peerC++
				ro.Dials = append(ro.Dials, d)
			} else {
				ro.Dials = append(ro.Dials, g.dial(w, true))
			}
			for ai := range ro.Dials[0].Addrs {
				ro.Dials[0].Addrs[ai].DelayU += ai + 1
			}
			h.Steps = append(h.Steps, ro)
		}
	}
	return h
}

// withoutRO is the twin of a history: the same steps without the read-only swarm's traffic.
func withoutRO(h *history) *history {
	t := *h
	t.ID += "/twin"
	t.Steps = nil
	for _, s := range h.Steps {
		var ds []dialSpec
		for _, d := range s.Dials {
			if !d.RO {
				ds = append(ds, d)
			}
		}
		if len(ds) > 0 {
			t.Steps = append(t.Steps, stepSpec{Weather: s.Weather, Dials: ds})
		}
	}
	return &t
}

// ---------------------------------------------------------------------------------------------------
// execution on the real swarm

type recObs struct {
	Result string `json:"result"` // ok | fail | cancelled
	CtxErr string `json:"ctx_err,omitempty"`
	EndU   int64  `json:"end_us"` // virtual, since the step began
}

type dialObs struct {
	Returned bool      `json:"returned"`
	Skipped  bool      `json:"skipped,omitempty"` // redial with no connected peer
	OK       bool      `json:"ok"`
	Err      string    `json:"err,omitempty"`
	Handed   []*recObs `json:"handed_to_transport"`  // per address of the spec; null: never handed to a transport
	BHErr    []bool    `json:"reported_black_holed"` // per address: DialError lists it with ErrDialRefusedBlackHole
	IsBH     bool      `json:"is_black_hole_error,omitempty"`
	NoGood   bool      `json:"no_good_addresses,omitempty"`
	Stray    int       `json:"stray_dial_records,omitempty"` // dial records the spec does not explain
}

type stepObs struct {
	Dials      []dialObs `json:"dials"`
	State      [2]string `json:"state_after"`
	SnapBefore [2]string `json:"-"`
	SnapAfter  [2]string `json:"snapshot_after"`
	Inflight   int       `json:"inflight_after,omitempty"`
}

type histObs struct {
	Steps  []stepObs
	Stuck  string
	bubble run.BubbleResult
}

// snap reads a counter without changing it: State() plus, where the tree still has them, the unexported
// fields (reflection, read only). State() locks the counter's mutex first, which orders this read after
// every earlier update; the caller is at a quiescent point.
func snap(c *swarm.BlackHoleSuccessCounter) string {
	if c == nil {
		return "none"
	}
	s := "state=" + c.State().String()
	if os.Getenv("C20_NO_SNAP") == "1" { // mutation trials only: what the twin comparison finds by itself
		return s
	}
	v := reflect.ValueOf(c).Elem()
	if f := v.FieldByName("requests"); f.IsValid() && f.CanInt() {
		s += fmt.Sprintf(" requests=%d", f.Int())
	}
	if f := v.FieldByName("successes"); f.IsValid() && f.CanInt() {
		s += fmt.Sprintf(" successes=%d", f.Int())
	}
	if f := v.FieldByName("dialResults"); f.IsValid() && f.Kind() == reflect.Slice && f.Type().Elem().Kind() == reflect.Bool {
		s += " window="
		for i := 0; i < f.Len(); i++ {
			if f.Index(i).Bool() {
				s += "t"
			} else {
				s += "f"
			}
		}
	}
	return s
}

const (
	dialTimeout = 20 * time.Second
	settle      = 45 * time.Second
)

func runHistory(t *testing.T, h *history) (obs histObs) {
	pool := peerPool()
	obs.bubble = run.Bubble(t, func(t *testing.T) {
		var cnt [2]*swarm.BlackHoleSuccessCounter
		for k := 0; k < 2; k++ {
			if h.Enabled[k] {
				cnt[k] = &swarm.BlackHoleSuccessCounter{N: h.N[k], MinSuccesses: h.Min[k], Name: kindName[k]}
			}
		}
		var mu sync.Mutex
		script := map[string]*addrSpec{}
		sf := func(tpt string, a ma.Multiaddr, p peer.ID, attempt int) scripttpt.Outcome {
			mu.Lock()
			sp := script[a.String()]
			mu.Unlock()
			if sp == nil {
				return scripttpt.Outcome{Kind: "fail", Delay: time.Millisecond}
			}
			return scripttpt.Outcome{Kind: sp.Kind, Delay: time.Duration(sp.DelayU) * time.Microsecond, IgnoreCancel: sp.Late}
		}
		// the options the libp2p constructor uses (config.go): the same two counters for the host's swarm
		// and, with WithReadOnlyBlackHoleDetector, for the AutoNAT dialer's swarm
		opts := []swarm.Option{swarm.WithUDPBlackHoleSuccessCounter(cnt[kUDP]), swarm.WithIPv6BlackHoleSuccessCounter(cnt[kIP6]),
			swarm.WithDialTimeout(dialTimeout), swarm.WithDialTimeoutLocal(dialTimeout)}
		if h.Ranker == "nodelay" {
			opts = append(opts, swarm.WithDialRanker(swarm.NoDelayDialRanker))
		}
		reg, err := swarmrig.New(60, sf, opts...)
		if err != nil {
			panic(err)
		}
		var ro *swarmrig.Rig
		if h.hasRO() {
			if ro, err = swarmrig.New(61, sf, append(append([]swarm.Option{}, opts...), swarm.WithReadOnlyBlackHoleDetector())...); err != nil {
				panic(err)
			}
		}
		waitV := func(f func(), d time.Duration) bool {
			done := make(chan struct{})
			go func() { f(); close(done) }()
			select {
			case <-done:
				return true
			case <-time.After(d):
				return false
			}
		}
		closeAll := func() {
			waitV(func() { reg.Swarm.Close() }, time.Minute)
			reg.PS.Close()
			if ro != nil {
				waitV(func() { ro.Swarm.Close() }, time.Minute)
				ro.PS.Close()
			}
		}
		var lastConn network.Conn // the connected peer a "redial" step dials again
		for si := range h.Steps {
			st := &h.Steps[si]
			so := stepObs{Dials: make([]dialObs, len(st.Dials))}
			mu.Lock()
			for di := range st.Dials {
				for ai := range st.Dials[di].Addrs {
					script[st.Dials[di].Addrs[ai].Addr] = &st.Dials[di].Addrs[ai]
				}
			}
			mu.Unlock()
			for k := 0; k < 2; k++ {
				so.SnapBefore[k] = snap(cnt[k])
			}
			baseReg, baseRO := len(reg.Log.Records()), 0
			if ro != nil {
				baseRO = len(ro.Log.Records())
			}
			t0 := time.Now()
			conns := make([]network.Conn, len(st.Dials))
			var wg sync.WaitGroup
			for di := range st.Dials {
				d, o := &st.Dials[di], &so.Dials[di]
				rig := reg
				if d.RO {
					rig = ro
				}
				pid := pool[d.Peer]
				var maddrs []ma.Multiaddr
				for _, a := range d.Addrs {
					maddrs = append(maddrs, ma.StringCast(a.Addr))
				}
				switch d.Op {
				case "redial":
					if lastConn == nil || lastConn.IsClosed() {
						o.Skipped, o.Returned = true, true
						continue
					}
					pid = lastConn.RemotePeer()
				case "dial":
					rig.PS.AddAddrs(pid, maddrs, peerstore.PermanentAddrTTL)
				}
				wg.Add(1)
				go func() {
					defer wg.Done()
					if d.Op == "candial" {
						o.OK = rig.Swarm.CanDial(pid, maddrs[0])
						o.Returned = true
						return
					}
					c, err := rig.Swarm.DialPeer(context.Background(), pid)
					o.Returned, o.OK = true, err == nil
					if err != nil {
						o.Err = err.Error()
						o.IsBH = errors.Is(err, swarm.ErrDialRefusedBlackHole)
						var de *swarm.DialError
						if errors.As(err, &de) {
							o.NoGood = de.Cause == swarm.ErrNoGoodAddresses
							o.BHErr = make([]bool, len(d.Addrs))
							for _, te := range de.DialErrors {
								if te.Cause == swarm.ErrDialRefusedBlackHole {
									for ai := range d.Addrs {
										if d.Addrs[ai].Addr == te.Address.String() {
											o.BHErr[ai] = true
										}
									}
								}
							}
						}
					} else {
						conns[di] = c
					}
				}()
			}
			if !waitV(wg.Wait, 5*time.Minute) {
				obs.Stuck = fmt.Sprintf("step %d: a DialPeer call had not returned after 5 virtual minutes", si)
				closeAll()
				return
			}
			// late transports, dial timeouts and cancelled dials wind down
			time.Sleep(settle)
			synctest.Wait()
			so.Inflight = reg.Log.Inflight()
			recsReg := reg.Log.Records()[baseReg:]
			var recsRO []scripttpt.DialRecord
			if ro != nil {
				so.Inflight += ro.Log.Inflight()
				recsRO = ro.Log.Records()[baseRO:]
			}
			for di := range st.Dials {
				d, o := &st.Dials[di], &so.Dials[di]
				if d.Op != "dial" {
					if d.Op == "redial" && !o.Skipped {
						for _, rc := range recsReg {
							if rc.Peer == lastConn.RemotePeer() {
								o.Stray++
							}
						}
					}
					continue
				}
				recs := recsReg
				if d.RO {
					recs = recsRO
				}
				o.Handed = make([]*recObs, len(d.Addrs))
				for _, rc := range recs {
					if rc.Peer != pool[d.Peer] {
						continue
					}
					found := false
					for ai := range d.Addrs {
						if d.Addrs[ai].Addr == rc.Addr && o.Handed[ai] == nil {
							rec := &recObs{Result: rc.Result, CtxErr: rc.CtxErr, EndU: rc.End.Sub(t0).Microseconds()}
							if !rc.Done {
								rec.Result = "unfinished"
							}
							o.Handed[ai] = rec
							found = true
							break
						}
					}
					if !found {
						o.Stray++
					}
				}
			}
			for k := 0; k < 2; k++ {
				so.SnapAfter[k] = snap(cnt[k])
				so.State[k] = "none"
				if cnt[k] != nil {
					so.State[k] = cnt[k].State().String()
				}
			}
			// connections are closed again, except the latest one of the regular swarm (redial target)
			for di, c := range conns {
				if c == nil {
					continue
				}
				if !st.Dials[di].RO && st.Dials[di].Op == "dial" {
					if lastConn != nil {
						lastConn.Close()
					}
					lastConn = c
				} else if st.Dials[di].Op == "dial" {
					c.Close()
				}
			}
			synctest.Wait()
			obs.Steps = append(obs.Steps, so)
		}
		closeAll()
	})
	return
}

// ---------------------------------------------------------------------------------------------------
// oracle

// kcfg is the reference state of one kind in one configuration.
type kcfg struct {
	win        string // results since the last reset, at most the last N ('t' success, 'f' failure)
	refusedRun int    // consecutive requests refused while Blocked since the last probe / since Blocked began
	sinceProbe int    // requests answered since the last probe while continuously Blocked (-1: no probe yet)
}

type config [2]kcfg

const (
	vThrough = iota // window full and enough successes, counter absent, or no such address in the request
	vProbing        // let through because the window is not full yet, or as the probe while Blocked
	vRefused
)

const (
	relaxRun     = 1 // diagnosis only: do not demand a probe within N requests
	relaxSpacing = 2 // diagnosis only: do not demand N requests between two probes
)

type finding struct{ sig, msg string }

// C20_NO_STATE=1 (mutation trials only): judge from the hand-over of addresses alone, without reading
// the counters' State() after each step.
var noStateObservation = os.Getenv("C20_NO_STATE") == "1"

type oracle struct {
	h   *history
	set map[config]struct{}
	st  map[string]int
	// per kind: the model was Blocked in every configuration and a success was recorded; cleared when the
	// next request with such addresses has been judged
	justReset [2]bool
}

func newOracle(h *history) *oracle {
	return &oracle{h: h, set: map[config]struct{}{{{sinceProbe: -1}, {sinceProbe: -1}}: {}}, st: map[string]int{}}
}

// "blocks ... only after a full observation window in which fewer than the required number of dials succeeded"
func (o *oracle) state(k int, win string) string {
	if len(win) < o.h.N[k] {
		return "Probing"
	}
	if strings.Count(win, "t") >= o.h.Min[k] {
		return "Allowed"
	}
	return "Blocked"
}

func (o *oracle) record(k int, c kcfg, success bool) kcfg {
	// "A single success while blocked clears the state"
	if o.state(k, c.win) == "Blocked" && success {
		return kcfg{sinceProbe: -1}
	}
	if success {
		c.win += "t"
	} else {
		c.win += "f"
	}
	if len(c.win) > o.h.N[k] {
		c.win = c.win[1:]
	}
	if o.state(k, c.win) != "Blocked" {
		c.refusedRun, c.sinceProbe = 0, -1
	}
	return c
}

type choice struct {
	v    int
	next kcfg
}

// choices: the verdicts the statement permits for one kind on one request.
func (o *oracle) choices(k int, c kcfg, relevant, readOnly bool, relax int) []choice {
	// "never removes a private address or an address of the other kind": a counter is only consulted by
	// requests that contain a public address of its kind
	if !o.h.Enabled[k] || !relevant {
		return []choice{{vThrough, c}}
	}
	st := o.state(k, c.win)
	if readOnly {
		// "in read-only mode it refuses unless the state is known-good and never changes state"
		if st == "Allowed" {
			return []choice{{vThrough, c}}
		}
		return []choice{{vRefused, c}}
	}
	switch st {
	case "Allowed":
		return []choice{{vThrough, c}}
	case "Probing":
		return []choice{{vProbing, c}}
	}
	// Blocked: "even while blocking lets one request in every window-size requests through as a probe"
	// (at least one and at most one probe in N consecutive requests; the phase is free)
	var out []choice
	if relax&relaxRun != 0 || c.refusedRun+1 < o.h.N[k] {
		n := c
		n.refusedRun++
		if n.sinceProbe >= 0 {
			n.sinceProbe++
		}
		out = append(out, choice{vRefused, n})
	}
	if relax&relaxSpacing != 0 || c.sinceProbe < 0 || c.sinceProbe+1 >= o.h.N[k] {
		n := c
		n.refusedRun, n.sinceProbe = 0, 0
		out = append(out, choice{vProbing, n})
	}
	return out
}

// expectHanded: which addresses go to the transports under a pair of verdicts. Private addresses
// always; a public address is withheld iff a counter of its kind refuses and no counter of its kind
// probes (a probe lets all addresses of its kind through).
func expectHanded(a *addrSpec, v [2]int) bool {
	if !a.Public {
		return true
	}
	probing := (a.UDP && v[kUDP] == vProbing) || (a.IP6 && v[kIP6] == vProbing)
	refused := (a.UDP && v[kUDP] == vRefused) || (a.IP6 && v[kIP6] == vRefused)
	return !(refused && !probing)
}

func relevant(d *dialSpec) (rel [2]bool) {
	for i := range d.Addrs {
		a := &d.Addrs[i]
		if a.Public && a.UDP {
			rel[kUDP] = true
		}
		if a.Public && a.IP6 {
			rel[kIP6] = true
		}
	}
	return
}

func handedVec(d *dialSpec, o *dialObs) []bool {
	out := make([]bool, len(d.Addrs))
	if d.Op == "candial" {
		out[0] = o.OK
		return out
	}
	for i := range out {
		out[i] = o.Handed[i] != nil
	}
	return out
}

func permute(xs []int, f func([]int)) {
	var rec func(i int)
	rec = func(i int) {
		if i == len(xs) {
			f(xs)
			return
		}
		for j := i; j < len(xs); j++ {
			xs[i], xs[j] = xs[j], xs[i]
			rec(i + 1)
			xs[i], xs[j] = xs[j], xs[i]
		}
	}
	rec(0)
}

// assignment: one way in which one kind's counter may have answered the requests of a step: the verdict
// per request (indexed like reqs) and the reference state afterwards.
type assignment struct {
	v     string
	final kcfg
}

// kindAssignments enumerates them. Requests launched at the same instant reach a counter in an unknown
// order, and the two counters need not see them in the same order (the real filter asks one counter
// after the other, and two concurrent filter calls interleave): every order is admitted, per kind.
func (o *oracle) kindAssignments(k int, c kcfg, st *stepSpec, reqs []int, relax int) map[assignment]struct{} {
	out := map[assignment]struct{}{}
	rel := make([]bool, len(reqs))
	var movers []int // positions in reqs whose answer depends on, or changes, the probe bookkeeping
	blocked := o.h.Enabled[k] && o.state(k, c.win) == "Blocked"
	for i, di := range reqs {
		rel[i] = relevant(&st.Dials[di])[k]
		if blocked && rel[i] && !st.Dials[di].RO {
			movers = append(movers, i)
		}
	}
	base := make([]byte, len(reqs))
	for i, di := range reqs {
		ch := o.choices(k, c, rel[i], st.Dials[di].RO, relax)
		base[i] = byte('0' + ch[0].v) // a single choice unless it is a mover
	}
	if len(movers) == 0 {
		out[assignment{string(base), c}] = struct{}{}
		return out
	}
	permute(movers, func(order []int) {
		var rec func(n int, cur kcfg, v []byte)
		rec = func(n int, cur kcfg, v []byte) {
			if n == len(order) {
				out[assignment{string(v), cur}] = struct{}{}
				return
			}
			i := order[n]
			d := &st.Dials[reqs[i]]
			old := v[i]
			for _, ch := range o.choices(k, cur, true, false, relax) {
				v[i] = byte('0' + ch.v)
				rec(n+1, ch.next, v)
			}
			if d.Op == "candial" {
				// whether a CanDial query is one of the "requests" of the probe clause is not determined by
				// the statement: also admit any answer the state permits, leaving the probe bookkeeping alone
				for _, ch := range o.choices(k, cur, true, false, relaxRun|relaxSpacing) {
					v[i] = byte('0' + ch.v)
					rec(n+1, cur, v)
				}
			}
			v[i] = old
		}
		rec(0, c, append([]byte(nil), base...))
	})
	return out
}

// requests: the configurations that explain which addresses of the step's requests were handed over.
func (o *oracle) requests(st *stepSpec, so *stepObs, relax int) map[config]struct{} {
	var reqs []int
	var handed [][]bool
	for di := range st.Dials {
		if st.Dials[di].Op != "redial" {
			reqs = append(reqs, di)
			handed = append(handed, handedVec(&st.Dials[di], &so.Dials[di]))
		}
	}
	next := map[config]struct{}{}
	for c := range o.set {
		au := o.kindAssignments(kUDP, c[kUDP], st, reqs, relax)
		a6 := o.kindAssignments(kIP6, c[kIP6], st, reqs, relax)
		for u := range au {
			for s := range a6 {
				ok := true
				for i, di := range reqs {
					d := &st.Dials[di]
					v := [2]int{int(u.v[i] - '0'), int(s.v[i] - '0')}
					for ai := range d.Addrs {
						if expectHanded(&d.Addrs[ai], v) != handed[i][ai] {
							ok = false
							break
						}
					}
					if !ok {
						break
					}
				}
				if ok {
					next[config{u.final, s.final}] = struct{}{}
				}
			}
		}
	}
	return next
}

type resEv struct {
	end     int64
	dial    int // index of the DialPeer in the step
	kind    int // 0 success, 1 failure, 2 cancelled after the DialPeer had been answered
	applies [2]bool
}

const (
	cancelBoth = iota
	cancelFail
	cancelSkip
)

// results applies the dial outcomes of one step to a set of configurations, in the order of their
// virtual end times. Outcomes that ended at the same instant were recorded in an unknown order: every
// order is admitted, except that a dial cancelled because its DialPeer had been answered comes after a
// success of that DialPeer (its cause). evs holds every success of the step (also those that no counter
// looks at: they can be the cause of a cancellation) and the failures/cancellations that count.
func (o *oracle) results(set map[config]struct{}, evs []resEv, cancelMode int, count bool) map[config]struct{} {
	apply := func(cur map[config]struct{}, e resEv) map[config]struct{} {
		if !e.applies[0] && !e.applies[1] {
			return cur
		}
		nx := map[config]struct{}{}
		rec := func(success bool) {
			for c := range cur {
				for k := 0; k < 2; k++ {
					if e.applies[k] {
						c[k] = o.record(k, c[k], success)
					}
				}
				nx[c] = struct{}{}
			}
		}
		switch {
		case e.kind == 0:
			rec(true)
		case e.kind == 1 || cancelMode == cancelFail:
			rec(false)
		case cancelMode == cancelSkip:
			return cur
		default:
			// a cancelled dial did not succeed; whether it is an observed failure is left open by the statement
			rec(false)
			for c := range cur {
				nx[c] = struct{}{}
			}
		}
		return nx
	}
	answered := map[int]bool{}   // DialPeers with a success applied in an earlier group
	hasSuccess := map[int]bool{} // DialPeers with any success in this step
	for _, e := range evs {
		if e.kind == 0 {
			hasSuccess[e.dial] = true
		}
	}
	cur := set
	for i := 0; i < len(evs); {
		j := i
		for j < len(evs) && evs[j].end == evs[i].end {
			j++
		}
		grp := evs[i:j]
		i = j
		if len(grp) == 1 {
			cur = apply(cur, grp[0])
			if grp[0].kind == 0 {
				answered[grp[0].dial] = true
			}
			continue
		}
		// distinct event types of the group with their multiplicities
		var types []resEv
		var mult []int
		for _, e := range grp {
			e.end = 0
			found := false
			for ti := range types {
				if types[ti] == e {
					mult[ti]++
					found = true
				}
			}
			if !found {
				types, mult = append(types, e), append(mult, 1)
			}
		}
		if count {
			s, f := false, false
			for _, e := range grp {
				if e.applies[0] || e.applies[1] {
					s, f = s || e.kind == 0, f || e.kind != 0
				}
			}
			if s && f {
				o.st["tie_groups_mixed"]++
			}
		}
		type node struct {
			rem []int
			set map[config]struct{}
		}
		level := map[string]*node{fmt.Sprint(mult): {mult, cur}}
		for n := len(grp); n > 0; n-- {
			next := map[string]*node{}
			for _, nd := range level {
				for ti, tp := range types {
					if nd.rem[ti] == 0 {
						continue
					}
					if tp.kind == 2 && hasSuccess[tp.dial] && !answered[tp.dial] {
						caused := false
						for tj, tq := range types {
							if tq.kind == 0 && tq.dial == tp.dial && nd.rem[tj] < mult[tj] {
								caused = true
							}
						}
						if !caused {
							continue
						}
					}
					rem := append([]int(nil), nd.rem...)
					rem[ti]--
					res := apply(nd.set, tp)
					key := fmt.Sprint(rem)
					if ex := next[key]; ex != nil {
						for c := range res {
							ex.set[c] = struct{}{}
						}
					} else {
						cp := make(map[config]struct{}, len(res))
						for c := range res {
							cp[c] = struct{}{}
						}
						next[key] = &node{rem, cp}
					}
				}
			}
			level = next
		}
		cur = map[config]struct{}{}
		for _, nd := range level {
			cur = nd.set
		}
		for _, e := range grp {
			if e.kind == 0 {
				answered[e.dial] = true
			}
		}
	}
	return cur
}

func (o *oracle) allBlocked(k int) bool {
	if !o.h.Enabled[k] {
		return false
	}
	for c := range o.set {
		if o.state(k, c[k].win) != "Blocked" {
			return false
		}
	}
	return true
}

func (o *oracle) someState(k int, pred func(string) bool) bool {
	for c := range o.set {
		if pred(o.state(k, c[k].win)) {
			return true
		}
	}
	return false
}

func (o *oracle) describe() string {
	var out []string
	for c := range o.set {
		s := ""
		for k := 0; k < 2; k++ {
			if !o.h.Enabled[k] {
				s += kindName[k] + ":absent "
				continue
			}
			s += fmt.Sprintf("%s:[%s]=%s(refused-in-a-row=%d,since-probe=%d) ", kindName[k], c[k].win, o.state(k, c[k].win), c[k].refusedRun, c[k].sinceProbe)
		}
		out = append(out, strings.TrimSpace(s))
	}
	sort.Strings(out)
	if len(out) > 8 {
		out = append(out[:8], fmt.Sprintf("... %d configurations", len(o.set)))
	}
	return strings.Join(out, " | ")
}

// step judges one step; harness != "" means the harness's own assumptions did not hold (inconclusive).
func (o *oracle) step(st *stepSpec, so *stepObs) (out []finding, harness string) {
	if so.Inflight != 0 {
		return nil, "transport dials still in flight at the quiescent point"
	}
	blockedBefore := [2]bool{o.allBlocked(kUDP), o.allBlocked(kIP6)}
	anyBlocked := blockedBefore[0] || blockedBefore[1]
	pureRO := true
	for di := range st.Dials {
		d, ob := &st.Dials[di], &so.Dials[di]
		if !d.RO {
			pureRO = false
		}
		if !ob.Returned {
			return nil, "a call did not return"
		}
		if ob.Stray != 0 {
			return nil, "transport dials that the case does not explain (address dialed twice / unknown address)"
		}
		if d.Op == "redial" {
			// a peer with a live connection: no address is filtered, nothing is dialed; not a request
			if ob.Skipped {
				o.st["redial_skipped_no_connected_peer"]++
			} else if ob.OK {
				o.st["redial_connected_peer_no_request"]++
			} else {
				return nil, "re-dial of a connected peer failed: " + ob.Err
			}
			continue
		}
		rel := relevant(d)
		hv := handedVec(d, ob)
		pfx := "swarm:"
		if d.RO {
			pfx = "readonly:"
			o.st["ro_requests"]++
		}
		if d.Op == "candial" {
			o.st["candial_queries"]++
		} else {
			o.st["dialpeer_calls"]++
			for _, rc := range ob.Handed {
				if rc != nil && rc.Result == "unfinished" {
					return nil, "a transport dial never ended"
				}
			}
		}
		for k := 0; k < 2; k++ {
			if rel[k] && o.h.Enabled[k] && !d.RO {
				o.st["requests_with_public_"+kindName[k]]++
			}
		}
		withheldAll, withheldKind := true, [2]bool{}
		handedKindWhileBlocked := [2]bool{}
		for ai := range d.Addrs {
			a := &d.Addrs[ai]
			var kinds []int // the counters the statement lets decide about this address
			if a.Public && a.UDP && o.h.Enabled[kUDP] {
				kinds = append(kinds, kUDP)
			}
			if a.Public && a.IP6 && o.h.Enabled[kIP6] {
				kinds = append(kinds, kIP6)
			}
			if hv[ai] {
				withheldAll = false
				if !a.Public && anyBlocked {
					o.st["private_addr_handed_while_blocked"]++
				}
				if a.Public && len(kinds) == 0 && anyBlocked {
					o.st["other_kind_addr_handed_while_blocked"]++
				}
				if a.Public && a.UDP && !a.IP6 && blockedBefore[kIP6] && !blockedBefore[kUDP] && o.h.Enabled[kUDP] {
					o.st["udp4_addr_handed_while_only_ipv6_blocked"]++
				}
				if a.Public && !a.UDP && a.IP6 && blockedBefore[kUDP] && !blockedBefore[kIP6] && o.h.Enabled[kIP6] {
					o.st["tcp6_addr_handed_while_only_udp_blocked"]++
				}
				for _, k := range kinds {
					if blockedBefore[k] {
						handedKindWhileBlocked[k] = true
					}
				}
				if d.RO && len(kinds) > 0 {
					// "in read-only mode it refuses unless the state is known-good"
					knownGood := false
					for c := range o.set {
						all := true
						for _, k := range kinds {
							if o.state(k, c[k].win) != "Allowed" {
								all = false
							}
						}
						knownGood = knownGood || all
					}
					if !knownGood {
						out = append(out, finding{"readonly:allowed-when-not-known-good:" + a.Class, fmt.Sprintf("the read-only swarm handed %s (%s) to a transport although the state is not known-good; model: %s", a.Addr, a.Class, o.describe())})
					} else {
						o.st["ro_allowed_known_good"]++
					}
				}
				continue
			}
			// withheld
			switch {
			case !a.Public:
				// "never removes a private address"
				out = append(out, finding{pfx + "private-address-withheld:" + a.Class, fmt.Sprintf("private address %s (%s) was not handed to a transport; model: %s", a.Addr, a.Class, o.describe())})
			case len(kinds) == 0:
				// "... or an address of the other kind"
				out = append(out, finding{pfx + "other-kind-address-withheld:" + a.Class, fmt.Sprintf("address %s (%s), to which no counter applies, was not handed to a transport; model: %s", a.Addr, a.Class, o.describe())})
			case d.RO:
				notGood := false
				for _, k := range kinds {
					if o.someState(k, func(s string) bool { return s != "Allowed" }) {
						notGood = true
					}
				}
				if !notGood {
					out = append(out, finding{"readonly:refused-when-known-good:" + a.Class, fmt.Sprintf("the read-only swarm withheld %s (%s) although the state is known-good; model: %s", a.Addr, a.Class, o.describe())})
				} else {
					for _, k := range kinds {
						switch {
						case o.someState(k, func(s string) bool { return s == "Probing" }):
							o.st["ro_refused_state_unknown"]++
						case o.someState(k, func(s string) bool { return s == "Blocked" }):
							o.st["ro_refused_state_blocked"]++
						}
					}
				}
			default:
				// "blocks public UDP (or IPv6) addresses only after a full observation window in which fewer
				// than the required number of dials succeeded"; after a success cleared the state the window
				// is not full, so this is also "cannot stay blocked once such dials succeed again"
				blocked := false
				for _, k := range kinds {
					if o.someState(k, func(s string) bool { return s == "Blocked" }) {
						blocked = true
						withheldKind[k] = true
					}
				}
				if !blocked {
					sig := pfx + "withheld-while-not-blocked:" + a.Class
					for _, k := range kinds {
						if o.justReset[k] {
							sig = pfx + "withheld-after-success-cleared-the-state:" + a.Class
						}
					}
					out = append(out, finding{sig, fmt.Sprintf("public address %s (%s) was withheld although no full window with too few successes has been observed since the last reset; model: %s", a.Addr, a.Class, o.describe())})
				} else {
					o.st["withheld_public_addrs"]++
				}
			}
		}
		if !d.RO {
			for k := 0; k < 2; k++ {
				if withheldKind[k] {
					o.st["requests_filtered_"+kindName[k]]++
				}
				if handedKindWhileBlocked[k] {
					o.st["probes_let_through_"+kindName[k]]++
				}
				if rel[k] && o.h.Enabled[k] && o.justReset[k] {
					if !withheldKind[k] {
						o.st["requests_through_after_unblock_"+kindName[k]]++
					}
					o.justReset[k] = false
				}
			}
		}
		if d.Op == "dial" && withheldAll && len(d.Addrs) > 0 {
			o.st["dialpeer_every_addr_withheld"]++
			if d.RO {
				o.st["ro_dialpeer_refused"]++
			}
			switch {
			case ob.OK:
				o.st["dialpeer_ok_without_any_dial"]++ // not this property's business
			case ob.IsBH:
				o.st["dialpeer_refused_with_black_hole_error"]++
			default:
				o.st["dialpeer_refused_without_black_hole_error"]++
			}
		}
		if d.Op == "dial" {
			for ai := range d.Addrs {
				if ob.BHErr != nil && ob.BHErr[ai] {
					if hv[ai] {
						o.st["addr_reported_black_holed_but_dialed"]++
					} else {
						o.st["addrs_reported_black_holed"]++
					}
				} else if !hv[ai] && !ob.OK {
					o.st["addr_withheld_but_not_reported_black_holed"]++
				}
			}
			if ob.OK {
				o.st["dialpeer_ok"]++
			} else {
				o.st["dialpeer_failed"]++
			}
		}
	}
	if len(out) > 0 {
		return out, ""
	}

	// the probe clause and everything else: some configuration must explain the observed hand-over
	next := o.requests(st, so, 0)
	if len(next) == 0 {
		sig := "swarm:filter-output-unexplained"
		switch {
		case len(o.requests(st, so, relaxRun)) > 0:
			// "even while blocking lets one request in every window-size requests through as a probe"
			sig = "swarm:N-requests-refused-without-a-probe"
		case len(o.requests(st, so, relaxSpacing)) > 0:
			sig = "swarm:let-through-while-blocked-and-no-probe-due"
		case len(o.requests(st, so, relaxRun|relaxSpacing)) > 0:
			sig = "swarm:probe-schedule"
		}
		if pureRO {
			sig = strings.Replace(sig, "swarm:", "readonly:", 1)
		}
		return []finding{{sig, "no reference configuration explains which addresses were handed to the transports; model before the step: " + o.describe()}}, ""
	}
	o.set = next
	if len(st.Dials) > 1 {
		o.st["concurrent_groups"]++
	}

	// results: only dials of public UDP / public IPv6 addresses by the regular swarm count
	var evs []resEv
	for di := range st.Dials {
		d, ob := &st.Dials[di], &so.Dials[di]
		if d.Op != "dial" || d.RO {
			continue
		}
		for ai := range d.Addrs {
			a, rc := &d.Addrs[ai], ob.Handed[ai]
			if rc == nil {
				continue
			}
			e := resEv{end: rc.EndU, dial: di}
			if a.Public {
				e.applies = [2]bool{a.UDP && o.h.Enabled[kUDP], a.IP6 && o.h.Enabled[kIP6]}
			}
			counts := e.applies[0] || e.applies[1]
			switch {
			case rc.Result == "ok":
				e.kind = 0
			case !counts:
				continue
			case rc.Result == "fail":
				e.kind = 1
				o.st["results_failure"]++
			case strings.Contains(rc.CtxErr, "deadline"):
				e.kind = 1 // a dial that timed out is what a black hole looks like
				o.st["results_timeout"]++
			default:
				e.kind = 2
				o.st["results_cancelled_after_answer"]++
			}
			if counts && e.kind == 0 {
				o.st["results_success"]++
			}
			evs = append(evs, e)
		}
	}
	sort.SliceStable(evs, func(i, j int) bool { return evs[i].end < evs[j].end })
	hasCancel := false
	for _, e := range evs {
		for k := 0; k < 2; k++ {
			if e.kind == 0 && e.applies[k] && blockedBefore[k] {
				o.st["success_while_blocked_"+kindName[k]]++
				o.justReset[k] = true
			}
		}
		hasCancel = hasCancel || e.kind == 2
	}
	before := o.set
	after := o.results(before, evs, cancelBoth, true)
	prune := func(set map[config]struct{}) map[config]struct{} {
		if noStateObservation {
			return set
		}
		out := map[config]struct{}{}
		for c := range set {
			ok := true
			for k := 0; k < 2; k++ {
				if o.h.Enabled[k] && o.state(k, c[k].win) != so.State[k] {
					ok = false
				}
			}
			if ok {
				out[c] = struct{}{}
			}
		}
		return out
	}
	pruned := prune(after)
	if len(pruned) == 0 {
		o.set = after
		sig := "swarm:state-unexplained"
		for k := 0; k < 2; k++ {
			if o.h.Enabled[k] && !o.someState(k, func(s string) bool { return s == so.State[k] }) {
				sig = fmt.Sprintf("swarm:state-%s-not-explained-by-recorded-dials:%s", so.State[k], kindName[k])
			}
		}
		return []finding{{sig, fmt.Sprintf("after the step the counters report udp=%s ipv6=%s; the reference, fed with the dials of public UDP/IPv6 addresses that the transports saw, allows only: %s", so.State[kUDP], so.State[kIP6], o.describe())}}, ""
	}
	if hasCancel {
		f, s := len(prune(o.results(before, evs, cancelFail, false))) > 0, len(prune(o.results(before, evs, cancelSkip, false))) > 0
		switch {
		case f && !s:
			o.st["cancelled_dial_counted_as_failure(decisive)"]++
		case s && !f:
			o.st["cancelled_dial_not_counted(decisive)"]++
		default:
			o.st["cancelled_dial_counting_not_observable"]++
		}
	}
	o.set = pruned
	if len(o.set) > 1 {
		o.st["steps_with_several_configurations"]++
	}
	// "never changes state": a step made only of read-only traffic leaves the shared counters as they were
	if pureRO {
		for k := 0; k < 2; k++ {
			if so.SnapBefore[k] != so.SnapAfter[k] {
				out = append(out, finding{"readonly:counter-changed:" + kindName[k], fmt.Sprintf("read-only traffic changed the shared %s counter: before {%s} after {%s}", kindName[k], so.SnapBefore[k], so.SnapAfter[k])})
			}
		}
		o.st["ro_snapshots_compared"]++
	}
	return out, ""
}

// regularView is what the twin comparison looks at: everything the regular swarm did and the counters'
// contents after each of its steps.
func regularView(h *history, obs *histObs) []string {
	var out []string
	for si := range obs.Steps {
		var ds []string
		for di := range h.Steps[si].Dials {
			d, o := &h.Steps[si].Dials[di], &obs.Steps[si].Dials[di]
			if d.RO {
				continue
			}
			s := fmt.Sprintf("%s peer=%d ok=%v skipped=%v:", d.Op, d.Peer, o.OK, o.Skipped)
			for ai, rc := range o.Handed {
				if rc == nil {
					s += fmt.Sprintf(" %s=withheld", d.Addrs[ai].Class)
				} else {
					s += fmt.Sprintf(" %s=%s@%d", d.Addrs[ai].Class, rc.Result, rc.EndU)
				}
			}
			ds = append(ds, s)
		}
		if len(ds) > 0 {
			out = append(out, fmt.Sprintf("%s || udp{%s} ipv6{%s}", strings.Join(ds, " ; "), obs.Steps[si].SnapAfter[kUDP], obs.Steps[si].SnapAfter[kIP6]))
		}
	}
	return out
}

// ---------------------------------------------------------------------------------------------------

func selfCheckClasses() string {
	for _, c := range classes() {
		for _, n := range []int{0, 1, 255, 256, 70000} {
			a := ma.StringCast(c.mk(n))
			if manet.IsPublicAddr(a) != c.public {
				return fmt.Sprintf("class %s: %s public=%v expected %v", c.name, a, manet.IsPublicAddr(a), c.public)
			}
		}
	}
	return ""
}

func swarmPart(r *run.R) {
	if msg := selfCheckClasses(); msg != "" {
		r.Inconclusive("swarm/selfcheck", "the generator's address classes disagree with go-multiaddr: "+msg)
		return
	}
	race := os.Getenv("VERIF_RACE") == "1"
	ctxEndsBeforeDial(r)
	type fam struct {
		name     string
		n, steps int
	}
	fams := []fam{{"seq", r.Pick(700, 8000), r.Pick(44, 70)}, {"ro", r.Pick(350, 4000), r.Pick(40, 60)}, {"conc", r.Pick(400, 4000), r.Pick(26, 40)}}
	if race {
		fams = []fam{{"conc", r.Pick(240, 1200), r.Pick(24, 36)}, {"ro", r.Pick(80, 400), r.Pick(30, 50)}}
	}
	type job struct {
		fam fam
		idx int
	}
	var jobs []job
	for _, f := range fams {
		for i := 0; i < f.n; i++ {
			jobs = append(jobs, job{f, i})
		}
	}
	var mu sync.Mutex
	samples := map[string]bool{}
	workers := 0
	if race {
		workers = 8
	}
	run.Parallel(len(jobs), workers, func(i int) {
		j := jobs[i]
		h := genHistory(r, j.fam.name, j.idx, j.fam.steps)
		if !r.Want(h.ID) || r.TooMany() {
			return
		}
		obs := runHistory(r.T, h)
		detail := func(upTo int) map[string]any {
			hh := *h
			if upTo+1 < len(hh.Steps) {
				hh.Steps = hh.Steps[:upTo+1]
			}
			oo := obs.Steps
			if upTo+1 < len(oo) {
				oo = oo[:upTo+1]
			}
			return map[string]any{"history": hh, "observed": oo}
		}
		if r.BubbleFailed(obs.bubble, "swarm", h.ID, "the history never wound down (all goroutines blocked)", map[string]any{"history": h}) {
			return
		}
		if obs.Stuck != "" {
			r.Inconclusive(h.ID, obs.Stuck)
			return
		}
		o := newOracle(h)
		bad := false
		for si := range obs.Steps {
			fs, harness := o.step(&h.Steps[si], &obs.Steps[si])
			if harness != "" {
				r.Inconclusive(h.ID, fmt.Sprintf("step %d: %s", si, harness))
				bad = true
				break
			}
			if len(fs) > 0 {
				for _, f := range fs {
					d := detail(si)
					d["step"] = si
					r.Violation(f.sig, h.ID, fmt.Sprintf("step %d (N=%v MinSuccesses=%v present=%v): %s", si, h.N, h.Min, h.Enabled, f.msg), d)
				}
				bad = true
				break
			}
		}
		r.Eval(len(obs.Steps))
		mu.Lock()
		for k, v := range o.st {
			r.Count("sw_"+k, v)
		}
		r.Count("sw_histories_"+h.Fam, 1)
		r.Count("sw_steps", len(obs.Steps))
		if !h.Enabled[0] || !h.Enabled[1] {
			r.Count("sw_histories_with_an_absent_counter", 1)
		}
		wantSample := !bad && !samples[h.Fam] && o.st["withheld_public_addrs"] > 0 && o.st["success_while_blocked_udp"]+o.st["success_while_blocked_ipv6"] > 0
		if wantSample {
			samples[h.Fam] = true
		}
		mu.Unlock()
		if o.st["withheld_public_addrs"] > 0 {
			r.Nontrivial(h.ID)
		}
		if wantSample {
			n := min(len(obs.Steps), 8)
			r.Sample(map[string]any{"kind": "swarm history (first steps)", "history": detail(n - 1)["history"], "observed": detail(n - 1)["observed"]})
		}
		// twin: the same history without the read-only swarm's traffic; the regular swarm and the counters
		// must go through exactly the same motions ("never changes state")
		if h.Fam == "ro" && !bad && h.hasRO() {
			th := withoutRO(h)
			tobs := runHistory(r.T, th)
			if !tobs.bubble.OK() || tobs.Stuck != "" {
				r.Inconclusive(th.ID, "twin run did not complete")
				return
			}
			a, b := regularView(h, &obs), regularView(th, &tobs)
			diff := -1
			for i := 0; i < len(a) || i < len(b); i++ {
				if i >= len(a) || i >= len(b) || a[i] != b[i] {
					diff = i
					break
				}
			}
			mu.Lock()
			r.Count("sw_twin_histories_compared", 1)
			r.Count("sw_twin_steps_compared", len(a))
			mu.Unlock()
			if diff >= 0 {
				var x, y string
				if diff < len(a) {
					x = a[diff]
				}
				if diff < len(b) {
					y = b[diff]
				}
				r.Violation("readonly:regular-swarm-differs-from-twin-without-readonly-traffic", h.ID,
					fmt.Sprintf("regular step %d differs: with read-only traffic {%s}, without {%s}", diff, x, y),
					map[string]any{"history": h, "with_readonly": a, "without_readonly": b})
			}
		}
	})
}

// swarmRequire: the path classes the swarm-level part exists to exercise.
func swarmRequire(r *run.R) {
	if r.Replaying() || r.Violations() > 0 {
		return
	}
	race := os.Getenv("VERIF_RACE") == "1"
	q := func(n int) int {
		if race {
			return max(1, n/20)
		}
		return n
	}
	r.Require("sw_requests_filtered_udp", q(3000))
	r.Require("sw_requests_filtered_ipv6", q(2000))
	r.Require("sw_probes_let_through_udp", q(2000))
	r.Require("sw_probes_let_through_ipv6", q(1500))
	r.Require("sw_success_while_blocked_udp", q(700))
	r.Require("sw_success_while_blocked_ipv6", q(400))
	r.Require("sw_requests_through_after_unblock_udp", q(600))
	r.Require("sw_requests_through_after_unblock_ipv6", q(400))
	r.Require("sw_private_addr_handed_while_blocked", q(5000))
	r.Require("sw_other_kind_addr_handed_while_blocked", q(6000))
	r.Require("sw_udp4_addr_handed_while_only_ipv6_blocked", q(1500))
	r.Require("sw_tcp6_addr_handed_while_only_udp_blocked", q(700))
	r.Require("sw_dialpeer_refused_with_black_hole_error", q(1500))
	r.Require("sw_ro_refused_state_unknown", q(1000))
	r.Require("sw_ro_refused_state_blocked", q(2000))
	r.Require("sw_ro_allowed_known_good", q(400))
	r.Require("sw_concurrent_groups", q(2000))
	r.Require("sw_results_cancelled_after_answer", q(4000))
	r.Require("sw_results_timeout", q(800))
	r.Require("sw_tie_groups_mixed", q(1000))
	r.Require("sw_ro_snapshots_compared", q(1000))
	r.Require("sw_twin_histories_compared", q(80))
	if !race {
		r.Require("sw_candial_queries", 800)
		r.Require("sw_redial_connected_peer_no_request", 300)
	}
}
