// C20 — Black-hole detection never blocks for good nor touches unaffected addresses.
//
// Oracle: a reference written from the property statement (window as a list, explicit request
// bookkeeping), stepped in lock-step with the REAL swarm.BlackHoleSuccessCounter / blackHoleDetector.
// Workload: complete enumeration of event sequences {request, success, failure} up to a depth bound
// for small (N, MinSuccesses); state-graph walk for larger N; FilterAddrs on all subsets of a
// representative address set in every pair of counter situations; read-only twins.
// The swarm-level path (a real Swarm dialing through the detector) is in swarm_test.go.
package c20

import (
	"fmt"
	"os"
	"strings"
	"sync"
	"testing"

	"github.com/libp2p/go-libp2p/p2p/net/swarm"
	ma "github.com/multiformats/go-multiaddr"

	"verif/harness/rig/run"
)

const (
	evReq = iota
	evSucc
	evFail
)

var evName = []string{"req", "succ", "fail"}

// ref is the reference model of one success counter, from the statement:
//   - nothing is evaluated before N results have been recorded since the last reset (Probing);
//   - with a full window: Blocked iff fewer than MinSuccesses of the last N results succeeded;
//   - a success recorded while Blocked clears everything (empty Probing state);
//   - while Blocked, one request in every N is let through as a probe.
type ref struct {
	n, min int
	win    []bool // results since last reset, at most the last n
	// relation bookkeeping for the probe clause
	blockedRun int // consecutive requests answered Blocked since the last Probing answer / state change
	sinceProbe int // requests answered since the last Probing answer while continuously Blocked (-1: none yet)
}

func (m *ref) state() string {
	if len(m.win) < m.n {
		return "Probing"
	}
	s := 0
	for _, b := range m.win {
		if b {
			s++
		}
	}
	if s >= m.min {
		return "Allowed"
	}
	return "Blocked"
}

func (m *ref) record(success bool) {
	if m.state() == "Blocked" && success {
		m.win = m.win[:0]
		m.blockedRun, m.sinceProbe = 0, -1
		return
	}
	m.win = append(m.win, success)
	if len(m.win) > m.n {
		m.win = m.win[1:]
	}
	if m.state() != "Blocked" {
		m.blockedRun, m.sinceProbe = 0, -1
	}
}

// request judges the answer the real counter gave; returns "" or a complaint.
func (m *ref) request(got string) string {
	st := m.state()
	switch st {
	case "Allowed", "Probing":
		if got != st {
			return fmt.Sprintf("request in state %s answered %s", st, got)
		}
		return ""
	}
	// Blocked: answer must be Blocked or Probing, at least one Probing in every N consecutive
	// requests and never two probes closer than N requests apart.
	switch got {
	case "Blocked":
		m.blockedRun++
		if m.sinceProbe >= 0 {
			m.sinceProbe++
		}
		if m.blockedRun >= m.n {
			return fmt.Sprintf("%d consecutive requests refused while Blocked without a probe (N=%d)", m.blockedRun, m.n)
		}
	case "Probing":
		if m.sinceProbe >= 0 && m.sinceProbe+1 < m.n {
			return fmt.Sprintf("second probe only %d requests after the previous one (N=%d)", m.sinceProbe+1, m.n)
		}
		m.blockedRun = 0
		m.sinceProbe = 0
	default:
		return fmt.Sprintf("request in state Blocked answered %s", got)
	}
	return ""
}

type stepper struct {
	real *swarm.BlackHoleSuccessCounter
	m    ref
}

func newStepper(n, min int) *stepper {
	return &stepper{real: &swarm.BlackHoleSuccessCounter{N: n, MinSuccesses: min, Name: "verif"}, m: ref{n: n, min: min, sinceProbe: -1}}
}

// step applies one event to both and returns a complaint or "".
func (s *stepper) step(ev int) string {
	switch ev {
	case evReq:
		got := s.real.HandleRequest().String()
		if c := s.m.request(got); c != "" {
			return c
		}
	case evSucc, evFail:
		wasBlocked := s.m.state() == "Blocked"
		s.real.RecordResult(ev == evSucc)
		s.m.record(ev == evSucc)
		if wasBlocked && ev == evSucc && s.real.State().String() != "Probing" {
			return "success while Blocked did not yield Probing state (got " + s.real.State().String() + ")"
		}
	}
	if got, want := s.real.State().String(), s.m.state(); got != want {
		if got == "Blocked" {
			return fmt.Sprintf("state Blocked although the statement requires %s (window %v, N=%d, MinSuccesses=%d)", want, s.m.win, s.m.n, s.m.min)
		}
		return fmt.Sprintf("state %s, reference %s (window %v, N=%d, MinSuccesses=%d)", got, want, s.m.win, s.m.n, s.m.min)
	}
	return ""
}

func seqString(seq []int) string {
	var sb strings.Builder
	for i, e := range seq {
		if i > 0 {
			sb.WriteByte(' ')
		}
		sb.WriteString(evName[e])
	}
	return sb.String()
}

func TestC20(t *testing.T) {
	r := run.New(t, "C20", "exploration")
	defer r.Finish()
	r.Rule("all event sequences over {request, success, failure} of the stated depth for every (N, MinSuccesses), each replayed on a fresh real BlackHoleSuccessCounter in lock-step with a reference model; a sequence is non-trivial if the reference visits the Blocked state; FilterAddrs: all subsets of 8 representative addresses x counter situations x read-only; distinct = distinct (config, sequence); swarm-level part: generated histories of DialPeer calls to fresh peers on a REAL swarm over scripted transports (virtual time), judged step by step by a nondeterministic reference fed with the transport dial log; such a history is non-trivial if the real swarm withheld a public address at least once")
	r.Assume("window sizes above the enumerated N are covered only by the state-graph walk",
		"swarm-level part: every address that passes the swarm's filtering is handed to its scripted transport before the DialPeer ends (fresh peers, scripted successes slower than all dial-ranking delays); virtual end times order the recorded dial results")

	if os.Getenv("VERIF_RACE") == "1" || os.Getenv("C20_PART") == "swarm" {
		// race pass: only the workloads with concurrency (real swarm, concurrent DialPeers, shared counters).
		// C20_PART=swarm (diagnosis, mutation trials): the swarm-level part alone, full size.
		swarmPart(r)
		swarmRequire(r)
		return
	}
	enumerate(r)
	stateWalk(r)
	filterAddrs(r)
	readOnlyTwins(r)
	swarmPart(r)
	swarmRequire(r)
	r.Require("sequences_reaching_blocked", 100)
	r.Require("blocked_requests_probed", 100)
	r.Require("blocked_success_resets", 100)
	r.Require("filter_calls", 1000)
	r.Require("filter_removed_addrs", 100)
}

func enumerate(r *run.R) {
	maxN := r.Pick(3, 4)
	depth := r.Pick(11, 13)
	type cfg struct{ n, min int }
	var cfgs []cfg
	for n := 1; n <= maxN; n++ {
		for min := 0; min <= n+1; min++ {
			cfgs = append(cfgs, cfg{n, min})
		}
	}
	total := 1
	for i := 0; i < depth; i++ {
		total *= 3
	}
	// shard: (cfg, first 3 events) -> 27 shards per cfg
	const shardEvents = 3
	shards := 27
	per := total / shards
	var mu sync.Mutex
	run.Parallel(len(cfgs)*shards, 0, func(idx int) {
		c := cfgs[idx/shards]
		shard := idx % shards
		caseID := fmt.Sprintf("enum/N%d/M%d/shard%d", c.n, c.min, shard)
		if !r.Want(caseID) {
			return
		}
		seq := make([]int, depth)
		var reachedBlocked, probed, resets, steps int
		for k := 0; k < per; k++ {
			// sequence = shard digits followed by k's digits
			x := shard
			for i := shardEvents - 1; i >= 0; i-- {
				seq[i] = x % 3
				x /= 3
			}
			x = k
			for i := depth - 1; i >= shardEvents; i-- {
				seq[i] = x % 3
				x /= 3
			}
			s := newStepper(c.n, c.min)
			sawBlocked := false
			for i, e := range seq {
				before := s.m.state()
				if c := s.step(e); c != "" {
					r.Violation("counter:"+strings.SplitN(c, " (", 2)[0], caseID, c,
						map[string]any{"N": s.m.n, "MinSuccesses": s.m.min, "sequence": seqString(seq[:i+1])})
					break
				}
				steps++
				if before == "Blocked" {
					sawBlocked = true
					if e == evReq && s.m.sinceProbe == 0 {
						probed++
					}
					if e == evSucc {
						resets++
					}
				}
			}
			if sawBlocked {
				reachedBlocked++
			}
			if r.TooMany() {
				break
			}
		}
		mu.Lock()
		r.Eval(per)
		r.Count("sequences_reaching_blocked", reachedBlocked)
		r.Count("blocked_requests_probed", probed)
		r.Count("blocked_success_resets", resets)
		r.Count("lockstep_steps", steps)
		mu.Unlock()
		// sequences are distinct by construction
		r.NontrivialN(reachedBlocked)
	})
	r.Extra("enumeration", map[string]any{"max_N": maxN, "depth": depth, "configs": len(cfgs), "sequences_per_config": total})
	r.Exhaustive(true)
	r.Sample(map[string]any{"N": 2, "MinSuccesses": 1, "sequence": "fail fail req req succ req", "note": "every sequence of this alphabet up to the depth bound is replayed"})
}

// stateWalk explores the reachable state graph for larger N: states are identified by the reference
// state (window, request phase), each is reached on a fresh real counter by its shortest path.
func stateWalk(r *run.R) {
	maxN := r.Pick(5, 7)
	for n := 1; n <= maxN; n++ {
		for min := 0; min <= n+1; min++ {
			caseID := fmt.Sprintf("walk/N%d/M%d", n, min)
			if !r.Want(caseID) {
				continue
			}
			type node struct{ path []int }
			key := func(path []int) string {
				// identify by reference window + request phase (requests since reset mod N)
				m := ref{n: n, min: min, sinceProbe: -1}
				reqs := 0
				for _, e := range path {
					switch e {
					case evReq:
						reqs++
					default:
						if m.state() == "Blocked" && e == evSucc {
							reqs = 0
						}
						m.record(e == evSucc)
					}
				}
				return fmt.Sprintf("%v/%d", m.win, reqs%n)
			}
			seen := map[string]bool{key(nil): true}
			queue := []node{{}}
			states, trans := 0, 0
			for len(queue) > 0 {
				cur := queue[0]
				queue = queue[1:]
				states++
				for e := 0; e < 3; e++ {
					path := append(append([]int{}, cur.path...), e)
					s := newStepper(n, min)
					for i, pe := range path {
						if c := s.step(pe); c != "" {
							r.Violation("counter:"+strings.SplitN(c, " (", 2)[0], caseID, c,
								map[string]any{"N": n, "MinSuccesses": min, "sequence": seqString(path[:i+1])})
							break
						}
					}
					trans++
					k := key(path)
					if !seen[k] {
						seen[k] = true
						queue = append(queue, node{path})
					}
				}
				if r.TooMany() {
					break
				}
			}
			r.Eval(trans)
			r.Count("walk_states", states)
			r.Count("walk_transitions", trans)
			r.Nontrivial(caseID)
		}
	}
}

var addrUniverse = []string{
	"/ip4/1.2.3.4/tcp/1",                 // public tcp4
	"/ip4/1.2.3.4/udp/1/quic-v1",         // public udp4
	"/ip6/2001:db9::1/tcp/1",             // public tcp6
	"/ip6/2001:db9::1/udp/1/quic-v1",     // public udp6
	"/ip4/192.168.1.5/udp/1/quic-v1",     // private udp4
	"/ip6/fd00::1/udp/1/quic-v1",         // private udp6 (ULA)
	"/ip4/127.0.0.1/udp/1/quic-v1",       // loopback udp
	"/ip4/5.6.7.8/tcp/1/p2p/12D3KooWQYhTNQdmr3ArTeUHRYzFg94BKyTkoWBDWez9kSCVe2Xo/p2p-circuit", // relay over public tcp4
}

type addrClass struct{ public, udp, ip6 bool }

var addrClasses = []addrClass{
	{true, false, false}, {true, true, false}, {true, false, true}, {true, true, true},
	{false, true, false}, {false, true, true}, {false, true, false}, {true, false, false},
}

// situations a counter can be put in, with the verdict the statement fixes for the NEXT request.
type situation struct {
	name    string
	build   func() *swarm.BlackHoleSuccessCounter
	verdict string // "none" (nil counter), "Allowed", "Probing", "Blocked", and for read-only the state
	state   string
}

func mkCounter(n, min int, evs ...int) *swarm.BlackHoleSuccessCounter {
	c := &swarm.BlackHoleSuccessCounter{N: n, MinSuccesses: min, Name: "f"}
	for _, e := range evs {
		switch e {
		case evReq:
			c.HandleRequest()
		case evSucc:
			c.RecordResult(true)
		case evFail:
			c.RecordResult(false)
		}
	}
	return c
}

func situations() []situation {
	return []situation{
		{"nil", func() *swarm.BlackHoleSuccessCounter { return nil }, "none", "none"},
		{"probing-empty", func() *swarm.BlackHoleSuccessCounter { return mkCounter(4, 2) }, "Probing", "Probing"},
		{"probing-partial", func() *swarm.BlackHoleSuccessCounter { return mkCounter(4, 2, evFail, evFail, evFail) }, "Probing", "Probing"},
		{"allowed", func() *swarm.BlackHoleSuccessCounter { return mkCounter(4, 2, evSucc, evSucc, evFail, evFail) }, "Allowed", "Allowed"},
		// blocked, a probe has just been answered (4th request) -> the next request must be refused
		{"blocked-after-probe", func() *swarm.BlackHoleSuccessCounter {
			c := mkCounter(4, 2, evFail, evFail, evFail, evFail)
			for i := 0; i < 8; i++ {
				if c.HandleRequest().String() == "Probing" {
					break
				}
			}
			return c
		}, "Blocked", "Blocked"},
		// blocked, 3 refusals since the last probe -> the next request must be a probe
		{"blocked-probe-due", func() *swarm.BlackHoleSuccessCounter {
			c := mkCounter(4, 2, evFail, evFail, evFail, evFail)
			for i := 0; i < 8; i++ {
				if c.HandleRequest().String() == "Probing" {
					break
				}
			}
			c.HandleRequest()
			c.HandleRequest()
			c.HandleRequest()
			return c
		}, "Probing", "Blocked"},
	}
}

func filterAddrs(r *run.R) {
	addrs := make([]ma.Multiaddr, len(addrUniverse))
	for i, s := range addrUniverse {
		addrs[i] = ma.StringCast(s)
	}
	sits := situations()
	for _, ro := range []bool{false, true} {
		for _, su := range sits {
			for _, s6 := range sits {
				caseID := fmt.Sprintf("filter/ro=%v/udp=%s/ip6=%s", ro, su.name, s6.name)
				if !r.Want(caseID) {
					continue
				}
				removedHere := 0
				for mask := 0; mask < 1<<len(addrs); mask++ {
					var in []ma.Multiaddr
					var cls []addrClass
					for i := range addrs {
						if mask&(1<<i) != 0 {
							in = append(in, addrs[i])
							cls = append(cls, addrClasses[i])
						}
					}
					udp, ip6 := su.build(), s6.build()
					d := swarm.NewVerifBlackHoleDetector(udp, ip6, ro)
					hasUDP, hasIP6 := false, false
					for _, c := range cls {
						if c.public && c.udp {
							hasUDP = true
						}
						if c.public && c.ip6 {
							hasIP6 = true
						}
					}
					verdict := func(s situation, relevant bool) string {
						if s.verdict == "none" || !relevant {
							return "Allowed"
						}
						if ro {
							if s.state == "Allowed" {
								return "Allowed"
							}
							return "Blocked"
						}
						return s.verdict
					}
					vu, v6 := verdict(su, hasUDP), verdict(s6, hasIP6)
					valid, bh := d.FilterAddrs(in)
					r.Count("filter_calls", 1)
					// expected, from the statement: an address is removed iff it is public and a
					// counter that applies to it refuses while no counter that applies to it probes.
					var want []ma.Multiaddr
					for i, a := range in {
						c := cls[i]
						remove := false
						if c.public {
							probing := (c.udp && vu == "Probing") || (c.ip6 && v6 == "Probing")
							blocked := (c.udp && vu == "Blocked") || (c.ip6 && v6 == "Blocked")
							remove = blocked && !probing
						}
						if !remove {
							want = append(want, a)
						}
					}
					complain := func(sig, msg string) {
						r.Violation("filter:"+sig, caseID, msg, map[string]any{"readOnly": ro, "udp": su.name, "ipv6": s6.name,
							"input": fmt.Sprint(in), "valid": fmt.Sprint(valid), "blackholed": fmt.Sprint(bh), "expected_valid": fmt.Sprint(want)})
					}
					// hard clauses first (independent of the exact expectation)
					vi := 0
					for i, a := range in {
						kept := vi < len(valid) && valid[vi].Equal(a)
						if kept {
							vi++
						}
						c := cls[i]
						if !kept {
							removedHere++
							if !c.public {
								complain("private-removed", "private/loopback address removed: "+a.String())
							} else if !((c.udp && su.verdict != "none") || (c.ip6 && s6.verdict != "none")) {
								complain("unaffected-removed", "address removed although no counter applies to it: "+a.String())
							} else if !((c.udp && su.state == "Blocked") || (c.ip6 && s6.state == "Blocked")) && !ro {
								complain("removed-not-blocked", "address removed although no applicable counter is Blocked: "+a.String())
							}
						}
					}
					if vi != len(valid) {
						complain("not-subsequence", "output is not an order-preserving subset of the input")
					}
					if len(valid)+len(bh) != len(in) {
						complain("partition", "valid+blackholed does not partition the input")
					}
					if fmt.Sprint(valid) != fmt.Sprint(want) && !(len(valid) == 0 && len(want) == 0) {
						complain("expected-set", "filter output differs from the statement's expectation")
					}
					// read-only never changes state
					if ro {
						for _, p := range []struct {
							c *swarm.BlackHoleSuccessCounter
							s situation
						}{{udp, su}, {ip6, s6}} {
							if p.c != nil && p.c.State().String() != p.s.state {
								complain("readonly-state-changed", "read-only FilterAddrs changed a counter state")
							}
						}
					}
				}
				r.Eval(1 << len(addrs))
				r.Count("filter_removed_addrs", removedHere)
				if removedHere > 0 {
					r.Nontrivial(caseID)
				}
			}
		}
	}
	r.Sample(map[string]any{"kind": "FilterAddrs", "readOnly": false, "udp": "blocked-after-probe", "ipv6": "allowed",
		"input": addrUniverse[:4], "expect_removed": []string{addrUniverse[1], addrUniverse[3]}})
}

// readOnlyTwins: a read-only detector must never change what the counters do afterwards: two real
// counters get the same prefix; one of them additionally goes through read-only FilterAddrs and
// RecordResult calls; both then get the same continuation and must answer identically.
func readOnlyTwins(r *run.R) {
	pub := []ma.Multiaddr{ma.StringCast(addrUniverse[1]), ma.StringCast(addrUniverse[3]), ma.StringCast(addrUniverse[2])}
	cases := r.Pick(2000, 20000)
	run.Parallel(cases, 0, func(i int) {
		caseID := fmt.Sprintf("twin/%d", i)
		if !r.Want(caseID) {
			return
		}
		rng := r.Rand(20, uint64(i))
		n := 1 + rng.IntN(5)
		min := rng.IntN(n + 2)
		pre := make([]int, rng.IntN(14))
		for j := range pre {
			pre[j] = rng.IntN(3)
		}
		a, b := mkCounter(n, min, pre...), mkCounter(n, min, pre...)
		a6, b6 := mkCounter(n, min, pre...), mkCounter(n, min, pre...)
		d := swarm.NewVerifBlackHoleDetector(a, a6, true)
		st := a.State().String()
		for k := 0; k < 1+rng.IntN(6); k++ {
			valid, _ := d.FilterAddrs(pub)
			d.RecordResult(pub[rng.IntN(len(pub))], rng.IntN(2) == 0)
			// refuses unless known-good
			if st != "Allowed" && len(valid) != 0 {
				// tcp6 address is governed by the ipv6 counter which has the same state
				r.Violation("readonly:allowed-when-not-known-good", caseID, "read-only detector let addresses through in state "+st,
					map[string]any{"N": n, "MinSuccesses": min, "prefix": seqString(pre), "valid": fmt.Sprint(valid)})
			}
			if st == "Allowed" && len(valid) != len(pub) {
				r.Violation("readonly:refused-when-known-good", caseID, "read-only detector refused in state Allowed",
					map[string]any{"N": n, "MinSuccesses": min, "prefix": seqString(pre)})
			}
		}
		cont := make([]int, 2*n+4)
		for j := range cont {
			cont[j] = rng.IntN(3)
		}
		for j, e := range cont {
			var ra, rb, ra6, rb6 string
			switch e {
			case evReq:
				ra, rb = a.HandleRequest().String(), b.HandleRequest().String()
				ra6, rb6 = a6.HandleRequest().String(), b6.HandleRequest().String()
			default:
				a.RecordResult(e == evSucc)
				b.RecordResult(e == evSucc)
				a6.RecordResult(e == evSucc)
				b6.RecordResult(e == evSucc)
				ra, rb, ra6, rb6 = a.State().String(), b.State().String(), a6.State().String(), b6.State().String()
			}
			if ra != rb || ra6 != rb6 {
				r.Violation("readonly:state-changed", caseID, "counter behaves differently after read-only use",
					map[string]any{"N": n, "MinSuccesses": min, "prefix": seqString(pre), "continuation": seqString(cont[:j+1])})
				break
			}
		}
		r.Eval(1)
		r.Count("readonly_twins", 1)
		if st != "Allowed" {
			r.Nontrivial(caseID)
		}
	})
}
